"""C06, round 8: CALL FORMS of structures that consist of bit-fields only - in particular of ONE bit-field.

The other families of C06 parse through one call form (`T(BytesIO)`, impl.parse).  The library has eight entry points into a
structure's reader - `T(bytes)`, `T(bytearray)`, `T(memoryview)`, `T(stream)`, `T.read(buffer | stream)`, `T.reads(buffer)`,
`cs.read(name, buffer | stream)` - and the constructor call has shortcuts in front of the reader (a structure whose only field is a
char/bytes type takes a `bytes` argument of exactly that size as the VALUE).  A shortcut that fires for a bit-field structure hands
out raw bytes where the property promises a slice of the storage unit.

Family (all choices from the module's seeded PRNG):
  * single : `struct T { <st> a : w; }` for every storage type - uint8/int8/char/enum .. uint64/int64/uint128, the odd widths
             uint24/int24/uint48/int48, enum and flag types, and typedef aliases of them (CHAR, `unsigned char`, `signed char`, BYTE,
             UCHAR, uint8_t, WORD, short, ...) - widths 1 .. unit width;
  * multi  : bit-fields only, 2-6 fields over one or several units (same type continued, exhausted unit continued by the same
             type, a type and its alias or its enum in one unit, type switches);
  each under {<, >} x {packed, aligned} x {interpreted, compiled}, with inputs of EXACTLY the structure's size (the length on which
  the constructor shortcuts key), longer inputs, and one input that is one byte short.
  For every (definition, configuration, input) all 14 call forms are run.

Oracle (the property, on the observable behaviour):
  * every call form succeeds on an input that holds the structure, returns an instance of T, and (stream forms) stands exactly
    behind the structure's units;
  * every field value is an integer (an enum member for enum storage; never bytes) in [0, 2^bits), equal to the slice of the unit
    cut out by an independent bit-slicing reference written here (little endian: first field in the least significant bits; big
    endian: in the most significant; a new unit on a type switch or an exhausted unit);
  * all call forms return identical objects (values and size bookkeeping);
  * writing inverts reading for the object of EVERY call form: dumps() (and T.dumps / T.write / obj.write) gives the input's data
    bits with every unused bit zero, and parsing those bytes again - an input of exactly the structure's size - gives the same values;
  * the other direction: a structure built from field values that fit (`T(a=.., b=..)`) dumps to the reference's composition of
    the units, from which every call form reads the values back;
  * a short input: every call form raises the same exception class (which one is C03's business).
Correspondence: value / consumed size / dump of the `T(bytes)` form are sent to the Lean model (read for interpreted, write always).
"""
from __future__ import annotations

import io
from enum import Enum

from . import defs, impl
from .structprops import load, rand_bytes

# storage type name -> (unit identity: consecutive fields with the same identity share a unit, size in bytes, alignment)
STOR = {
    "uint8": ("uint8", 1, 1), "int8": ("int8", 1, 1), "char": ("char", 1, 1), "E8": ("uint8", 1, 1),
    "uint16": ("uint16", 2, 2), "int16": ("int16", 2, 2), "F16": ("uint16", 2, 2),
    "uint24": ("uint24", 3, 4), "int24": ("int24", 3, 4), "E24": ("uint24", 3, 4),
    "uint32": ("uint32", 4, 4), "int32": ("int32", 4, 4), "E32": ("int32", 4, 4),
    "uint48": ("uint48", 6, 8), "int48": ("int48", 6, 8),
    "uint64": ("uint64", 8, 8), "int64": ("int64", 8, 8),
    "uint128": ("uint128", 16, 16), "int128": ("int128", 16, 16),
    # typedef aliases
    "CHAR": ("char", 1, 1), "unsigned char": ("char", 1, 1), "signed char": ("int8", 1, 1), "BYTE": ("uint8", 1, 1),
    "UCHAR": ("uint8", 1, 1), "uint8_t": ("uint8", 1, 1), "int8_t": ("int8", 1, 1), "__u8": ("uint8", 1, 1),
    "WORD": ("uint16", 2, 2), "short": ("int16", 2, 2), "unsigned short": ("uint16", 2, 2),
    "DWORD": ("uint32", 4, 4), "unsigned int": ("uint32", 4, 4), "QWORD": ("uint64", 8, 8), "long long": ("int64", 8, 8),
}
BASIC = ["uint8", "int8", "char", "E8", "uint16", "int16", "F16", "uint24", "int24", "E24", "uint32", "int32", "E32", "uint48", "int48",
         "uint64", "int64", "uint128", "int128"]
ALIASED = [k for k in STOR if k not in BASIC]
BYTE_SIZED = [k for k, v in STOR.items() if v[1] == 1]
SMALL_UNITS = ("uint24", "int24", "uint48", "int48")  # size < alignment: finding F23 (aligned, two fields in one such unit)


def bitfield(name, st, b):
    return {"name": name, "ty": ("enum", st) if st in defs.ENUMS else ("sc", st), "bits": b}


def spec_of(tree):
    return [(f["ty"][1], f["bits"]) for f in tree[1]]


# ------------------------------------------------------------------------------------------------ the bit-slicing reference

def units_of(spec, align):
    """-> ([(unit offset, unit size, first bit used inside the unit counted in declaration order, bits)] per field, size)"""
    off, maxal, out, unit = 0, 1, [], None  # unit = [identity, offset, size, used]
    for st, b in spec:
        ident, size, al = STOR[st]
        maxal = max(maxal, al)
        if unit is None or unit[0] != ident or unit[3] == unit[2] * 8:
            if align:
                off = -(-off // al) * al
            unit = [ident, off, size, 0]
            off += size
        if unit[3] + b > unit[2] * 8:
            raise ValueError("straddle")
        out.append((unit[1], unit[2], unit[3], b))
        unit[3] += b
    if align:
        off = -(-off // maxal) * maxal
    return out, off


def ref_read(spec, endian, align, data):
    """-> (values, size, mask of the data bits) | None when the input does not hold every unit"""
    lay, size = units_of(spec, align)
    order = "little" if endian == "<" else "big"
    vals, mask = [], bytearray(size)
    for off, usize, used, b in lay:
        if off + usize > len(data):
            return None
        u = int.from_bytes(data[off: off + usize], order)
        lo = used if endian == "<" else usize * 8 - used - b
        vals.append((u >> lo) & ((1 << b) - 1))
        m = (((1 << b) - 1) << lo).to_bytes(usize, order)
        for i in range(usize):
            mask[off + i] |= m[i]
    return vals, size, bytes(mask)


def ref_write(spec, endian, align, vals):
    lay, size = units_of(spec, align)
    order = "little" if endian == "<" else "big"
    out = bytearray(size)
    for (off, usize, used, b), v in zip(lay, vals):
        lo = used if endian == "<" else usize * 8 - used - b
        u = int.from_bytes(out[off: off + usize], order) | (v << lo)
        out[off: off + usize] = u.to_bytes(usize, order)
    return bytes(out)


# ------------------------------------------------------------------------------------------------ call forms

def _stream(call):
    def form(L, data):
        s = io.BytesIO(data)
        return call(L, s), s.tell()
    return form


def _buf(call, conv):
    return lambda L, data: (call(L, conv(data)), None)


def _at_offset(L, data):
    # a stream that does not stand at 0.  Packed structures: at the odd position 3.  Aligned structures: at 16, a multiple of every
    # alignment - an aligned structure at a MISALIGNED position aligns its tail by the absolute stream position (known finding F43,
    # listed for C01/C02/C04/C09, not a statement of C06), so that combination is left to those properties.
    k = 16 if L.align else 3
    s = io.BytesIO((b"\xa5\x5a\xff" * 6)[:k] + data)
    s.seek(k)
    return L.T.read(s), s.tell() - k


FORMS = [
    ("T(bytes)", _buf(lambda L, x: L.T(x), bytes), "T(data)"),
    ("T(bytearray)", _buf(lambda L, x: L.T(x), bytearray), "T(bytearray(data))"),
    ("T(memoryview)", _buf(lambda L, x: L.T(x), lambda d: memoryview(bytes(d))), "T(memoryview(data))"),
    ("T(BytesIO)", _stream(lambda L, s: L.T(s)), "T(io.BytesIO(data))"),
    ("T.read(bytes)", _buf(lambda L, x: L.T.read(x), bytes), "T.read(data)"),
    ("T.read(bytearray)", _buf(lambda L, x: L.T.read(x), bytearray), "T.read(bytearray(data))"),
    ("T.read(memoryview)", _buf(lambda L, x: L.T.read(x), lambda d: memoryview(bytearray(d))), "T.read(memoryview(bytearray(data)))"),
    ("T.read(BytesIO)", _stream(lambda L, s: L.T.read(s)), "T.read(io.BytesIO(data))"),
    ("T.read(BytesIO not at 0)", _at_offset, "k = 16 if T.__align__ else 3; s = io.BytesIO(bytes(k) + data); s.seek(k); T.read(s)"),
    ("T.reads(bytes)", _buf(lambda L, x: L.T.reads(x), bytes), "T.reads(data)"),
    ("T.reads(bytearray)", _buf(lambda L, x: L.T.reads(x), bytearray), "T.reads(bytearray(data))"),
    ("T.reads(memoryview)", _buf(lambda L, x: L.T.reads(x), lambda d: memoryview(bytes(d))), "T.reads(memoryview(data))"),
    ("cs.read('T', bytes)", _buf(lambda L, x: L.cs.read("T", x), bytes), "cs.read('T', data)"),
    ("cs.read('T', BytesIO)", _stream(lambda L, s: L.cs.read("T", s)), "cs.read('T', io.BytesIO(data))"),
]


def case_data(L, spec, data, form=None, expr=None):
    d = {"definition": L.text, "endian": L.endian, "align": L.align, "compiled": L.compiled, "data": bytes(data).hex(),
         "callforms": {"fields": [list(x) for x in spec], "endian": L.endian, "align": L.align, "compiled": L.compiled, "data": bytes(data).hex()}}
    if form:
        d["call form"] = form
    d["repro"] = (f"import io; from dissect.cstruct import cstruct; cs = cstruct(endian={L.endian!r}); "
                  f"cs.load({L.text!r}, compiled={L.compiled}, align={L.align}); T = cs.T; data = bytes.fromhex({bytes(data).hex()!r}); "
                  f"v = {expr or 'T(data)'}; print(v, v.dumps())")
    return d


def field_values(L, tree, obj):
    """the object's field values as integers -> (ints, None) | (None, complaint)"""
    out = []
    for f, rf in zip(tree[1], L.T.__fields__):
        try:
            v = getattr(obj, rf._name)
        except Exception as e:  # noqa: BLE001
            return None, f"field {rf._name} cannot be read from the parsed object: {type(e).__name__}: {e}"
        if f["ty"][0] == "enum":
            if not isinstance(v, Enum) or type(v).__name__ != f["ty"][1]:
                return None, f"field {rf._name} ({f['ty'][1]} : {f['bits']}) parsed as {v!r} ({type(v).__name__}), not a member of the enum"
            v = v.value
        if isinstance(v, bool) or not isinstance(v, int):
            return None, f"field {rf._name} ({f['ty'][1]} : {f['bits']}) parsed as {v!r} ({type(v).__name__}), not an integer"
        out.append(int(v))
    return out, None


def sizes_of(obj):
    try:
        return sorted((k, v) for k, v in obj._sizes.items() if v)
    except Exception:  # noqa: BLE001
        return None


def check_data(eng, res, L, tree, data, sigs, *, model=True, tag="input"):
    """all call forms on one input -> number of complaints"""
    spec = spec_of(tree)
    T = L.T
    ref = ref_read(spec, L.endian, L.align, data)
    before = len(res.violations) + sum(res.known_seen.values())

    def rep(what, form=None, expr=None):
        eng.report(what, case_data(L, spec, data, form, expr), sigs)

    results = []
    for name, call, expr in FORMS:
        try:
            obj, used = call(L, data)
            results.append((name, expr, "ok", obj, used))
        except Exception as e:  # noqa: BLE001
            results.append((name, expr, "err", f"{type(e).__name__}: {str(e)[:120]}", impl.err_class(e)))
    if ref is None:
        # short input: no call form may hand out a value, and all must fail alike
        kinds = {(r[4] if r[2] == "err" else "a value") for r in results}
        for name, expr, st, obj, _ in results:
            if st == "ok":
                rep(f"{name} returns {str(obj)[:120]} from an input that does not hold the structure's storage units", name, expr)
                break
        else:
            if len(kinds) > 1:
                rep(f"the call forms fail differently on a short input: {sorted((r[0], r[4]) for r in results)}")
            elif model and not L.compiled and "F23" not in sigs:
                eng.model_read(L, data, 0, ("err", results[0][4]), "bit-field read, short input")
        return len(res.violations) + sum(res.known_seen.values()) - before
    want_vals, size, mask = ref
    # (an input that holds every unit but not the padding behind the last one - aligned structures - counts as holding the structure)
    exp_dump = bytes(b & m for b, m in zip(bytes(data[:size]) + bytes(max(0, size - len(data))), mask))
    first = None
    for name, expr, st, obj, used in results:
        if st == "err":
            rep(f"{name} raises {obj} on an input that holds the structure (the reference reads {want_vals})", name, expr)
            continue
        if type(obj) is not T:
            rep(f"{name} returns {type(obj).__name__} {str(obj)[:100]}, not an instance of the structure", name, expr)
            continue
        got, complaint = field_values(L, tree, obj)
        if got is None:
            rep(f"{name}: {complaint}", name, expr)
            continue
        bad = [(rf._name, f["bits"], v) for f, rf, v in zip(tree[1], T.__fields__, got) if not 0 <= v < (1 << f["bits"])]
        if bad:
            rep(f"{name}: bit-field values outside [0, 2^bits): {bad}", name, expr)
            continue
        if got != want_vals:
            rep(f"{name} parses the fields as {got}; the bit-slicing reference gives {want_vals}", name, expr)
            continue
        if used is not None and used != size:
            rep(f"{name} leaves the stream {used} bytes behind the start; the structure's units end at {size}", name, expr)
        # writing inverts reading, for the object of this call form
        d = impl.dump(T, obj)
        if d[0] != "ok":
            rep(f"the value returned by {name} cannot be dumped: {d[1]}", name, expr + "; v.dumps()")
            continue
        if d[1] != exp_dump:
            rep(f"the value returned by {name} dumps to {d[1].hex()}; the data bits of the input are {exp_dump.hex()}", name, expr)
            continue
        if first is None:
            first = (name, obj, d[1])
            # the other write entry points, and the inverse closed: an input of exactly the structure's size
            try:
                s1, s2 = io.BytesIO(), io.BytesIO()
                # (the number T.write / v.write RETURN is not compared: on the unmodified library it counts the non-bit fields only - 0
                #  for these structures - and the property speaks of the bytes written, not of that count)
                T.write(s1, obj)
                obj.write(s2)
                alt = {"T.dumps(v)": T.dumps(obj), "T.write(stream, v)": s1.getvalue(), "v.write(stream)": s2.getvalue()}
                if any(v != exp_dump for v in alt.values()):
                    rep(f"the write entry points disagree on the value returned by {name}: {({k: v.hex() for k, v in alt.items()})}; "
                        f"expected {exp_dump.hex()}", name, expr)
            except Exception as e:  # noqa: BLE001
                rep(f"writing the value returned by {name} raises {type(e).__name__}: {e}", name, expr)
        else:
            same = False
            try:
                same = bool(obj == first[1]) and sizes_of(obj) == sizes_of(first[1])  # (the field values were compared above)
            except Exception:  # noqa: BLE001
                pass
            if not same:
                rep(f"{name} and {first[0]} return different objects for the same input: {str(obj)[:100]} sizes {sizes_of(obj)} / "
                    f"{str(first[1])[:100]} sizes {sizes_of(first[1])}", name, expr)
    if first is not None:
        if len(data) != size:
            # parse(dumps(v)) = v through the constructor call on bytes of exactly the structure's size
            try:
                back, complaint = field_values(L, tree, T(first[2]))
                if back != want_vals:
                    rep(f"T(dumps(v)) gives {complaint or back} for v = {want_vals}", "T(bytes)", f"T(bytes.fromhex({first[2].hex()!r}))")
            except Exception as e:  # noqa: BLE001
                rep(f"T(dumps(v)) raises {type(e).__name__}: {e} for v = {want_vals}", "T(bytes)", f"T(bytes.fromhex({first[2].hex()!r}))")
        if model and "F23" not in sigs and results[0][2] == "ok" and first[0] == results[0][0]:
            obj = first[1]
            cv = impl.canon(obj)
            if not L.compiled:
                eng.model_read(L, bytes(data), 0, ("ok", cv, size, sizes_of(obj) or []), f"bit-field read through {first[0]}")
            eng.model_write(L, cv, ("ok", first[2]), f"bit-field write of the value of {first[0]}")
    return len(res.violations) + sum(res.known_seen.values()) - before


def check_built(eng, res, rnd, L, tree, sigs):
    """writing first: a structure built from values that fit dumps to the reference's composition of the units; every call form
    reads the values back from it"""
    spec = spec_of(tree)
    T = L.T
    for pick in ("max", "rand"):
        vals = [(1 << b) - 1 if pick == "max" else rnd.randrange(1 << b) for _, b in spec]
        exp = ref_write(spec, L.endian, L.align, vals)
        cd = case_data(L, spec, exp)
        cd["built from"] = vals
        kw = {}
        try:
            for (st, _), rf, v in zip(spec, T.__fields__, vals):
                kw[rf._name] = getattr(L.cs, st)(v) if st in defs.ENUMS else v
            obj = T(**kw)
            d = obj.dumps()
        except Exception as e:  # noqa: BLE001
            cd["repro"] = cd["repro"].replace("v = T(data)", f"v = T(**{ {k: int(getattr(v, 'value', v)) for k, v in kw.items()} })")
            eng.report(f"a structure built from field values that fit ({vals}) cannot be dumped: {type(e).__name__}: {e}", cd, sigs)
            continue
        res.count(("callforms-built", L.text, L.endian, L.align, L.compiled, tuple(vals)), True)
        res.feat("callforms:built from values, dumped, read back through every call form")
        if d != exp:
            eng.report(f"T({vals}).dumps() = {d.hex()}; composing the units by bit-slicing gives {exp.hex()}", cd, sigs)
            continue
        check_data(eng, res, L, tree, exp, sigs, model=False, tag="built")


# ------------------------------------------------------------------------------------------------ generator

def gen_trees(rnd, tier):
    """-> [(kind, tree, number of configurations to draw)]"""
    quick = tier == "quick"
    out = []
    for st in BASIC + ALIASED:
        W = STOR[st][1] * 8
        if st in BYTE_SIZED:
            widths = list(range(1, 9)) if not quick else sorted(set(rnd.sample(range(1, 9), 2) + [rnd.choice([1, 8])]))
            ncfg = 8 if not quick else 4
        else:
            widths = sorted({1, W, W - 1, *(rnd.randint(1, W) for _ in range(6))}) if not quick else sorted({rnd.choice([1, W, W - 1]), rnd.randint(1, W)})
            ncfg = 8 if not quick else 2
        for w in widths:
            out.append(("single", ("struct", [bitfield("a", st, w)]), ncfg))
    names = list(STOR)
    for _ in range(50 if quick else 1500):
        fields, n = [], 0
        nf = rnd.randint(2, 6)
        st = rnd.choice(BYTE_SIZED if rnd.random() < 0.4 else names)
        left = STOR[st][1] * 8
        while n < nf:
            r = rnd.random()
            if left == 0 or r < 0.25:
                if r < 0.12 and left == 0:
                    pass  # exhausted unit, the same type goes on in a new one
                elif r < 0.18:
                    # a type with the same unit identity (alias, enum over it): shares the unit while there is room
                    same = [k for k in names if STOR[k][0] == STOR[st][0]]
                    st2 = rnd.choice(same)
                    if left == 0 or st2 == st:
                        left = STOR[st2][1] * 8
                    st = st2
                else:
                    st = rnd.choice(BYTE_SIZED if rnd.random() < 0.4 else names)
                    left = 0
                if left == 0:
                    left = STOR[st][1] * 8
            b = rnd.randint(1, min(left, rnd.choice([3, 8, 17, 128])))
            fields.append(bitfield(f"f{n}", st, b))
            n += 1
            left -= b
        out.append(("multi", ("struct", fields), 2 if quick else 4))
    return out


def unit_trace_ok(tree):
    """the generator's notion of units must be the reference's: no straddle"""
    try:
        units_of(spec_of(tree), False)
        return True
    except ValueError:
        return False


def f23_territory(tree, align):
    """finding F23: aligned structure, two or more bit-fields on a storage type smaller than its alignment"""
    spec = spec_of(tree)
    return align and len(spec) >= 2 and any(STOR[st][0] in SMALL_UNITS for st, _ in spec)


def inputs_for(rnd, tier, kind, tree, size, align=False):
    byte_single = kind == "single" and size == 1
    # thorough: all 256 unit contents; for the byte-sized types other than char (no bytes-typed shortcut in reach, alignment 1 changes
    # nothing) in the packed configurations only, to keep the tier's runtime in bounds
    if byte_single and tier == "thorough" and (not align or STOR[tree[1][0]["ty"][1]][0] == "char"):
        exact = [bytes([b]) for b in range(256)]
    elif byte_single:
        exact = [bytes([b]) for b in {0, 0xFF, rnd.choice([0xA5, 0x5A, 0x80, 0x01, 0x7F]), rnd.randrange(256), rnd.randrange(256)}]
    else:
        exact = [bytes(size), b"\xff" * size, bytes([rnd.choice([0x80, 0x01, 0xA5])]) * size] + \
                [rand_bytes(rnd, size) for _ in range(2 if tier == "quick" else 8)]
    longer = [rnd.choice(exact) + rand_bytes(rnd, rnd.randint(1, 5)) for _ in range(2 if tier == "quick" else 6)]
    longer.append(rand_bytes(rnd, size + rnd.randint(1, 9)))
    short = [rand_bytes(rnd, size)[: rnd.randint(0, size - 1)]] if size else []
    return exact, longer, short


ALL_CFG = [(e, a, c) for e in "<>" for a in (False, True) for c in (False, True)]


def run(env, eng, res, rnd):
    tier = env["tier"]
    for kind, tree, ncfg in gen_trees(rnd, tier):
        if not unit_trace_ok(tree):
            continue
        spec = spec_of(tree)
        for endian, align, compiled in (ALL_CFG if ncfg >= 8 else rnd.sample(ALL_CFG, ncfg)):
            sigs = ["F23"] if f23_territory(tree, align) else []
            L, err = load(tree, endian=endian, align=align, compiled=compiled)
            if L is None:
                eng.report(f"a structure of bit-fields that fit their units is rejected: {type(err).__name__}: {err}",
                           {"definition": defs.render_struct("T", tree), "endian": endian, "align": align, "compiled": compiled}, sigs)
                continue
            _, size = units_of(spec, align)
            tsize = getattr(L.T, "size", None)
            if tsize != size:
                eng.report(f"the structure's size is {tsize}; its storage units (with alignment) take {size} bytes", case_data(L, spec, b""), sigs)
                continue
            exact, longer, short = inputs_for(rnd, tier, kind, tree, size, align)
            shape = "single bit-field" if kind == "single" else "bit-fields only"
            complaints = 0
            for cls, group in (("exact size", exact), ("longer", longer), ("short", short)):
                for data in group:
                    if complaints >= 3:
                        break  # one definition does not fill the report with the same complaint
                    res.count(("callforms", L.text, endian, align, compiled, data), True)
                    res.feat(f"callforms:{shape}:{cls}:{'compiled' if getattr(L.T, '__compiled__', False) else 'interpreted'}")
                    res.feat(f"callforms:storage:{spec[0][0]}" if kind == "single" else "callforms:storage:(several fields)")
                    res.feat("callforms:call forms run", len(FORMS))
                    complaints += check_data(eng, res, L, tree, data, sigs)
            check_built(eng, res, rnd, L, tree, sigs)
        if len(eng.lines) > 5000:
            eng.flush()
    eng.flush()


def replay_case(case) -> int:
    """re-evaluate one recorded case of this family on the current tree -> 1 when it still fails"""
    from .common import Result
    from .structprops import Engine

    c = case["callforms"]
    tree = ("struct", [bitfield(f"f{i}" if len(c["fields"]) > 1 else "a", st, b) for i, (st, b) in enumerate(c["fields"])])
    res = Result()
    eng = Engine({"findings": [], "driver_ok": False, "seed": 0, "tier": "quick"}, res, "C06")
    L, err = load(tree, endian=c["endian"], align=c["align"], compiled=c["compiled"])
    if L is None:
        print(f"replay: the definition is rejected: {err}")
        return 1
    check_data(eng, res, L, tree, bytes.fromhex(c["data"]), [], model=False)
    for v in res.violations[:3]:
        print("replay:", v.what[:300])
    return 1 if res.violations else 0
