"""C17 probe (agent v4): structure-value laws on structures whose definition history contains a FAULT inside an update block.

A structure class is not only made by one `cs.load(...)`: fields are added later with `S.add_field(...)`, singly (every call
commits: the class regenerates its constructor, `==`, `hash`, `bool`, its field table and its layout) or batched inside
`with S.start_update():` (one commit when the block is left).  The property speaks about all structure definitions, so the value
laws must hold for a class at the end of ANY such history exactly as for the class declared in one piece with the same fields.
This family generates histories in which a batch goes wrong:

  1. `S` is declared with the first k0 >= 0 fields of a generated field list by `cs.load` (compiled or interpreted, packed or
     aligned, either endianness);
  2. the remaining fields are added in steps: `each` (ordinary add_field calls), `update` (a `with S.start_update():` block that
     is left normally) and at least one `fault` step: inside `with S.start_update():` zero, one or two add_field calls succeed
     and then the body raises -- the next field's type name does not resolve (`cs.resolve`, attribute access on the cstruct
     instance), add_field is given `None` / a type NAME instead of a type / too few arguments, or the caller's own code raises
     (Exception, KeyError from a lookup, a BaseException such as a cancellation) -- and the caller catches the exception;
  3. LATER fields are added by ordinary `S.add_field(...)` calls outside any block (the last step always is one; `update`
     blocks and further faults may sit in between); optionally the intermediate class is used (constructed, hashed, parsed
     with) between the steps.
  All generated faults raise BEFORE the failing field is appended, so the field list of `S` is well defined at every point: the
  fields declared or successfully added so far.  NOT generated: faults that raise only in the commit (a duplicate field name, a
  straddled bit-field): there the offending field already sits in `__fields__` and no commit can succeed any more; such a class
  has no "one-shot definition with the same field list" to be compared with.

Fields: integers of 1..8 bytes (signed / unsigned, 24-bit), enums and a flag, char and char[k], wchar and wchar[2], integer
arrays, runs of bit-fields over one unsigned storage type (a run may be cut by a step boundary or by the fault), a nested
structure, float / double; some names are taken from identifiers that collide with class attributes (`size`, `fields`,
`lookup`, `commit`, `add_field`, `__updating__`, ...).

Oracle (after the first fault step and every step behind it in the thorough tier; at the end and at one intermediate state in the
quick tier): the property as stated, on instances of `S` made in three ways -- keyword construction with EVERY field, assignment of
every field on `S()`, parsing the bytes the one-shot class `O` (same cstruct instance, same field list, declared by one
`cs.load` with the same flags) dumps for the same values:
  * construction succeeds, every field reads back as given, `dumps()` equals the one-shot class's;
  * instances with equal fields are `==` (both orders), not `!=`, hash equally (when hashable);
  * for EVERY field k an instance that differs in exactly field k is `!=` and not `==` (both orders);
  * `bool(x) == any(bool(field))` on random, all-zero and exactly-one-field-non-zero instances; `S()` has every field, each the
    type's zero value; positional / keyword / partial construction equals assigning those fields on `S()`;
  * assigning field k changes, in `dumps()`, only bits that belong to field k (the bits whose flipping changes field k in the
    one-shot class's reader), stores the value (equals the instance constructed with it, re-parses to it), and leaves other
    instances and later `S()` untouched.
"""
from __future__ import annotations

from . import defs, impl, s6_c17

INTS = {"uint8": (1, False), "int8": (1, True), "uint16": (2, False), "int16": (2, True), "uint32": (4, False), "int32": (4, True),
        "uint64": (8, False), "int64": (8, True), "uint24": (3, False), "int24": (3, True)}
ENUMS = {"E8": ("uint8", (1, 2, 7)), "F16": ("uint16", (1, 2, 0x100, 3)), "E32": ("int32", (0, -1, 5))}
BIT_BASES = ["uint8", "uint16", "uint32", "uint64"]
ODD_NAMES = ["size", "fields", "lookup", "dynamic", "alignment", "cs", "type", "value", "name", "hash", "data", "other", "_0", "x_0", "commit",
             "add_field", "start_update", "__updating__"]
FAULTS = ("resolve", "attribute", "none-type", "type-name", "missing-argument", "exception", "lookup", "base-exception")


class Cancelled(BaseException):
    """what a caller's own code may raise inside the block (not an Exception)"""


# ------------------------------------------------------------------------------------------------ field lists

def gen_fields(rnd, nested_name):
    """-> list of field descriptors {"name", "kind", "type", ["bits"], ["len"]}"""
    n = rnd.randint(2, 7)
    pool = [f"f{i}" for i in range(12)]
    rnd.shuffle(pool)
    for _ in range(rnd.choice([0, 0, 1, 2])):
        pool.insert(rnd.randrange(n + 1), rnd.choice([x for x in ODD_NAMES if x not in pool]))
    names = iter(pool)
    out, prev_base = [], None
    while len(out) < n:
        r = rnd.random()
        if r < 0.34:
            out.append({"name": next(names), "kind": "int", "type": rnd.choice(list(INTS))})
        elif r < 0.56:
            bt = rnd.choice([b for b in BIT_BASES if b != prev_base])
            left = INTS[bt][0] * 8
            for _ in range(rnd.randint(2, 3)):
                if left == 0:
                    break
                b = rnd.randint(1, min(left, rnd.choice([2, 4, 8, 9, 17])))
                out.append({"name": next(names), "kind": "bits", "type": bt, "bits": b})
                left -= b
            prev_base = bt
            continue
        elif r < 0.66:
            out.append({"name": next(names), "kind": "enum", "type": rnd.choice(list(ENUMS))})
        elif r < 0.71:
            out.append({"name": next(names), "kind": "char", "type": "char", "len": rnd.choice([None, 2, 3])})
        elif r < 0.74:
            out.append({"name": next(names), "kind": "wchar", "type": "wchar", "len": rnd.choice([None, 2])})
        elif r < 0.83:
            out.append({"name": next(names), "kind": "intarr", "type": rnd.choice(list(INTS)), "len": rnd.randint(1, 3)})
        elif r < 0.93:
            out.append({"name": next(names), "kind": "nested", "type": nested_name})
        else:
            out.append({"name": next(names), "kind": "float", "type": rnd.choice(["float", "double"])})
        prev_base = None
    return out


def decl(d):
    if d["kind"] == "bits":
        return f"{d['type']} {d['name']} : {d['bits']};"
    if d.get("len") is not None:
        return f"{d['type']} {d['name']}[{d['len']}];"
    return f"{d['type']} {d['name']};"


def struct_text(name, descs):
    return f"struct {name} {{ {' '.join(decl(d) for d in descs)} }};"


def type_of(cs, d):
    t = cs.resolve(d["type"])
    return t[d["len"]] if d.get("len") is not None else t


def type_text(d):
    return f"cs.resolve({d['type']!r})" + (f"[{d['len']}]" if d.get("len") is not None else "")


def add_text(d):
    return f"S.add_field({d['name']!r}, {type_text(d)}" + (f", bits={d['bits']}" if d["kind"] == "bits" else "") + ")"


def do_add(cs, S, d):
    S.add_field(d["name"], type_of(cs, d), bits=d.get("bits"))


# ------------------------------------------------------------------------------------------------ histories

def gen_history(rnd, n):
    """-> (k0, steps); steps: {"mode": "each"|"update", "add": [i..]} | {"mode": "fault", "add": [i..], "fault": kind};
    at least one fault step, and the last step is an `each` step with at least one field"""
    k0 = rnd.randint(0, n - 2) if rnd.random() < 0.8 else 0
    rest = list(range(k0, n))
    nlate = rnd.randint(1, min(3, len(rest) - 1)) if rnd.random() < 0.85 else rnd.randint(1, min(3, len(rest)))
    mid, late = rest[: len(rest) - nlate], rest[len(rest) - nlate:]
    steps, faults = [], 0
    while mid:
        if rnd.random() < 0.45 and faults < 2:
            k = rnd.choice([0, 1, 1, 1, 2, 2])
            steps.append({"mode": "fault", "add": mid[:k], "fault": rnd.choice(FAULTS)})
            faults += 1
        else:
            k = rnd.randint(1, min(3, len(mid)))
            steps.append({"mode": rnd.choice(["each", "update"]), "add": mid[:k]})
        mid = mid[k:]
    if not faults:
        ordinary = [i for i, s in enumerate(steps) if len(s["add"]) <= 2]
        if ordinary and rnd.random() < 0.8:
            # one of the batches fails after its fields were added
            steps[rnd.choice(ordinary)].update(mode="fault", fault=rnd.choice(FAULTS))
        else:
            # a batch that fails before anything was added, somewhere in the history
            steps.insert(rnd.randint(0, len(steps)), {"mode": "fault", "add": [], "fault": rnd.choice(FAULTS)})
    # the late fields: ordinary add_field calls outside any block; sometimes cut in two `each` steps
    if len(late) > 1 and rnd.random() < 0.3:
        steps.append({"mode": "each", "add": late[:1]})
        late = late[1:]
    steps.append({"mode": "each", "add": late})
    return k0, steps


def raise_fault(cs, S, kind, nm):
    if kind == "resolve":
        S.add_field(nm, cs.resolve("no_such_type_v4"))
    elif kind == "attribute":
        S.add_field(nm, cs.no_such_type_v4)
    elif kind == "none-type":
        S.add_field(nm, None)
    elif kind == "type-name":
        S.add_field(nm, "uint8")
    elif kind == "missing-argument":
        S.add_field(nm)
    elif kind == "exception":
        raise RuntimeError("the caller's code fails inside the block")
    elif kind == "lookup":
        {}[nm]  # noqa: B018
    elif kind == "base-exception":
        raise Cancelled("the caller's code is cancelled inside the block")
    raise AssertionError(f"fault {kind!r} did not raise")


FAULT_TEXT = {
    "resolve": "S.add_field({nm!r}, cs.resolve('no_such_type_v4'))", "attribute": "S.add_field({nm!r}, cs.no_such_type_v4)",
    "none-type": "S.add_field({nm!r}, None)", "type-name": "S.add_field({nm!r}, 'uint8')", "missing-argument": "S.add_field({nm!r})",
    "exception": "raise RuntimeError('caller')", "lookup": "{{}}[{nm!r}]", "base-exception": "raise GeneratorExit  # the caller's own BaseException",
}


def step_script(descs, step):
    if step["mode"] == "each":
        return [add_text(descs[i]) for i in step["add"]]
    body = [add_text(descs[i]) for i in step["add"]]
    if step["mode"] == "update":
        return ["with S.start_update():"] + ["    " + b for b in body]
    body.append(FAULT_TEXT[step["fault"]].format(nm="zz_failed"))
    return ["try:", "    with S.start_update():"] + ["        " + b for b in body] + ["except BaseException as e: print('handled', type(e).__name__)"]


def run_step(cs, S, descs, step, present):
    """-> the exception a fault step raised (None for ordinary steps); `present` is extended in place"""
    if step["mode"] == "each":
        for i in step["add"]:
            do_add(cs, S, descs[i])
            present.append(i)
        return None
    if step["mode"] == "update":
        with S.start_update():
            for i in step["add"]:
                do_add(cs, S, descs[i])
                present.append(i)
        return None
    try:
        with S.start_update():
            for i in step["add"]:
                do_add(cs, S, descs[i])
                present.append(i)
            raise_fault(cs, S, step["fault"], "zz_failed")
    except BaseException as e:  # noqa: BLE001 - the caller handles whatever the body raised
        if isinstance(e, (KeyboardInterrupt, SystemExit, AssertionError)):
            raise
        return e
    return None


# ------------------------------------------------------------------------------------------------ values
# value specs are plain Python data (so that every instance gets private copies): int | float | bytes | [int..] |
# ("enum", type name, int) | ("nested", p, q)

def int_range(t):
    size, signed = INTS[t]
    bits = size * 8
    return (-(1 << (bits - 1)), (1 << (bits - 1)) - 1) if signed else (0, (1 << bits) - 1)


def rand_int(rnd, lo, hi):
    r = rnd.random()
    if r < 0.2:
        return rnd.choice([lo, hi, 1, hi - 1])
    if r < 0.4:
        return rnd.randint(max(lo, -3), min(hi, 3))
    return rnd.randint(lo, hi)


def rand_spec(rnd, d, nonzero=False):
    k = d["kind"]
    while True:
        if k == "int":
            v = rand_int(rnd, *int_range(d["type"]))
        elif k == "bits":
            v = rand_int(rnd, 0, (1 << d["bits"]) - 1)
        elif k == "enum":
            base, members = ENUMS[d["type"]]
            v = ("enum", d["type"], rnd.choice(members) if rnd.random() < 0.6 else rand_int(rnd, *int_range(base)))
        elif k == "char":
            n = d["len"] or 1
            v = bytes(rnd.randrange(256) if rnd.random() < 0.7 else 0 for _ in range(n))
        elif k == "wchar":
            v = "".join(rnd.choice("\x00aZ\xe9\u0416\u4e2d\uffee") for _ in range(d["len"] or 1))
        elif k == "intarr":
            v = [rand_int(rnd, *int_range(d["type"])) for _ in range(d["len"])]
        elif k == "nested":
            v = ("nested", rand_int(rnd, 0, 255), rand_int(rnd, 0, 65535))
        else:
            v = rnd.randint(-4000, 4000) / 4.0 + 0.0      # exactly representable in 32 bits; never -0.0 / NaN
            v = 0.0 if v == 0 else v
        if not nonzero or v != zero_spec(d):
            return v


def zero_spec(d):
    k = d["kind"]
    if k in ("int", "bits"):
        return 0
    if k == "enum":
        return ("enum", d["type"], 0)
    if k == "char":
        return bytes(d["len"] or 1)
    if k == "wchar":
        return "\x00" * (d["len"] or 1)
    if k == "intarr":
        return [0] * d["len"]
    if k == "nested":
        return ("nested", 0, 0)
    return 0.0


def other_spec(rnd, d, v):
    for _ in range(100):
        w = rand_spec(rnd, d)
        if w != v:
            return w
    raise AssertionError("no second value")


def realize(cs, nested_name, v):
    if isinstance(v, tuple) and v[0] == "enum":
        return getattr(cs, v[1])(v[2])
    if isinstance(v, tuple) and v[0] == "nested":
        return getattr(cs, nested_name)(p=v[1], q=v[2])
    if isinstance(v, list):
        return list(v)
    return v


def show(v):
    if isinstance(v, tuple):
        return f"{v[1]}({v[2]})" if v[0] == "enum" else f"{{p={v[1]}, q={v[2]}}}"
    return v.hex() if isinstance(v, bytes) else repr(v)


# ------------------------------------------------------------------------------------------------ the laws

MISSING = type("Missing", (), {"__repr__": lambda self: "<missing>", "__eq__": lambda self, o: False, "__hash__": lambda self: 0})()


class State:
    """one class `S` at one point of its history, the one-shot class `O` with the same fields, and the ways of making instances"""

    def __init__(self, cs, S, O, descs, nested_name):
        self.cs, self.S, self.O, self.descs, self.nn = cs, S, O, descs, nested_name
        self.names = [d["name"] for d in descs]

    def real(self, vals):
        return {nm: realize(self.cs, self.nn, vals[nm]) for nm in self.names}

    def make(self, way, vals):
        if way == "keywords":
            return self.S(**self.real(vals))
        if way == "assignment":
            x = self.S()
            for nm, v in self.real(vals).items():
                setattr(x, nm, v)
            return x
        return self.S(self.O(**self.real(vals)).dumps())       # "parse"

    def fields_equal(self, x, vals):
        """None if every field of x reads back as the value given, else the name of the first that does not"""
        r = self.real(vals)
        for nm in self.names:
            if not (getattr(x, nm, MISSING) == r[nm]):
                return nm
        return None


WAYS = ("keywords", "assignment", "parse")


def vals_text(st, vals):
    return ", ".join(f"{nm}={show(vals[nm])}" for nm in st.names)


def check_state(res, viol, rnd, st, cd0, key, late, thorough):
    """evaluate the property on st.S; `late`: indices (into st.descs) of the fields added after the first fault"""
    S, O, descs, names = st.S, st.O, st.descs, st.names
    n = len(descs)

    def guard(what, cd, fn):
        try:
            return fn()
        except Exception as e:  # noqa: BLE001 - the property says these operations succeed
            viol(f"{what} raises {type(e).__name__}: {str(e)[:200]}", cd)
            return None

    try:
        got_names = [f._name for f in S.__fields__]
    except Exception as e:  # noqa: BLE001
        viol(f"the field list of the structure cannot be read: {type(e).__name__}: {e}", cd0)
        return
    if got_names != names:
        viol(f"the structure's field list is {got_names}, the history declared / added {names}", cd0)
        return
    try:
        osize = len(O)
        owner = s6_c17.bit_owner(O, osize)
        masks = None if owner is None else [s6_c17.mask_of(owner, k, osize) for k in range(n)]
    except Exception as e:  # noqa: BLE001
        viol(f"the one-shot declaration of the same fields cannot be parsed with: {type(e).__name__}: {e}", cd0)
        return
    if masks is None:
        res.feat("v4:fault:bit-owner-ambiguous")

    vals = {d["name"]: rand_spec(rnd, d) for d in descs}
    zeros = {d["name"]: zero_spec(d) for d in descs}
    cd = dict(cd0, values=vals_text(st, vals))
    res.count((key, "values", vals_text(st, vals)), n >= 2)

    # --- construction in three ways: succeeds, reads back, dumps like the one-shot class
    ref = guard("dumps of the one-shot class's instance", cd, lambda: O(**st.real(vals)).dumps())
    inst = {}
    for way in WAYS:
        x = guard(f"making an instance ({way}: {vals_text(st, vals)[:160]})", dict(cd, made_by=way), lambda: st.make(way, vals))  # noqa: B023
        if x is None:
            continue
        bad = guard(f"reading the fields of an instance made by {way}", dict(cd, made_by=way), lambda: (st.fields_equal(x, vals),))  # noqa: B023
        if bad is None:
            continue
        if bad[0] is not None:
            viol(f"instance made by {way}: field {bad[0]!r} does not read back as the value given ({show(vals[bad[0]])})", dict(cd, made_by=way))
            continue
        out = guard(f"dumps of an instance made by {way}", dict(cd, made_by=way), lambda: x.dumps())  # noqa: B023
        if out is None:
            continue
        if ref is not None and out != ref:
            viol(f"instance made by {way} dumps as {out.hex()}, the one-shot declaration's instance with the same fields as {ref.hex()}", dict(cd, made_by=way))
            continue
        inst[way] = x
        res.feat(f"v4:fault:made-by-{way}")
    if len(inst) < len(WAYS):
        return      # reported above

    # --- equal fields: ==, not !=, equal hashes
    def eq_law():
        for w1, w2 in (("keywords", "assignment"), ("assignment", "parse"), ("parse", "keywords")):
            p, q = inst[w1], inst[w2]
            if not (p == q) or not (q == p) or (p != q) or (q != p):
                viol(f"instances with equal fields (made by {w1} / {w2}) are not equal: == {p == q}/{q == p}, != {p != q}/{q != p}", dict(cd, pair=[w1, w2]))
        hs = {}
        for w, p in inst.items():
            try:
                hs[w] = hash(p)
            except TypeError:
                hs[w] = "unhashable"
        res.feat("v4:fault:" + ("unhashable (array fields)" if "unhashable" in hs.values() else "hash-compared"))
        if len(set(hs.values())) != 1:
            viol(f"equal instances hash differently / are not equally hashable: {hs}", cd)
    guard("comparing / hashing instances with equal fields", cd, eq_law)

    # --- every field: a differing instance is unequal; assignment is local, stores the value, touches nothing else
    a = inst["keywords"]
    for k, d in enumerate(descs):
        nm = d["name"]
        v2 = other_spec(rnd, d, vals[nm])
        vals2 = dict(vals, **{nm: v2})
        is_late = k in late
        cdk = dict(cd, field=nm, new_value=show(v2), field_added_after_the_fault=is_late)
        ways = WAYS if thorough else (rnd.choice(WAYS),)
        for way in ways:
            res.count((key, "differ", vals_text(st, vals), k, show(v2), way), n >= 2)
            res.feat("v4:fault:pair-differing-in-" + ("a-late-field" if is_late else "an-earlier-field"))

            def ne_law(way=way, vals2=vals2, nm=nm, v2=v2, cdk=cdk):
                c = st.make(way, vals2)
                for w, p in inst.items():
                    if (p == c) or (c == p) or not (p != c) or not (c != p):
                        viol(f"instances that differ in exactly field {nm!r} ({show(vals[nm])} vs {show(v2)}; made by {w} / {way}) compare equal: "
                             f"== {p == c}/{c == p}, != {p != c}/{c != p}", dict(cdk, pair=[w, way]))
                        break
            guard(f"making / comparing an instance that differs in field {nm!r} ({way})", cdk, ne_law)

        def assign_law(nm=nm, v2=v2, vals2=vals2, k=k, cdk=cdk):
            res.count((key, "assign", vals_text(st, vals), k, show(v2)), n >= 2)
            y = st.make(rnd.choice(WAYS), vals)
            before = y.dumps()
            setattr(y, nm, realize(st.cs, st.nn, v2))
            after = y.dumps()
            if masks is not None:
                m = masks[k]
                if len(after) != len(before) or len(after) != len(m) or any((p ^ q) & ~mm & 0xFF for p, q, mm in zip(after, before, m)):
                    viol(f"assigning {show(v2)} to field {nm!r} changed bytes outside that field: before={before.hex()} after={after.hex()} "
                         f"field mask={m.hex()}", cdk)
                    return
            bad = st.fields_equal(y, vals2)
            if bad is not None:
                viol(f"after assigning field {nm!r}, field {bad!r} does not hold the expected value", cdk)
                return
            c = st.make("keywords", vals2)
            if after != c.dumps() or not (y == c) or (y != c):
                viol(f"assigning {show(v2)} to field {nm!r} does not give the instance constructed with that value: dumps {after.hex()} vs "
                     f"{c.dumps().hex()}, == {y == c}", cdk)
                return
            back = S(after)
            if not (back == y) or st.fields_equal(back, vals2) is not None:
                viol(f"the dump after assigning {show(v2)} to field {nm!r} does not parse back to the instance", cdk)
                return
            # local to the instance: the other instances and a new default instance are what they were
            if a.dumps() != before or st.fields_equal(a, vals) is not None:
                viol(f"assigning field {nm!r} of one instance changed another instance", cdk)
            if st.fields_equal(S(), zeros) is not None:
                viol(f"assigning field {nm!r} of one instance changed the default instance", cdk)
        guard(f"assigning field {nm!r}", cdk, assign_law)

    # --- bool: false exactly when all fields are; defaults; positional / keyword / partial construction
    def truth(x, what, cdb):
        want = any(bool(getattr(x, nm)) for nm in names)
        res.feat("v4:fault:bool-" + ("truthy" if want else "falsy"))
        if bool(x) != want:
            viol(f"bool({what}) is {bool(x)} but any(fields) is {want}", cdb)

    def bool_law():
        for w, p in inst.items():
            truth(p, f"instance made by {w}", dict(cd, made_by=w))
        dflt = S()
        bad = st.fields_equal(dflt, zeros)
        if bad is not None:
            viol(f"field {bad!r} of the default instance S() is {getattr(dflt, bad, MISSING)!r}, not the type's zero value", cd0)
            return
        for way in WAYS:
            z = st.make(way, zeros)
            truth(z, f"all-zero instance made by {way}", dict(cd0, made_by=way, values="all zero"))
            if not (z == dflt) or (z != dflt):
                viol(f"the all-zero instance made by {way} is not equal to the default instance", dict(cd0, made_by=way))
        truth(dflt, "default instance", dict(cd0, values="default"))
        for k, d in enumerate(descs):
            nm = d["name"]
            one = dict(zeros, **{nm: rand_spec(rnd, d, nonzero=True)})
            for way in (WAYS if thorough else (rnd.choice(WAYS),)):
                x = st.make(way, one)
                res.count((key, "one-nonzero", k, show(one[nm]), way), n >= 2)
                res.feat("v4:fault:only-nonzero-" + ("late-field" if k in late else "earlier-field"))
                cdb = dict(cd0, made_by=way, values=f"all zero but {nm}={show(one[nm])}")
                truth(x, f"instance whose only non-zero field is {nm!r} (= {show(one[nm])}, made by {way})", cdb)
                if (x == dflt) or not (x != dflt):
                    viol(f"the instance whose only non-zero field is {nm!r} (= {show(one[nm])}, made by {way}) equals the default instance", cdb)
    guard("bool / default instance", cd0, bool_law)

    def init_law():
        r = st.real(vals)
        kpos = rnd.randint(0, n)
        kw_idx = [i for i in range(kpos, n) if rnd.random() < 0.5]
        if kpos == 1 and isinstance(r[names[0]], (bytes, bytearray, memoryview)):
            kpos, kw_idx = 0, [0] + kw_idx     # a single positional bytes argument means "parse these bytes" by design
        cdi = dict(cd, positional=names[:kpos], keywords=[names[i] for i in kw_idx])
        res.count((key, "init", vals_text(st, vals), kpos, tuple(kw_idx)), n >= 2)
        res.feat("v4:fault:init-" + ("partial" if kpos + len(kw_idx) < n else "full"))
        built = S(*[r[nm] for nm in names[:kpos]], **{names[i]: r[names[i]] for i in kw_idx})
        r2 = st.real(vals)
        manual = S()
        for i in list(range(kpos)) + kw_idx:
            setattr(manual, names[i], r2[names[i]])
        if not (built == manual) or (built != manual) or built.dumps() != manual.dumps():
            viol("constructing from positional/keyword values differs from assigning those fields on a default instance", cdi)
        given = set(range(kpos)) | set(kw_idx)
        mixed = {nm: (vals[nm] if i in given else zeros[nm]) for i, nm in enumerate(names)}
        bad = st.fields_equal(built, mixed)
        if bad is not None:
            viol(f"partial construction: field {bad!r} is {getattr(built, bad, MISSING)!r}, expected "
                 f"{show(mixed[bad])} ({'given' if names.index(bad) in given else 'unspecified: the zero value'})", cdi)
    guard("construction from positional / keyword values", cd, init_law)


# ------------------------------------------------------------------------------------------------ the probe

def run(env, res, viol, rnd, reps):
    dc = impl.dc()
    thorough = env["tier"] != "quick"
    for rep in range(reps):
        endian = rnd.choice("<>")
        align = rnd.random() < 0.35
        compiled = rnd.random() < 0.5
        nn, sname, oname = f"V{rep}N", f"V{rep}S", f"V{rep}O"
        descs = gen_fields(rnd, nn)
        n = len(descs)
        k0, steps = gen_history(rnd, n)
        use_between = rnd.random() < 0.4
        pre = defs.PREAMBLE + f"struct {nn} {{ uint8 p; uint16 q; }};\n"
        first = struct_text(sname, descs[:k0])
        script = [f"from dissect.cstruct import cstruct; cs = cstruct(endian={endian!r})", f"cs.load({pre!r}, align={align})",
                  f"cs.load({first!r}, compiled={compiled}, align={align}); S = cs.{sname}"]
        cd0 = {"endian": endian, "align": align, "compiled": compiled, "history": script, "used_between_steps": use_between}
        try:
            cs = dc.cstruct(endian=endian)
            cs.load(pre, align=align)
            cs.load(first, compiled=compiled, align=align)
            S = getattr(cs, sname)
        except Exception as e:  # noqa: BLE001
            viol(f"definition rejected: {type(e).__name__}: {e}", cd0)
            continue
        present = list(range(k0))
        first_fault = None
        for kind in ("int", "bits", "enum", "char", "wchar", "intarr", "nested", "float"):
            if any(d["kind"] == kind for d in descs):
                res.feat("v4:fault:kind:" + kind)
        if any(d["name"] in ODD_NAMES for d in descs):
            res.feat("v4:fault:field-name-that-is-a-class-attribute")
        res.feat("v4:fault:" + ("aligned" if align else "packed"))
        res.feat("v4:fault:" + ("compiled" if compiled else "interpreted"))
        # states to look at: all behind the first fault (thorough); the end and one intermediate state (quick)
        idx_fault = next(i for i, s in enumerate(steps) if s["mode"] == "fault")
        look = set(range(idx_fault, len(steps)))
        if not thorough:
            look = {len(steps) - 1} | ({rnd.randrange(idx_fault, len(steps))} if rnd.random() < 0.5 else set())
        ok = True
        for no, step in enumerate(steps):
            script.extend(step_script(descs, step))
            cds = dict(cd0, history=list(script))
            try:
                exc = run_step(cs, S, descs, step, present)
            except Exception as e:  # noqa: BLE001
                viol(f"step {no} of the history ({step['mode']}, fields {[descs[i]['name'] for i in step['add']]}) raises {type(e).__name__}: {e}", cds)
                ok = False
                break
            if step["mode"] == "fault":
                res.feat("v4:fault:kind-of-fault:" + step["fault"])
                res.feat(f"v4:fault:fields-added-before-the-fault:{len(step['add'])}")
                if exc is None:
                    viol(f"the body of the update block was expected to raise ({step['fault']}) but did not", cds)
                    ok = False
                    break
                if first_fault is None:
                    first_fault = len(present)
            elif first_fault is not None:
                res.feat("v4:fault:later-step:" + step["mode"])
            if use_between and no < len(steps) - 1:
                # the intermediate class is used: nothing it caches may leak into the later class
                try:
                    x = S()
                    bool(x), x == S(), x.dumps()
                    try:
                        hash(x)
                    except TypeError:
                        pass
                    S(bytes(64))
                except Exception as e:  # noqa: BLE001
                    viol(f"using the class after step {no} raises {type(e).__name__}: {e}", cds)
            if no not in look or not present:
                continue
            now = [descs[i] for i in present]
            otext = struct_text(f"{oname}_{no}", now)
            cds["one_shot"] = otext
            try:
                cs.load(otext, compiled=compiled, align=align)
                O = getattr(cs, f"{oname}_{no}")
            except Exception as e:  # noqa: BLE001
                res.feat("v4:fault:one-shot-rejected:" + type(e).__name__)
                continue
            late = set(range(first_fault, len(present)))      # positions of the fields added behind the first fault
            res.feat("v4:fault:state-checked:" + ("end" if no == len(steps) - 1 else "intermediate"))
            check_state(res, viol, rnd, State(cs, S, O, now, nn), cds, (endian, align, compiled, tuple(script)), late, thorough)
