"""v9: the 'falsy members' family of C05 (section 8) and the machinery it shares with the 'array forms' family (v9_c05arr.py).

"Encoding is the exact inverse of decoding" is a statement about BYTES.  Several values of the scalar types are falsy in Python,
or compare equal to the value the library substitutes for a missing member, without having the same encoding: IEEE-754 negative
zero (-0.0 == 0.0, bool(-0.0) is False, but the sign bit is a data bit), an enum value 0 that has no named member, a null
pointer, the empty text of a null-terminated / zero-length / expression-sized array, an all-zero nested structure.  A scalar
that sits INSIDE another construct (a structure member, a bit-field, an array element, a member of a nested structure, an
element of an array of structures) goes through code that the stand-alone scalar never meets, so every trial of this family

  1. generates a structure of 1-5 member declarations (plus count members and bit-field runs) whose types walk over every scalar family - fixed-width integers, the 3/6/16-byte
     integers, the built-in synonyms (WORD, unsigned short, __int64 ...), float16 / float / double, char / wchar (all spellings),
     uleb128 / ileb128, enums and flags over 1..8-byte signed and unsigned bases (with and without a member named for 0),
     pointers (cs.pointer = uint16 / uint32 / uint64), runs of integer or enum bit-fields - alone and inside every array form
     (x[n] with n = 0..3, x[<expression over an earlier member or constants>], x[] null-terminated, x[EOF]), inside a nested
     structure and inside an array of nested structures; compiled or interpreted; aligned or packed; loaded with cs.load or
     cs.loadfile; under '<', '>', '!', in a quarter of the trials with the endianness switched after the definition was loaded;
  2. gives the members values that are mostly FALSY OR EQUAL TO THE DEFAULT: -0.0 (half of the float values), +0.0, the smallest
     subnormals, 0, b"\\x00", the NUL character, enum / flag value 0, the null pointer, empty arrays and texts, all-zero nested
     structures - mixed with infinities, NaNs, boundary and random values;
  3. encodes them with the reference encoder of this file (int.to_bytes, the IEEE bit pattern, UTF-16 by the book, textbook
     LEB128, bit-fields packed from the low end under '<' and from the high end under '>', members in declaration order, the C
     alignment rule) and checks on the real library
       decode  T(bytes / bytearray / memoryview), T(stream at an offset with bytes behind), T.reads, T.read(buffer or stream),
               cs.read(name, stream), a real file object: the member values - floats compared by BIT PATTERN, not by value - and
               the end position;
       encode  the parsed value put back (value.dumps(), bytes(value), T.dumps(value), value.write(stream), T.write(stream,
               value)) and the same value BUILT - T(name=value, ...), T(value, ...) positionally, T() followed by attribute
               assignments - give exactly the reference bytes.
     NaNs are compared by class only (the bytes written for a NaN member must decode to a NaN; known finding F76 is about the
     payload of signalling NaNs); everything else byte for byte.

Oracle: the property as stated - the reference encoding is the standard encoding of the values, decode is its inverse.  A call
that must succeed and raises is a violation.  Every trial is a list of recorded Python statements, so a violation carries a
self-contained script (`case.script`, sets `fails`) which props/c05.replay re-executes.

Correspondence: the same definition, bytes and values go to the Lean model (`read` / `write`), whose answer must equal what the
real library did (value, end position) and the reference bytes.

Domain notes (what is deliberately not generated, and why):
  * a null-terminated array never holds an element that compares equal to zero (it would be the terminator); for float elements
    that includes -0.0 - known finding F75 (the terminator test is `value == 0`, not a test of the bytes);
  * bit-fields only on uint8/16/32/64 storage units (or enums over them), one run per structure, before any variable-length
    member (known findings F23 / F53 and the bit-buffer properties C06 are about the rest);
  * x[EOF] members only in packed structures (aligned: known finding F30); nested structures only in packed definitions, aligned
    structures only read and written at stream position 0 (known finding F43: layout, not codecs);
  * flags only over unsigned bases (known finding F22);
  * the return value of write() is not judged (a structure's write() leaves padding out of the count: not a codec).
"""
from __future__ import annotations

from . import impl
from .common import A, sx
from .v4_c05 import Script
from .v5_c05 import units_of

ORDER = {"<": "little", ">": "big", "!": "big"}
SFMT = {"little": "<", "big": ">"}
FCH = {"float16": ("e", 2, 10), "float": ("f", 4, 23), "double": ("d", 8, 52)}   # packchar, size, mantissa bits
PTRS = {"uint16": 2, "uint32": 4, "uint64": 8}
ALIGN_OF_SIZE = {1: 1, 2: 2, 3: 4, 4: 4, 6: 8, 8: 8, 16: 16}
ENUMS = {   # name -> (kind, base, members)
    "E8": ("enum", "uint8", {"A8": 1, "B8": 2, "C8": 0x80}),                      # no member for 0
    "E16": ("enum", "uint16", {"Z16": 0, "A16": 1, "B16": 0x100, "C16": 0xFFFF}),
    "ES": ("enum", "int16", {"NS": -2, "ZS": 0, "PS": 3}),
    "E32": ("enum", "int32", {"A32": 1, "B32": 0x10000}),                         # no member for 0
    "E64": ("enum", "uint64", {"Z64": 0, "B64": 0x8000000000000000}),
    "F8": ("flag", "uint8", {"X8": 1, "Y8": 2, "W8": 0x80}),
    "F16": ("flag", "uint16", {"X16": 1, "Y16": 0x100}),
    "F32": ("flag", "uint32", {"X32": 1, "Y32": 0x100, "W32": 0x80000000}),
}
CONSTS = {"K0": 0, "K2": 2, "K3": 3}
PREAMBLE = "".join(f"#define {k} {v}\n" for k, v in CONSTS.items()) + \
    "".join(f"{kind} {n} : {base} {{ " + ", ".join(f"{m} = {v}" for m, v in mem.items()) + " };\n" for n, (kind, base, mem) in ENUMS.items())
CHAR_NAMES = ["char", "char", "CHAR", "unsigned char"]
WCHAR_NAMES = ["wchar", "wchar", "wchar_t", "WCHAR"]
BIT_BASES = ["uint8", "uint16", "uint32", "uint64", "E8", "E16", "F32"]
PTR_TARGETS = ["uint8", "void", "char", "uint32"]
COUNT_EXPRS = [   # (template over a count member c, n -> value of c or None)
    ("{c}", lambda n: n),
    ("{c} * K2", lambda n: n // 2 if n % 2 == 0 else None),
    ("{c} + 1", lambda n: n - 1 if n >= 1 else None),
    ("{c} - 1", lambda n: n + 1),
    ("K0 + {c}", lambda n: n),
    ("{c} & 7", lambda n: n if n < 8 else None),
    ("({c} + K2) - 2", lambda n: n),
]
CONST_EXPRS = [("K2", 2), ("K0", 0), ("K3 - K3", 0), ("K2 + 1", 3), ("K0 * 5", 0), ("K3 - K2", 1), ("K3 >> 1", 1)]

# what the recorded scripts need besides the library: floats by bit pattern, values in a plain comparable form (floats as the hex
# of their IEEE pattern, 'nan' for every NaN), bytes compared with NaN members by class only
FUNCS_SRC = '''import struct, os, tempfile
from enum import Enum as _Enum
def fp(ch, pattern):
    return struct.unpack(">" + ch, pattern.to_bytes(struct.calcsize(ch), "big"))[0]
def plain(v):
    if isinstance(v, _Enum): return int(v.value)
    if isinstance(v, float): return "nan" if v != v else struct.pack(">" + type(v).packchar, v).hex()
    if isinstance(v, int): return int(v)
    if isinstance(v, bytes): return bytes(v)
    if isinstance(v, str): return str(v)
    if isinstance(v, list): return [plain(x) for x in v]
    return {f._name: plain(getattr(v, f._name)) for f in type(v).__fields__}
def same(out, want, nans, fmt):
    if not isinstance(out, bytes) or len(out) != len(want): return False
    m = bytearray(out)
    for a, b, ch in nans:
        x = struct.unpack(fmt + ch, out[a:b])[0]
        if x == x: return False
        m[a:b] = want[a:b]
    return bytes(m) == want'''
HELPERS_SRC = "from dissect.cstruct import Field, compiler\nfrom dissect.cstruct.expression import Expression\n" + FUNCS_SRC
_ns: dict = {}
exec(compile(FUNCS_SRC, "<v9_c05 helpers>", "exec"), _ns)  # noqa: S102 - the text above
real_plain, same_bytes = _ns["plain"], _ns["same"]


def _c05():
    from .props import c05  # late: props/c05 imports this module

    return c05


def int_info(name):
    c05 = _c05()
    return c05.INTS[c05.EXPECT_ALIAS.get(name, name)]


# ------------------------------------------------------------------------------------------------ types and values
# type  := ("int", name) | ("flt", name) | ("char", spelling) | ("wchar", spelling) | ("leb", name) | ("enum", ename) | ("ptr", target)
#          | ("arr", type, len) | ("sub", fields, tname)
# len   := ("fixed", n) | ("expr", text, n) | ("null",) | ("eof",)
# field := {"name", "ty", "bits", "via" (a typedef name the member is declared through, or None)}
# value := int (int, leb, enum, ptr; flt: the IEEE bit pattern) | bytes (char, arrays of char) | str (wchar, arrays of wchar)
#          | [value] (other arrays) | {name: value} (sub)

def scalar_size(ty, ptr):
    k = ty[0]
    if k == "int":
        return int_info(ty[1])[0]
    if k == "flt":
        return FCH[ty[1]][1]
    if k == "enum":
        return int_info(ENUMS[ty[1]][1])[0]
    if k == "ptr":
        return PTRS[ptr]
    return {"char": 1, "wchar": 2, "leb": None}[k]


def alignment(ty, ptr):
    k = ty[0]
    if k == "arr":
        return alignment(ty[1], ptr)
    if k == "sub":
        return max(alignment(f["ty"], ptr) for f in ty[1])
    if k == "leb":
        return 1
    return ALIGN_OF_SIZE[scalar_size(ty, ptr)]


def is_dynamic(ty):
    k = ty[0]
    if k == "leb":
        return True
    if k == "arr":
        return ty[2][0] != "fixed" or is_dynamic(ty[1])
    if k == "sub":
        return any(is_dynamic(f["ty"]) for f in ty[1])
    return False


def has_eof(ty):
    k = ty[0]
    if k == "arr":
        return ty[2][0] == "eof" or has_eof(ty[1])
    if k == "sub":
        return any(has_eof(f["ty"]) for f in ty[1])
    return False


def is_nan(ty, p):
    return impl.flt_is_nan(p, FCH[ty[1]][1])


class Enc:
    """the reference encoder: the standard encodings, independent of the library"""

    def __init__(self, order, ptr):
        self.order, self.ptr = order, ptr
        self.out = bytearray()
        self.nans = []   # (start, end, packchar) of the float members whose value is a NaN

    def scalar(self, ty, v):
        k, o = ty[0], self.order
        if k == "int":
            size, signed = int_info(ty[1])
            self.out += v.to_bytes(size, o, signed=signed)
        elif k == "flt":
            ch, size, _ = FCH[ty[1]]
            if impl.flt_is_nan(v, size):
                self.nans.append((len(self.out), len(self.out) + size, ch))
            self.out += v.to_bytes(size, o)
        elif k == "char":
            self.out += v
        elif k == "wchar":
            self.out += b"".join(u.to_bytes(2, o) for u in units_of(v))
        elif k == "leb":
            self.out += _c05().leb_oracle_encode(v, ty[1] == "ileb128")
        elif k == "enum":
            size, signed = int_info(ENUMS[ty[1]][1])
            self.out += v.to_bytes(size, o, signed=signed)
        elif k == "ptr":
            self.out += v.to_bytes(PTRS[self.ptr], o)
        else:
            raise ValueError(k)

    def put(self, ty, v):
        k = ty[0]
        if k == "arr":
            et = ty[1]
            if et[0] in ("char", "wchar"):
                self.scalar(et, v)
            else:
                for x in v:
                    self.put(et, x)
            if ty[2][0] == "null":
                self.out += b"\x00" * (scalar_size(et, self.ptr) or 1)
        elif k == "sub":
            self.struct(ty[1], v, False)
        else:
            self.scalar(ty, v)

    def struct(self, fields, vals, align, ranges=None):
        """members in declaration order, each at a multiple of its alignment when `align` (aligned structures start at 0)"""
        start = len(self.out)
        if align and start:
            raise ValueError("aligned structures are only encoded at offset 0")

        def pad(a):
            if align:
                self.out += b"\x00" * (-len(self.out) % a)

        i = 0
        while i < len(fields):
            f = fields[i]
            if f["bits"]:
                base = f["ty"][1] if f["ty"][0] == "int" else ENUMS[f["ty"][1]][1]
                size = int_info(base)[0]
                unit, used = 0, 0
                while i < len(fields) and fields[i]["bits"] and fields[i]["ty"] == f["ty"] and used + fields[i]["bits"] <= 8 * size:
                    b, v = fields[i]["bits"], vals[fields[i]["name"]]
                    unit |= v << (used if self.order == "little" else 8 * size - used - b)
                    used += b
                    i += 1
                pad(ALIGN_OF_SIZE[size])
                st = len(self.out)
                self.out += unit.to_bytes(size, self.order)
                if ranges is not None:
                    ranges.append((f["name"], st, len(self.out)))
                continue
            pad(alignment(f["ty"], self.ptr))
            st = len(self.out)
            self.put(f["ty"], vals[f["name"]])
            if ranges is not None:
                ranges.append((f["name"], st, len(self.out)))
            i += 1
        body = len(self.out)
        pad(max(alignment(f["ty"], self.ptr) for f in fields))
        return body - start   # the length without the tail padding


def encode(ty, val, order, ptr, align=False):
    """-> (body, tail padding, nan ranges)"""
    e = Enc(order, ptr)
    if ty[0] == "sub":
        n = e.struct(ty[1], val, align)
        return bytes(e.out[:n]), bytes(e.out[n:]), e.nans
    e.put(ty, val)
    return bytes(e.out), b"", e.nans


def want_plain(ty, v):
    """the value in the form `plain` of the scripts gives for what the library hands out"""
    k = ty[0]
    if k == "flt":
        return "nan" if is_nan(ty, v) else v.to_bytes(FCH[ty[1]][1], "big").hex()
    if k == "arr":
        return v if ty[1][0] in ("char", "wchar") else [want_plain(ty[1], x) for x in v]
    if k == "sub":
        return {f["name"]: want_plain(f["ty"], v[f["name"]]) for f in ty[1]}
    return v


def cname(ty):
    return ty[2] if ty[0] == "sub" else ty[1]


def len_text(ln):
    return {"fixed": lambda: str(ln[1]), "expr": lambda: ln[1], "null": lambda: "", "eof": lambda: "EOF"}[ln[0]]()


def render(fields, name, done=None):
    """the C text of a structure (nested structures first, each once)"""
    done = done if done is not None else set()
    pre, lines = [], []
    for f in fields:
        ty, dims = f["ty"], ""
        if f.get("via"):
            lines.append(f"{f['via']} {f['name']};")
            continue
        while ty[0] == "arr":
            dims += f"[{len_text(ty[2])}]"
            ty = ty[1]
        if ty[0] == "sub" and ty[2] not in done:
            done.add(ty[2])
            pre.append(render(ty[1], ty[2], done))
        if ty[0] == "ptr":
            lines.append(f"{ty[1]} *{f['name']}{dims};")
        else:
            lines.append(f"{cname(ty)} {f['name']}{dims}{' : %d' % f['bits'] if f['bits'] else ''};")
    return "".join(pre) + f"struct {name} {{ " + " ".join(lines) + " };\n"


def tyexpr(ty, cs="cs"):
    """Python expression of the library's type object, made through the API"""
    k = ty[0]
    if k == "arr":
        ln = ty[2]
        idx = {"fixed": lambda: str(ln[1]), "null": lambda: "None", "eof": lambda: f"Expression({cs}, 'EOF')",
               "expr": lambda: f"Expression({cs}, {ln[1]!r})"}[ln[0]]()
        return f"{tyexpr(ty[1], cs)}[{idx}]"
    n = cname(ty)
    return f"{cs}.{n}" if n.isidentifier() else f"{cs}.resolve({n!r})"


def pyexpr(ty, v, cs="cs"):
    """Python expression of a value that can be handed to the library"""
    k = ty[0]
    if k == "flt":
        ch = FCH[ty[1]][0]
        return f"fp({ch!r}, {v:#x})" if is_nan(ty, v) else repr(_ns["fp"](ch, v))
    if k == "enum":
        return f"{cs}.{ty[1]}({v})"
    if k == "wchar":
        return ascii(v)
    if k == "arr":
        if ty[1][0] == "char":
            return repr(v)
        if ty[1][0] == "wchar":
            return ascii(v)
        return "[" + ", ".join(pyexpr(ty[1], x, cs) for x in v) + "]"
    if k == "sub":
        return f"{cs}.{ty[2]}(" + ", ".join(f"{f['name']}={pyexpr(f['ty'], v[f['name']], cs)}" for f in ty[1]) + ")"
    return repr(v)


def ty_sexp(ty, align=False):
    k = ty[0]
    if k in ("int", "flt", "leb", "char", "wchar"):
        return [A("sc"), ty[1]]
    if k == "enum":
        return [A(ENUMS[ty[1]][0]), ENUMS[ty[1]][1]]
    if k == "ptr":
        return [A("ptr"), [A("sc"), ty[1]]]
    if k == "arr":
        ln = ty[2]
        ls = {"fixed": lambda: [A("fixed"), ln[1]], "expr": lambda: [A("expr"), ln[1]], "null": lambda: A("null"), "eof": lambda: A("eof")}[ln[0]]()
        return [A("arr"), ty_sexp(ty[1]), ls]
    return [A("struct"), 1 if align else 0, [[A("f"), f["name"], 0, ty_sexp(f["ty"]), f["bits"] or 0] for f in ty[1]]]


def val_sexp(ty, v):
    k = ty[0]
    if k in ("int", "leb"):
        return [A("int"), v]
    if k == "flt":
        return [A("flt"), v]
    if k == "char":
        return [A("bytes"), v]
    if k == "wchar":
        return [A("wstr"), *units_of(v)]
    if k == "enum":
        return [A("enum"), v]
    if k == "ptr":
        return [A("ptr"), v]
    if k == "arr":
        if ty[1][0] in ("char", "wchar"):
            return val_sexp(ty[1], v)
        return [A("list"), *[val_sexp(ty[1], x) for x in v]]
    return [A("rec"), *[val_sexp(f["ty"], v[f["name"]]) for f in ty[1]]]


def cfg_sexp(e, ptr):
    return [A("cfg"), A("le" if e == "<" else "be"), ptr, [[A(k), v] for k, v in CONSTS.items()]]


# ------------------------------------------------------------------------------------------------ values

def swap_pattern(p, size):
    return int.from_bytes(p.to_bytes(size, "little"), "big")


class Values:
    """seeded values of the scalar types.  mode: 'falsy' (mostly falsy / equal to the default), 'any', 'nonzero' (an element of
    a null-terminated array: not the terminator in either byte order; for floats: no zero of either sign in either order)"""

    def __init__(self, rnd):
        self.rnd = rnd
        c05 = _c05()
        self.fixed = [n for n, (s, _) in c05.INTS.items() if s in (1, 2, 4, 8)]
        self.arb = [n for n, (s, _) in c05.INTS.items() if s not in (1, 2, 4, 8)]
        self.alias = list(c05.EXPECT_ALIAS)

    def int_name(self, identifiers_only=False):
        rnd = self.rnd
        while True:
            r = rnd.random()
            n = rnd.choice(self.fixed if r < 0.45 else self.arb if r < 0.7 else self.alias)
            if not identifiers_only or n.isidentifier():
                return n

    def scalar_ty(self, identifiers_only=False, weights=None):
        rnd = self.rnd
        k = rnd.choices(["int", "flt", "char", "wchar", "leb", "enum"], weights or [30, 30, 8, 8, 8, 16])[0]
        if k == "int":
            return ("int", self.int_name(identifiers_only))
        if k == "flt":
            return ("flt", rnd.choice(list(FCH)))
        if k == "char":
            return ("char", rnd.choice([n for n in CHAR_NAMES if not identifiers_only or n.isidentifier()]))
        if k == "wchar":
            return ("wchar", rnd.choice(WCHAR_NAMES))
        if k == "leb":
            return ("leb", rnd.choice(["uleb128", "ileb128"]))
        return ("enum", rnd.choice(list(ENUMS)))

    def int_val(self, size, signed, mode):
        rnd = self.rnd
        vals, lo, hi = _c05().boundary(size, signed)
        if mode == "falsy" and rnd.random() < 0.7:
            return 0
        while True:
            v = rnd.choice(vals) if rnd.random() < 0.5 else rnd.randint(lo, hi)
            if mode != "nonzero" or v != 0:
                return v

    def flt_val(self, name, mode):
        rnd = self.rnd
        _, size, mant = FCH[name]
        bits = 8 * size
        sign = 1 << (bits - 1)
        expmask = ((1 << (bits - 1 - mant)) - 1) << mant
        cuts = {"falsy": (0.50, 0.62, 0.72, 0.80, 0.90), "any": (0.15, 0.22, 0.32, 0.38, 0.46), "nonzero": (0, 0, 0.12, 0.18, 0.26)}[mode]
        while True:
            r = rnd.random()
            if r < cuts[0]:
                p = sign                                                      # -0.0
            elif r < cuts[1]:
                p = 0                                                         # +0.0
            elif r < cuts[2]:
                p = rnd.choice([1, sign | 1, 1 << (mant - 1), sign | (1 << (mant - 1)), (1 << mant) - 1])   # subnormals
            elif r < cuts[3]:
                p = rnd.choice([expmask, sign | expmask])                     # infinities
            elif r < cuts[4]:
                p = expmask | rnd.randrange(1, 1 << mant) | (sign if rnd.random() < 0.5 else 0)   # NaNs, quiet and signalling
            else:
                p = rnd.getrandbits(bits)
            if mode != "nonzero" or (p & ~sign and swap_pattern(p, size) & ~sign):
                return p

    def wunit(self, mode):
        """a BMP character whose unit is a character in both byte orders (and, 'nonzero', not NUL)"""
        rnd = self.rnd
        if mode == "falsy" and rnd.random() < 0.7:
            return "\x00"
        while True:
            u = rnd.choice([0, 1, 0x41, 0xFF, 0x100, 0x20AC, 0x4100, 0xFFFF, 0xFEFF, 0xFFFE]) if rnd.random() < 0.5 else rnd.randrange(0x10000)
            s = ((u & 0xFF) << 8) | (u >> 8)
            if not 0xD800 <= u <= 0xDFFF and not 0xD800 <= s <= 0xDFFF and (mode != "nonzero" or u):
                return chr(u)

    def scalar(self, ty, mode, ptr="uint64"):
        rnd = self.rnd
        k = ty[0]
        if k == "int":
            return self.int_val(*int_info(ty[1]), mode)
        if k == "flt":
            return self.flt_val(ty[1], mode)
        if k == "char":
            if mode == "falsy" and rnd.random() < 0.7:
                return b"\x00"
            return bytes([rnd.choice([1, 0x41, 0x7F, 0x80, 0xFF, rnd.randrange(1, 256)] + ([0] if mode != "nonzero" else []))])
        if k == "wchar":
            return self.wunit(mode)
        if k == "leb":
            if mode == "falsy" and rnd.random() < 0.7:
                return 0
            while True:
                m = rnd.getrandbits(rnd.choice([1, 6, 7, 8, 13, 14, 15, 31, 64, rnd.randint(1, 100)]))
                if ty[1] == "ileb128":
                    m = rnd.choice([m, -m, -m - 1])
                if mode != "nonzero" or m:
                    return m
        if k == "enum":
            kind, base, mem = ENUMS[ty[1]]
            size, signed = int_info(base)
            if mode == "falsy" and rnd.random() < 0.7:
                return 0
            while True:
                v = rnd.choice(list(mem.values())) if rnd.random() < 0.5 else self.int_val(size, signed, mode)
                if mode != "nonzero" or v:
                    return v
        if k == "ptr":
            if mode == "falsy" and rnd.random() < 0.8:
                return 0
            return self.int_val(PTRS[ptr], False, mode)
        raise ValueError(k)

    def array(self, ty, mode, ptr="uint64", n=None):
        """the value of an array type whose length is known (fixed / expr: ln[1] resp. ln[2]) or free (null / eof: n)"""
        et, ln = ty[1], ty[2]
        if n is None:
            n = ln[1] if ln[0] == "fixed" else ln[2]
        emode = "nonzero" if ln[0] == "null" else mode
        if et[0] == "arr":
            vs = [self.array(et, mode, ptr) for _ in range(n)]
        elif et[0] == "sub":
            raise ValueError("arrays of structures are valued by their generator")
        else:
            vs = [self.scalar(et, emode, ptr) for _ in range(n)]
        if et[0] == "char":
            return b"".join(vs)
        if et[0] == "wchar":
            return "".join(vs)
        return vs


# ------------------------------------------------------------------------------------------------ the checks of one trial

READS = ["bytes", "bytearray", "memoryview", "reads", "reads-memoryview", "read-bytes", "read-bytearray", "read-stream", "stream", "cs.read", "file"]
BUFFER_CALLS = {"bytes": "T(data)", "bytearray": "T(bytearray(data))", "memoryview": "T(memoryview(data))", "reads": "T.reads(data)",
                "reads-memoryview": "T.reads(memoryview(data))", "read-bytes": "T.read(data)", "read-bytearray": "T.read(bytearray(data))"}


class Probe:
    """reporting and the decode / encode checks shared by the trials of a family"""

    def __init__(self, R, fam, limit=12):
        self.R, self.res, self.fam, self.limit, self.n = R, R.res, fam, limit, 0

    def viol(self, what, sc, tail, **data):
        self.n += 1
        if self.n > self.limit:   # the first ones say it all; the count goes on
            self.res.feat(f"{self.fam}:violations-not-listed")
            return
        self.R.violation(what, {**data, "script": sc.text(tail)})

    def setup(self, sc, stmts, ctx):
        for s in stmts:
            ex = sc.do(s)
            if ex is not None:
                self.viol(f"{s.strip().splitlines()[-1][:300]} raised {type(ex).__name__}: {ex}", sc, ["fails = False  # reached only when the statement no longer raises"], **ctx)
                return False
        return True

    def read(self, sc, rnd, kind, T, tname, ty, val, e, ptr, align, ctx, note=""):
        """decode the reference encoding of `val` through one entry point; -> (ok, got)"""
        order = ORDER[e]
        body, tailpad, _ = encode(ty, val, order, ptr, align)
        eof = has_eof(ty)
        want = want_plain(ty, val)
        tailg = b"" if eof else bytes(rnd.randrange(256) for _ in range(rnd.choice([0, 0, 1, 2, 5])))
        inp = body + tailpad + tailg
        end = len(body) + len(tailpad)
        pre = b""
        if kind == "cs.read" and tname is None:
            kind = "stream"
        if kind in BUFFER_CALLS:
            stm = [f"data = bytes.fromhex({inp.hex()!r})", f"got = {BUFFER_CALLS[kind]}"]
            check, pos_checked = "fails = plain(got) != want", False
        else:
            if not align:
                pre = bytes(rnd.randrange(256) for _ in range(rnd.choice([0, 0, 1, 2, 3, 5, 8])))
            call = {"stream": "T(s)", "read-stream": "T.read(s)", "cs.read": f"cs.read({tname!r}, s)", "file": "T(s)"}[kind]
            opener = "s = tempfile.TemporaryFile(); n = s.write(data)" if kind == "file" else "s = BytesIO(data)"
            stm = [f"data = bytes.fromhex({(pre + inp).hex()!r}); {opener}; p = s.seek({len(pre)})", f"got = {call}; pos = s.tell()"]
            check, pos_checked = f"fails = plain(got) != want or pos != {len(pre) + end}", True
        self.res.count((self.fam, "read", kind, ctx.get("type"), ctx.get("definition"), e, inp, len(pre)))
        self.res.feat(f"{self.fam}:read={kind}")
        exc = None
        for s in stm:
            exc = sc.do(s)
            if exc is not None:
                break
        if kind == "file":
            sc.do("s.close()")
        tail = [f"want = {ascii(want)}", "print(ascii(plain(got)))", check]
        shown = f"endian {e!r}{note}: {ctx.get('type')} [{(ctx.get('definition') or '').strip()}] read ({kind}) from {inp.hex() or '-'}"
        if exc is not None:
            self.viol(f"{shown} raised {type(exc).__name__}: {exc}; the bytes are the standard ({order}) encoding of {ascii(want)}", sc, tail,
                      **ctx, data=inp.hex(), expected=ascii(want))
            return False, None
        got = sc.ns.get("got")
        try:
            gp = real_plain(got)
        except Exception as ex:  # noqa: BLE001 - a value of another shape
            gp = ("unreadable", f"{type(ex).__name__}: {ex}", repr(got)[:200])
        pos = sc.ns.get("pos") if pos_checked else None
        if gp != want or (pos_checked and pos != len(pre) + end):
            self.viol(f"{shown} gives {ascii(gp)}{' ending at %r' % pos if pos_checked else ''}; the standard ({order}) decoding (floats as IEEE bit patterns) is "
                      f"{ascii(want)}{' ending at %d' % (len(pre) + end) if pos_checked else ''}", sc, tail, **ctx, data=inp.hex(), expected=ascii(want))
            return False, None
        self.R.ask(sx([A("read"), cfg_sexp(e, ptr), ty_sexp(ty, align), inp, 0]),
                   ("read", (self.fam, ctx.get("type"), ctx.get("definition"), e, inp.hex()), ("ok", impl.canon(got), end)))
        return True, got

    def write(self, sc, rnd, kind, T, ty, val, V, e, ptr, align, ctx, note="", before=(), vdesc=None):
        """encode `val` (the expression V - described as `vdesc` when it is a variable of the script; `kind` says through which
        entry point) and compare with the reference bytes"""
        D = vdesc or V
        order = ORDER[e]
        body, tailpad, nans = encode(ty, val, order, ptr, align)
        full = body + tailpad
        is_sub = ty[0] == "sub"
        pre = b""
        if kind in ("inst", "bytes", "inst-write") and not is_sub:
            inst_ok = ty[0] in ("int", "flt", "leb") or (ty[0] == "arr" and ty[1][0] in ("int", "flt", "leb", "enum", "arr"))
            kind = "inst" if (inst_ok and kind == "inst") else "dumps"
        if kind == "dumps":
            stm, shown = [f"out = T.dumps({V})"], f"{T}.dumps({D})"
        elif kind == "inst":
            stm = [f"out = {V}.dumps()"] if is_sub else [f"out = T({V}).dumps()"]
            shown = f"{D}.dumps()" if is_sub else f"{T}({D}).dumps()"
        elif kind == "bytes":
            stm, shown = [f"out = bytes({V})"], f"bytes({D})"
        else:
            if not align:
                pre = bytes(rnd.randrange(256) for _ in range(rnd.choice([0, 1, 3, 4])))
            call = f"{V}.write(s)" if kind == "inst-write" else f"T.write(s, {V})"
            stm = [f"s = BytesIO(); p = s.write({pre!r})", f"n = {call}", "out = s.getvalue()[p:]; head = s.getvalue()[:p]"]
            shown = f"{D}.write(stream at {len(pre)})" if kind == "inst-write" else f"{T}.write(stream at {len(pre)}, {D})"
        self.res.count((self.fam, "write", kind, ctx.get("type"), ctx.get("definition"), e, V, full))
        self.res.feat(f"{self.fam}:write={kind}")
        exc = None
        for s in [*before, *stm]:
            exc = sc.do(s)
            if exc is not None:
                break
        fmt = SFMT[order]
        tail = [f"want = bytes.fromhex({full.hex()!r})", "print(out.hex(), want.hex())", f"fails = not same(out, want, {nans!r}, {fmt!r})"]
        what0 = f"endian {e!r}{note}: {shown} [{(ctx.get('definition') or '').strip()}]"
        cmp_note = " (NaN members compared by class)" if nans else ""
        if exc is not None:
            self.viol(f"{what0} raised {type(exc).__name__}: {exc}; the standard ({order}) encoding is {full.hex() or '-'}", sc, tail, **ctx, expected=full.hex())
            return False
        out = sc.ns.get("out")
        if not same_bytes(out, full, nans, fmt):
            self.viol(f"{what0} gives {out.hex() if isinstance(out, bytes) else repr(out)}; the standard ({order}) encoding is {full.hex() or '-'}{cmp_note}",
                      sc, tail, **ctx, expected=full.hex())
            return False
        if nans and out != full and any(f.get("id") == "F76" for f in (self.R.findings or [])):
            # a NaN went out with another payload (same class): known finding F76 (signalling NaNs are quieted by struct / the FPU)
            self.res.known_seen["F76"] = self.res.known_seen.get("F76", 0) + 1
        if kind in ("write", "inst-write") and sc.ns.get("head") != pre:
            self.viol(f"{what0} changed the bytes in front of the stream position", sc, [f"fails = head != {pre!r}"], **ctx, expected=full.hex())
            return False
        return True

    def ask_write(self, ty, val, e, ptr, align, ctx, V):
        body, tailpad, nans = encode(ty, val, ORDER[e], ptr, align)
        self.R.ask(sx([A("write"), cfg_sexp(e, ptr), ty_sexp(ty, align), val_sexp(ty, val)]),
                   ("write", (self.fam, ctx.get("type"), ctx.get("definition"), e, V), ("ok", body + tailpad)))


def load_stmt(defn, how, compiled, align):
    """the statement that brings a definition text into `cs`: the token parser, a file, the legacy parser"""
    if how == "loadfile":
        return (f"fd, path = tempfile.mkstemp(suffix='.h'); os.write(fd, {defn!r}.encode()); os.close(fd)\n"
                f"try:\n    cs.loadfile(path, compiled={compiled}, align={align})\nfinally:\n    os.unlink(path)")
    if how == "legacy":   # (the legacy parser has no align option)
        return f"cs.load({defn!r}, deftype=cstruct.DEF_LEGACY, compiled={compiled})"
    return f"cs.load({defn!r}, compiled={compiled}, align={align})"


# ------------------------------------------------------------------------------------------------ the 'falsy members' family

class StructGen:
    def __init__(self, rnd, vg, ptr):
        self.rnd, self.vg, self.ptr = rnd, vg, ptr
        self.nsub = 0

    def fields(self, align, sub=False):
        """-> (fields, values)"""
        rnd, vg = self.rnd, self.vg
        pre = f"g{self.nsub}_" if sub else "f"
        fields, vals = [], {}
        dyn, bits_done = False, False

        def add(ty, v, bits=None, count=False):
            name = f"{pre}{len(fields)}"
            fields.append({"name": name, "ty": ty, "bits": bits, "via": None, "count": count})
            vals[name] = v
            return name

        n = rnd.randint(1, 3 if sub else 5)
        for i in range(n):
            last = i == n - 1
            r = rnd.random()
            if not dyn and not bits_done and r < 0.14:
                # one run of bit-fields on one storage unit
                bits_done = True
                base = rnd.choice(BIT_BASES)
                ty = ("enum", base) if base in ENUMS else ("int", base)
                left = 8 * scalar_size(ty, self.ptr)
                for _ in range(rnd.randint(1, 3)):
                    if left == 0:
                        break
                    b = rnd.randint(1, min(left, rnd.choice([3, 7, 13, 33])))
                    add(ty, rnd.choice([0, 0, 0, 1, (1 << b) - 1, rnd.getrandbits(b)]), b)
                    left -= b
                continue
            k = rnd.choices(["flt", "int", "enum", "ptr", "char", "wchar", "leb", "arr", "sub"], [28, 10, 10, 7, 4, 4, 6, 24, 7])[0]
            if k == "sub" and (sub or align):
                k = "flt"
            if k == "sub":
                st, sv = self.substruct()
                if rnd.random() < 0.5:
                    add(st, sv)
                else:
                    cnt = rnd.randint(1, 3)
                    add(("arr", st, ("fixed", cnt)), [sv] + [self.revalue(st, sv) for _ in range(cnt - 1)])
                dyn = dyn or is_dynamic(st)
                continue
            if k == "arr":
                ety = vg.scalar_ty(weights=[20, 34, 12, 12, 8, 14])
                form = rnd.choices(["fixed", "expr", "null", "eof"], [40, 20, 25, 15])[0]
                if form == "eof" and (not last or sub or align):
                    form = "fixed"
                if form == "fixed":
                    ty = ("arr", ety, ("fixed", rnd.choice([0, 1, 1, 2, 3])))
                elif form == "expr":
                    cnt = rnd.choice([0, 0, 0, 1, 2, 3])
                    if rnd.random() < 0.3:
                        text, cnt = rnd.choice(CONST_EXPRS)
                    else:
                        while True:
                            tmpl, solve = rnd.choice(COUNT_EXPRS)
                            c = solve(cnt)
                            if c is not None:
                                break
                        cname_ = add(("int", rnd.choice(["uint8", "uint8", "uint16", "uint32"])), c, count=True)
                        text = tmpl.format(c=cname_)
                    ty = ("arr", ety, ("expr", text, cnt))
                else:
                    ty = ("arr", ety, (form,))
                free = None if form in ("fixed", "expr") else rnd.choice([0, 0, 0, 1, 2, 3])
                add(ty, vg.array(ty, "falsy", self.ptr, free))
                dyn = dyn or is_dynamic(ty)
                continue
            if k == "ptr":
                ty = ("ptr", rnd.choice(PTR_TARGETS))
            elif k in ("flt", "int", "enum", "char", "wchar", "leb"):
                w = {"flt": [0, 1, 0, 0, 0, 0], "int": [1, 0, 0, 0, 0, 0], "enum": [0, 0, 0, 0, 0, 1], "char": [0, 0, 1, 0, 0, 0],
                     "wchar": [0, 0, 0, 1, 0, 0], "leb": [0, 0, 0, 0, 1, 0]}[k]
                ty = vg.scalar_ty(weights=w)
            add(ty, vg.scalar(ty, "falsy", self.ptr))
            dyn = dyn or is_dynamic(ty)
        return fields, vals

    def substruct(self):
        self.nsub += 1
        sf, sv = self.fields(False, sub=True)
        return ("sub", sf, f"N{self.nsub}"), sv

    def revalue(self, st, first):
        """other values for the members of a nested structure (the further elements of an array of structures); the members
        that array lengths are computed from keep their values, so every element has the lengths the type prescribes"""
        vals, vg = {}, self.vg
        for f in st[1]:
            ty = f["ty"]
            if f.get("count"):
                vals[f["name"]] = first[f["name"]]
            elif f["bits"]:
                vals[f["name"]] = self.rnd.choice([0, 0, self.rnd.getrandbits(f["bits"])])
            elif ty[0] == "arr":
                vals[f["name"]] = vg.array(ty, "falsy", self.ptr, None if ty[2][0] in ("fixed", "expr") else self.rnd.choice([0, 0, 1, 2]))
            else:
                vals[f["name"]] = vg.scalar(ty, "falsy", self.ptr)
        return vals


def kinds_of(ty, out=None):
    out = out if out is not None else set()
    k = ty[0]
    if k == "arr":
        out.add(f"arr-{ty[2][0]}")
        kinds_of(ty[1], out)
    elif k == "sub":
        out.add("nested")
        for f in ty[1]:
            if f["bits"]:
                out.add("bits")
            kinds_of(f["ty"], out)
    else:
        out.add(k)
    return out


def has_negzero(ty, v):
    k = ty[0]
    if k == "flt":
        return v == 1 << (8 * FCH[ty[1]][1] - 1)
    if k == "arr" and ty[1][0] not in ("char", "wchar"):
        return any(has_negzero(ty[1], x) for x in v)
    if k == "sub":
        return any(has_negzero(f["ty"], v[f["name"]]) for f in ty[1])
    return False


def run(R, rnd, tier):
    """R: the Runner of props/c05 (res, violation, ask, dc)"""
    res, dc = R.res, R.dc
    P = Probe(R, "falsy")
    vg = Values(rnd)
    trials = 240 if tier == "quick" else 4000
    for t in range(trials):
        e0 = rnd.choice("<>!")
        switch = rnd.random() < 0.25
        e = rnd.choice("<>!") if switch else e0
        ptr = rnd.choice(list(PTRS))
        compiled, align = rnd.random() < 0.5, rnd.random() < 0.35
        how = rnd.choice(["load", "load", "load", "loadfile"])
        g = StructGen(rnd, vg, ptr)
        fields, val = g.fields(align)
        ty = ("sub", fields, "S")
        defn = render(fields, "S")
        sc = Script(dc)
        ctx = dict(endian=e, type="cs.S", definition=defn, compiled=compiled, align=align, pointer=ptr, loaded_by=how,
                   switched_from=e0 if switch else None)
        if not P.setup(sc, [HELPERS_SRC, f"cs = cstruct(endian={e0!r}, pointer={ptr!r}); cs.load({PREAMBLE!r})",
                            load_stmt(defn, how, compiled, align), "T = cs.S"], ctx):
            continue
        note = ""
        if switch:
            # the definition was loaded (and used once) under e0; from here on everything follows e
            b0 = encode(ty, val, ORDER[e0], ptr, align)
            sc.do(f"try:\n    T(bytes.fromhex({(b0[0] + b0[1]).hex()!r}))\nexcept Exception:\n    pass")
            if not P.setup(sc, [f"cs.endian = {e!r}"], ctx):
                continue
            note = f" (switched from {e0!r} after loading)" if e != e0 else f" ({e!r} assigned again after loading)"
        for k in (*sorted(kinds_of(ty) - {"nested"} | ({"nested"} if g.nsub else set())), f"endian={e}", f"compiled={compiled}:align={align}",
                  f"switched={switch}", f"loaded-by={how}", f"negative-zero={has_negzero(ty, val)}"):
            res.feat("falsy:" + k)

        # ---- decode: the member values by bit pattern, the end position
        ok, got = True, None
        for kind in ["stream" if rnd.random() < 0.5 else "read-stream"] + rnd.sample([k for k in READS if k not in ("stream", "read-stream")], 1 if tier == "quick" else 3):
            ok, g1 = P.read(sc, rnd, kind, "cs.S", "S", ty, val, e, ptr, align, ctx, note)
            if not ok:
                break
            got = g1
            if kind in ("stream", "read-stream"):
                sc.do("parsed = got")
        if not ok:
            continue

        # ---- encode: the parsed value put back ...
        V = pyexpr(ty, val)
        b1 = encode(ty, val, ORDER[e], ptr, align)
        pdesc = f"<the value parsed from {(b1[0] + b1[1]).hex() or '-'}>"
        for kind in rnd.sample(["inst", "bytes", "dumps", "write", "inst-write"], 2 if tier == "quick" else 4):
            ok = P.write(sc, rnd, kind, "cs.S", ty, val, "parsed", e, ptr, align, {**ctx, "value": "parsed from the reference bytes"}, note, vdesc=pdesc)
            if not ok:
                break
        if not ok:
            continue
        # ---- ... and the same value built from its member values
        build = rnd.choice(["kwargs", "kwargs", "positional", "attributes"])
        if build == "positional" and len(fields) < 2:
            build = "kwargs"   # (T(x) with one positional argument PARSES x when it is bytes-like or readable: the documented call convention)
        before, bdesc = [], None
        if build == "kwargs":
            B = V
        elif build == "positional":
            B = "cs.S(" + ", ".join(pyexpr(f["ty"], val[f["name"]]) for f in fields) + ")"
        else:
            B = "built"
            before = ["built = cs.S()"] + [f"built.{f['name']} = {pyexpr(f['ty'], val[f['name']])}" for f in fields]
            bdesc = "<cs.S() with " + ", ".join(s_.split("built.", 1)[1] for s_ in before[1:]) + " assigned>"
        res.feat(f"falsy:built={build}")
        for j, kind in enumerate(rnd.sample(["inst", "bytes", "dumps", "write", "inst-write"], 2 if tier == "quick" else 4)):
            ok = P.write(sc, rnd, kind, "cs.S", ty, val, B, e, ptr, align, {**ctx, "value": V}, note, before=before if j == 0 else (), vdesc=bdesc)
            if not ok:
                break
        if not ok:
            continue
        P.ask_write(ty, val, e, ptr, align, ctx, V)
    res.sample({"falsy": "struct S { uint8 f0; float f1; double f2[1]; }", "endian": ">", "value": "cs.S(f0=0, f1=-0.0, f2=[-0.0])",
                "bytes": "00800000008000000000000000", "note": "dumps(parse(bytes)) == bytes: the sign bit of a zero is data"})
