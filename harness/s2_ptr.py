"""Pointer helpers shared by C03 and C16 (agent s2): where the pointers of a loaded structure class live, planting
addresses into a buffer, observing what every pointer of a parsed value dereferences to, and which structure classes
the source generator cannot handle because of the configured pointer type.

Everything is derived from the real classes (`T.__fields__`, `cs.pointer`), not from the generator tree, so the helpers
work for any definition the harness loads.
"""
from __future__ import annotations

import sys

from . import impl
from .common import A, sx

PACKED_PTRS = ["uint8", "uint16", "uint32", "uint64"]
UNPACKED_PTRS = ["uint24", "uint48", "uint128"]          # served by the arbitrary-width Int type: not struct-packable
ALL_PTRS = {"uint8": 1, "uint16": 2, "uint24": 3, "uint32": 4, "uint48": 6, "uint64": 8, "uint128": 16}


def _base_array():
    impl.dc()
    return sys.modules["dissect.cstruct.types.base"].BaseArray


def static_size(T):
    try:
        return len(T)
    except TypeError:
        return None


def pointer_slots(T, base=0, out=None):
    """offsets of every pointer stored at a statically known offset below class T (through fixed arrays, nested
    structures and unions); all slots have the width of T.cs.pointer"""
    m = impl.dc()
    out = [] if out is None else out
    if isinstance(T, type) and issubclass(T, m.Pointer):
        out.append(base)
    elif isinstance(T, type) and issubclass(T, _base_array()):
        n, esz = T.num_entries, static_size(T.type)
        if isinstance(n, int) and not T.null_terminated and esz is not None:
            for i in range(max(0, n)):
                pointer_slots(T.type, base + i * esz, out)
    elif isinstance(T, type) and issubclass(T, m.Structure):
        for f in T.__fields__:
            if f.offset is not None and not f.bits:
                pointer_slots(f.type, base + f.offset, out)
    return out


def boundary_addresses(psz: int) -> list[int]:
    """the addresses at the edges of an n-bit address space"""
    n = 8 * psz
    top = (1 << n) - 1
    xs = [0, 1, 2, top, top - 1, 1 << (n - 1), (1 << (n - 1)) - 1, (1 << (n - 1)) + 1, 0xFF, top >> 8, top & ~0xFF, int("55" * psz, 16), int("AA" * psz, 16)]
    if n > 8:
        xs += [0x100, 1 << (n - 8), (1 << (n - 8)) - 1]
    return sorted({x for x in xs if 0 <= x <= top})


def plant(rnd, data: bytes, slots, psz: int, endian: str):
    """overwrite every pointer slot that lies inside `data` with an address: null, inside the buffer, its last byte,
    one past the end, beyond the end, the top of the address space, or (sometimes) whatever random bytes were there"""
    order = "little" if endian == "<" else "big"
    top = (1 << (8 * psz)) - 1
    buf = bytearray(data)
    planted = []
    for off in slots:
        if off + psz > len(buf):
            continue
        r = rnd.random()
        if r < 0.1:
            continue
        if r < 0.2:
            a = 0
        elif r < 0.75:
            a = rnd.randrange(0, max(1, len(buf)))
        elif r < 0.82:
            a = len(buf) - 1
        elif r < 0.88:
            a = len(buf)
        elif r < 0.95:
            a = len(buf) + rnd.randint(1, 40)
        else:
            a = top
        a = min(a, top)
        buf[off:off + psz] = a.to_bytes(psz, order)
        planted.append((off, a))
    return bytes(buf), planted


def deref_outcome(p, depth=3):
    """('null',) | ('err', class) | ('ok', canon of the pointee [, outcome of the pointee when it is a pointer itself])"""
    m = impl.dc()
    try:
        v = p.dereference()
    except m.NullPointerDereference:
        return ("null",)
    except Exception as e:  # noqa: BLE001
        return ("err", impl.err_class(e))
    c = [A("void")] if v is None else impl.canon(v)
    if isinstance(v, m.Pointer) and depth > 0:
        return ("ok", c, deref_outcome(v, depth - 1))
    if depth > 0 and isinstance(v, (m.Structure, list)):
        inner = deref_observations(v, depth - 1)
        if inner:
            return ("ok", c, inner)
    return ("ok", c)


def deref_observations(v, depth=3, path="", out=None):
    """[(path, address, outcome)] for every pointer inside a parsed value (members, array elements, union members)"""
    m = impl.dc()
    out = [] if out is None else out
    if type(v).__name__ == "UnionProxy":
        v = object.__getattribute__(v, "__target__")
    if isinstance(v, m.Pointer):
        out.append((path, int(v), deref_outcome(v, depth)))
    elif isinstance(v, m.Structure):
        for f in v.__class__.__fields__:
            deref_observations(getattr(v, f._name), depth, f"{path}.{f._name}", out)
    elif isinstance(v, list):
        for i, x in enumerate(v):
            deref_observations(x, depth, f"{path}[{i}]", out)
    return out


def same_outcome(a, b) -> bool:
    if a[0] != b[0] or len(a) != len(b):
        return False
    if a[0] == "null":
        return True
    if a[0] == "err":
        return a[1] == b[1]
    if not impl.same_val(a[1], b[1]):
        return False
    if len(a) == 3:
        if isinstance(a[2], tuple):
            return isinstance(b[2], tuple) and same_outcome(a[2], b[2])
        return isinstance(b[2], list) and len(a[2]) == len(b[2]) and all(
            x[0] == y[0] and x[1] == y[1] and same_outcome(x[2], y[2]) for x, y in zip(a[2], b[2]))
    return True


def show(o) -> str:
    if o[0] == "ok":
        return "ok " + sx(o[1])[:120] + (" -> " + (show(o[2]) if isinstance(o[2], tuple) else str([(p, a, show(x)) for p, a, x in o[2]])[:160]) if len(o) == 3 else "")
    return " ".join(o)


def pointer_unpackable(cs) -> bool:
    """can the configured pointer type be part of a struct format (what the generated reader needs)"""
    return issubclass(cs.pointer, impl.dc().Packed)


def classes_needing_fallback(T, seen=None, path="T"):
    """[(path, class)] of the structure classes below T (T included) that have a direct member which is a pointer or a
    (multi-dimensional) array of pointers while the configured pointer type is not struct-packable: the source
    generator cannot unpack those, so the class has to be left to the interpreted reader"""
    m = impl.dc()
    seen = set() if seen is None else seen
    out = []
    if not (isinstance(T, type) and issubclass(T, m.Structure)) or id(T) in seen:
        return out
    seen.add(id(T))
    direct = False
    for f in T.__fields__:
        ft = f.type
        while isinstance(ft, type) and issubclass(ft, _base_array()):
            ft = ft.type
        if isinstance(ft, type) and issubclass(ft, m.Pointer):
            direct = True
            ft = ft.type
            while isinstance(ft, type) and issubclass(ft, m.Pointer):
                ft = ft.type
        out += classes_needing_fallback(ft, seen, f"{path}.{f._name}")
    if direct and not pointer_unpackable(T.cs) and not issubclass(T, m.Union):
        out.insert(0, (path, T))
    return out
