"""C09, round 5 (v5): the input-kind axis with objects whose type is a SUBCLASS of bytes / bytearray.

The property quantifies over "input object kinds": a buffer is a buffer whatever its exact class.  The everyday case is the value
of a parsed `char[n]` member - dissect.cstruct's CharArray (and Char) are subclasses of bytes - handed to the next parser
(`cs.inner(outer.payload)`); user code also derives its own classes from bytes / bytearray.  `run_subclass` builds such objects for
every kind of generated type and demands, for every call form, the result that plain `bytes` of the same content give.

Types (`run_subclass`)
  gen     random structure trees (defs.Gen, depth 1..2; bit-fields, unions, pointers, dynamic arrays, to-end-of-stream arrays) with
          accepted random inputs
  union   top-level unions (s3_c09.union_tree), fixed-size and dynamically sized
  kinds   u2_c09.kind_case: scalars (ints, floats, char, wchar, LEB128, enums/flags), fixed / 2-d / null-terminated arrays, small
          structures and unions around char members, each behind a typedef (or a typedef of a typedef) and, where it exists, as the
          unnamed type cs.<base>[n]
  tail    u2_c09.tail_case: records valid by construction that end in a dynamically sized member
  T[2]    now and then the array type T[2] over two copies of the encoding
  x {<, >} x {packed, aligned} x {interpreted, compiled}; pointer sizes vary for gen/union.
Contents: ASCII digits (where int(b"1234") is a number), printable text, small / extreme bytes, noise.  Lengths: the encoding
exactly (for char types that is T.size bytes: the documented value-construction shortcut of T(x), whose value is the parsed value
anyway), the encoding followed by noise, the accepted input as generated.

Input objects (`make_kinds`), all with the same content `raw`:
  user classes      class B(bytes), a subclass of it with an attribute and an own __new__, a bytes subclass with __slots__ and own
                    __repr__/__eq__/__hash__, class BA(bytearray), a subclass of it with an attribute; memoryviews over them
  library classes   the value of a parsed member of an OUTER definition loaded on the same cstruct instance (`outer_case`), built so
                    that the member's bytes are `raw`:  char p[N] | <uint> n; char p[n | n + 1 | n * 2] | char p[EOF] | char p[]
                    (content without a zero byte) | one row of char p[k][N] | a typedef'd char array | a member of a nested structure
                    | a union member | char p (one byte) | `T p` where T itself is a char type of that size (x is then an instance of
                    T) | a window of a longer char p[a + N + b] (slice: plain bytes, memoryview slice, re-wrapped in a user class);
                    outer definitions are packed or aligned, compiled or interpreted, with 0..2 leading and 0..1 trailing members;
                    the value built by cs.char[N](raw); memoryviews over these values
  plain bytes       as the control
Call forms: T(x), T.read(x), T.reads(x), cs.read(name, x) - `cs.inner(outer.payload)` is T(x) with such a member value.

Oracle: every (object, call form) succeeds and gives the value T gives for `bytes(raw)` on its own (impl.canon, union buffers
ignored as in the rest of the module).  No known finding excuses a difference: the content is identical and no dump is involved.
Inputs that plain bytes do not parse are outside the domain.  Outer definitions whose member does not come back as a bytes-subclass
instance with content `raw` are skipped and counted (that is C07/C08 territory, not this property's).
The interpreted `gen` cases are also sent to the Lean model (`read` of the same bytes).
"""
from __future__ import annotations

import itertools
import random
import re

from . import defs, impl, refimpl, s3_c09, u2_c09
from .structprops import CONFIGS_ALL, has_eof, load, rand_bytes


def _c09():
    from .props import c09  # late: props/c09.py imports this module
    return c09


# ------------------------------------------------------------------------------------------------ user classes

class B(bytes):
    pass


class B2(B):
    def __new__(cls, data, tag="tag"):
        o = super().__new__(cls, data)
        o.tag = tag
        return o


class BQ(bytes):
    __slots__ = ()

    def __repr__(self):
        return f"BQ<{len(self)}>"

    def __eq__(self, other):
        return bytes(self) == bytes(other) if isinstance(other, (bytes, bytearray)) else NotImplemented

    def __hash__(self):
        return hash(bytes(self)) ^ 1


class BA(bytearray):
    pass


class BA2(BA):
    def __init__(self, *a):
        super().__init__(*a)
        self.tag = "tag"


USER_SRC = {
    "B": "class B(bytes): pass",
    "B2": "class B(bytes): pass\nclass B2(B):\n    def __new__(cls, data, tag='tag'):\n        o = super().__new__(cls, data); o.tag = tag; return o",
    "BQ": ("class BQ(bytes):\n    __slots__ = ()\n    def __repr__(self): return 'BQ'\n"
           "    def __eq__(self, o): return bytes(self) == bytes(o)\n    def __hash__(self): return hash(bytes(self)) ^ 1"),
    "BA": "class BA(bytearray): pass",
    "BA2": "class BA(bytearray): pass\nclass BA2(BA):\n    def __init__(self, *a):\n        super().__init__(*a); self.tag = 'tag'",
}
USER_CLS = {"B": B, "B2": B2, "BQ": BQ, "BA": BA, "BA2": BA2}
USER_LABEL = {
    "B": "instance of class B(bytes)", "B2": "instance of a subclass of a bytes subclass (own __new__, an attribute)",
    "BQ": "instance of a bytes subclass with __slots__ and own __repr__/__eq__/__hash__", "BA": "instance of class BA(bytearray)",
    "BA2": "instance of a subclass of a bytearray subclass (an attribute)",
}


def _noise(rnd, n):
    return bytes(rnd.randrange(256) for _ in range(n))


def content(rnd: random.Random, n: int) -> bytes:
    r = rnd.random()
    if r < 0.3:
        return bytes(rnd.choice(b"0123456789") for _ in range(n))  # int(b"1234") is a number
    if r < 0.42:
        return bytes(rnd.choice(b"abcXYZ 0189_-") for _ in range(n))
    return u2_c09._static_bytes(rnd, n)


# ------------------------------------------------------------------------------------------------ outer definitions

_uid = itertools.count(1)
INTS = {"uint8": 1, "uint16": 2, "uint32": 4}
OUTER_SHAPES = ["fixed", "expr", "eof", "null", "2d", "typedef", "nested", "union", "slice"]
DYNAMIC_SHAPES = ("expr", "eof", "null")


def _small_field(rnd, nm):
    """-> (declaration, bytes, alignment)"""
    k = rnd.choice(["uint8", "uint16", "uint32", "char", "chars"])
    if k in INTS:
        return f"{k} {nm};", _noise(rnd, INTS[k]), INTS[k]
    if k == "char":
        return f"char {nm};", _noise(rnd, 1), 1
    n = rnd.randint(1, 5)
    return f"char {nm}[{n}];", _noise(rnd, n), 1


def outer_case(rnd: random.Random, raw: bytes, endian: str, shape: str, align: bool, selfname=None):
    """an outer definition and one encoding of it in which the bytes of member `p` (a char type) are `raw`.
    -> dict(name, text, data, get: parsed outer -> member value, access: the same as source text, window: (a, b) | None)"""
    uid = next(_uid)
    name = f"V5O{uid}"
    N = len(raw)
    order = "little" if endian == "<" else "big"
    pre = [_small_field(rnd, f"a{i}") for i in range(rnd.choice([0, 0, 1, 2]))]
    post = [_small_field(rnd, f"z{i}") for i in range(rnd.choice([0, 1]))]
    head, kw, access, get, window = "", "struct", ".p", (lambda o: o.p), None
    if shape == "fixed":
        mid = [(f"char p[{N}];", raw, 1)]
    elif shape == "char":
        mid = [("char p;", raw, 1)]
    elif shape == "expr":
        ct = rnd.choice([t for t, s in INTS.items() if N + 1 < 256 ** s])
        ex, n = rnd.choice([("n", N), ("n", N)] + ([("n + 1", N - 1)] if N >= 1 else []) + ([("n * 2", N // 2)] if N % 2 == 0 else []))
        mid = [(f"{ct} n;", n.to_bytes(INTS[ct], order), INTS[ct]), (f"char p[{ex}];", raw, 1)]
    elif shape == "eof":
        mid, post = [("char p[EOF];", raw, 1)], []
    elif shape == "null":
        mid = [("char p[];", raw + b"\x00", 1)]
    elif shape == "2d":
        k = rnd.randint(2, 3)
        j = rnd.randrange(k)
        mid = [(f"char p[{k}][{N}];", b"".join(raw if i == j else _noise(rnd, N) for i in range(k)), 1)]
        access, get = f".p[{j}]", (lambda o: o.p[j])
    elif shape == "typedef":
        head = f"typedef char V5P{uid}[{N}];\n"
        mid = [(f"V5P{uid} p;", raw, 1)]
    elif shape == "self":
        mid = [(f"{selfname} p;", raw, 1)]
    elif shape == "nested":
        mid = [(f"struct {{ uint8 t; char p[{N}]; }} in;", _noise(rnd, 1) + raw, 1)]
        access, get = ".in.p", (lambda o: getattr(o, "in").p)
    elif shape == "union":
        kw, pre, post = "union", [], []
        mid = [(f"char p[{N}];", raw, 1), (f"uint8 u[{N}];", b"", 1)]
    elif shape == "slice":
        a, b = rnd.randint(1, 4), rnd.randint(0, 3)
        mid = [(f"char p[{a + N + b}];", _noise(rnd, a) + raw + _noise(rnd, b), 1)]
        window = (a, a + N)
    else:
        raise ValueError(shape)
    out, maxal = bytearray(), 1
    for _decl, bs, al in pre + mid + post:
        maxal = max(maxal, al)
        if align and kw == "struct":
            out += _noise(rnd, -len(out) % al)
        out += bs
    if align and kw == "struct":
        out += _noise(rnd, -len(out) % maxal)
    text = head + f"{kw} {name} {{\n  " + "\n  ".join(d for d, _b, _a in pre + mid + post) + "\n};\n"
    return {"name": name, "text": text, "data": bytes(out), "get": get, "access": access, "window": window, "shape": shape}


OUTER_LABEL = {
    "fixed": "value of a parsed char p[N] member", "char": "value of a parsed char member", "expr": "value of a parsed expression-sized char p[n] member",
    "eof": "value of a parsed char p[EOF] member", "null": "value of a parsed null-terminated char p[] member", "2d": "one row of a parsed char p[k][N] member",
    "typedef": "value of a parsed member whose type is a typedef'd char array", "self": "value of a parsed member declared with T itself (an instance of T)",
    "nested": "value of a parsed char p[N] member of a nested structure", "union": "value of a parsed char p[N] union member",
}


def make_kinds(rnd, res, L, raw, *, quick, selfname):
    """-> [(label, object, python source that builds it as `x`)]: objects with content `raw`"""
    N = len(raw)
    hexs = raw.hex()
    out = [("plain bytes (control)", bytes(raw), f"x = bytes.fromhex({hexs!r})")]
    users = ["B", "BA"] + rnd.sample(["B2", "BQ", "BA2"], 1 if quick else 3)
    for u in users:
        out.append((USER_LABEL[u], USER_CLS[u](raw), f"{USER_SRC[u]}\nx = {u}(bytes.fromhex({hexs!r}))"))
    u = rnd.choice(users)
    out.append((f"memoryview over an {USER_LABEL[u]}", memoryview(USER_CLS[u](raw)), f"{USER_SRC[u]}\nx = memoryview({u}(bytes.fromhex({hexs!r})))"))
    # the library's own bytes subclasses
    shapes = ["fixed"]
    pool = [s for s in OUTER_SHAPES if s != "fixed" and not (s == "null" and b"\x00" in raw) and not (s in ("2d", "union") and N == 0)]
    shapes += rnd.sample(pool, min(len(pool), 3 if quick else 6))
    if N == 1:
        shapes.append("char")
    if selfname:
        shapes.append("self")
    # one cs.load per (aligned?) group: loading is what costs time
    planned = [(shape, shape not in DYNAMIC_SHAPES and rnd.random() < 0.3) for shape in shapes]
    loaded = {}
    for align in (False, True):
        group = [outer_case(rnd, raw, L.endian, shape, align, selfname) for shape, al in planned if al == align]
        if not group:
            continue
        compiled = rnd.random() < 0.4
        try:
            L.cs.load("".join(oc["text"] for oc in group), compiled=compiled, align=align)
            for oc in group:
                loaded[oc["shape"], align] = (oc, compiled)
        except Exception as e:  # noqa: BLE001
            res.feat(f"sub: outer definitions not loadable: {type(e).__name__}")
    for shape, align in planned:
        if (shape, align) not in loaded:
            continue
        oc, compiled = loaded[shape, align]
        src = f"cs.load({oc['text']!r}, compiled={compiled}, align={align}); o = cs.{oc['name']}.reads(bytes.fromhex({oc['data'].hex()!r}))"
        try:
            # (.reads: O(bytes) with a single char member of exactly that size is value construction - the member would be the plain bytes)
            o = getattr(L.cs, oc["name"]).reads(oc["data"])
            v = oc["get"](o)
            if oc["window"]:
                a, b = oc["window"]
                ok = isinstance(v, bytes) and type(v) is not bytes and bytes(v[a:b]) == raw
            else:
                ok = isinstance(v, bytes) and type(v) is not bytes and bytes(v) == raw
        except Exception as e:  # noqa: BLE001 - parsing the outer record is another property's business
            res.feat(f"sub: outer definition ({shape}) not usable: {type(e).__name__}")
            continue
        if not ok:
            res.feat(f"sub: outer definition ({shape}): the member is not a bytes-subclass instance with the planned content (skipped)")
            continue
        res.feat("sub-outer:" + shape + (":aligned" if align else ":packed") + (":compiled" if compiled else ":interpreted"))
        if oc["window"]:
            a, b = oc["window"]
            out.append((f"slice [{a}:{b}] of the value of a parsed char member (plain bytes)", v[a:b], f"{src}; x = o.p[{a}:{b}]"))
            out.append((f"memoryview slice [{a}:{b}] over the value of a parsed char member", memoryview(v)[a:b], f"{src}; x = memoryview(o.p)[{a}:{b}]"))
            out.append((f"slice [{a}:{b}] of the value of a parsed char member re-wrapped in class B(bytes)", B(v[a:b]), f"{USER_SRC['B']}\n{src}; x = B(o.p[{a}:{b}])"))
            continue
        out.append((OUTER_LABEL[shape], v, f"{src}; x = o{oc['access']}"))
        if rnd.random() < 0.3:
            out.append(("memoryview over the " + OUTER_LABEL[shape], memoryview(v), f"{src}; x = memoryview(o{oc['access']})"))
    try:
        v = L.cs.char[N](bytes(raw))
        if isinstance(v, bytes) and type(v) is not bytes and bytes(v) == raw:
            out.append(("value built by cs.char[N](bytes)", v, f"x = cs.char[{N}](bytes.fromhex({hexs!r}))"))
    except Exception:  # noqa: BLE001
        res.feat("sub: cs.char[N](bytes) not usable")
    return out


# ------------------------------------------------------------------------------------------------ the probe

def probe_sub(eng, res, rnd, L, T, tname, texpr, named, raw, what, *, quick, cat):
    """every input object x call form on one (type, content): the value plain bytes give"""
    c09 = _c09()
    want = c09.parse_plain(T, bytes(raw))
    if want[0] != "ok":
        res.feat("sub: content not accepted as plain bytes (outside the domain)")
        return None
    ischar = isinstance(T, type) and issubclass(T, bytes)
    size = getattr(T, "size", None)
    selfname = "T" if (ischar and named and tname == "T" and size is not None and size == len(raw)) else None
    res.feat("sub-type:" + cat + (":char type" if ischar else ""))
    if raw and all(0x30 <= c <= 0x39 for c in raw):
        res.feat("sub: content is all ASCII digits")
    if size is not None and size == len(raw):
        res.feat("sub: input length equals the type size" + (" (char type: value-construction shortcut of T(x))" if ischar else ""))
    forms = [("T(x)", lambda x: T(x), "T(x)"), ("T.read(x)", lambda x: T.read(x), "T.read(x)"), ("T.reads(x)", lambda x: T.reads(x), "T.reads(x)")]
    if named:
        forms.append(("cs.read(name, x)", lambda x: L.cs.read("T", x), "cs.read('T', x)"))
    for klabel, x, xsrc in make_kinds(rnd, res, L, raw, quick=quick, selfname=selfname):
        outs = {}
        for fname, fn, _src in forms:
            try:
                outs[fname] = ("ok", impl.canon(fn(x)))
            except Exception as e:  # noqa: BLE001
                outs[fname] = ("err", impl.err_class(e), str(e)[:80])
            res.count((L.text, tname, L.endian, L.align, L.compiled, bytes(raw), klabel, fname, "subclass"), True)
            res.feat("sub-form:" + fname)
        res.feat("sub-kind:" + re.sub(r" \[\d+:\d+\]", "", klabel))
        for fname, _fn, fsrc in forms:
            o = outs[fname]
            if o[0] != "ok" or not c09.eq(want[1], o[1]):
                others = {k: str(v[1])[:60] for k, v in outs.items() if k != fname}
                cd = eng.case_data(L, data=bytes(raw), form=fname, input=klabel, type=tname)
                cd["repro"] = (f"from dissect.cstruct import cstruct; cs = cstruct(endian={L.endian!r}, pointer={L.pointer!r}); "
                               f"cs.load({L.text!r}, compiled={L.compiled}, align={L.align}); T = {texpr}\n{xsrc}\n"
                               f"print({fsrc}, 'expected', T.reads(bytes(x)))")
                eng.report(f"{what} as {tname}: {fname} with x = {klabel} ({len(raw)} bytes {bytes(raw[:24]).hex()}{'...' if len(raw) > 24 else ''}) gives "
                           f"{str(o[1:])[:160]}; the same content as plain bytes gives {str(want[1])[:160]} (other call forms: {others})", cd, [])
    return want


def variants(rnd, tree, T, body, consumed):
    """contents for one accepted input: as generated; the encoding exactly; the encoding followed by noise"""
    if has_eof(tree):
        return [body]
    exact = body[:consumed].ljust(consumed, b"\x00")  # the extent may end in alignment padding beyond the input
    out = [exact, exact + _noise(rnd, rnd.choice([1, 3, 9]))]
    if body not in out and rnd.random() < 0.5:
        out.append(body)
    return out


def _array_of_two(eng, res, rnd, L, T, tname, texpr, raw, consumed, what, quick, cat):
    rec = bytes(raw[:consumed])
    if len(rec) != consumed or not consumed:
        return
    try:
        AT = T[2]
    except Exception:  # noqa: BLE001
        return
    probe_sub(eng, res, rnd, L, AT, f"{tname}[2]", f"{texpr}[2]", False, rec + rec, what, quick=quick, cat=cat + "[2]")


def run_subclass(env, eng, res, rnd):
    c09 = _c09()
    tier = env["tier"]
    quick = tier == "quick"
    m = impl.dc()
    scale = 1 if quick else 14

    def one(L, T, tname, texpr, named, tree, body, base, what, cat, model=False):
        sigs = eng.sigs(L) if model else []
        first = True
        for raw in variants(rnd, tree, T, body, base[2]):
            want = probe_sub(eng, res, rnd, L, T, tname, texpr, named, raw, what, quick=quick, cat=cat)
            if want is None:
                continue
            if first and model and "F23" not in sigs and not L.compiled and want[3] is not None:
                eng.model_read(L, bytes(raw), 0, want, "bytes-subclass family: read of the content on its own", sigs)
            if first and not has_eof(tree) and rnd.random() < 0.3:
                _array_of_two(eng, res, rnd, L, T, tname, texpr, raw, want[2], what, quick, cat)
            first = False

    # gen: random structure trees, accepted random inputs
    for _ in range(36 * scale):
        tree = defs.Gen(rnd, max_depth=rnd.choice([1, 2, 2])).struct()
        for endian, align, compiled in rnd.sample(CONFIGS_ALL, 2):
            L, _err = load(tree, endian=endian, align=align, compiled=compiled, pointer=rnd.choice(["uint64", "uint32", "uint16"]))
            if L is None:
                continue
            T = L.T
            size = T.size if T.size is not None else 48
            body = base = None
            for _try in range(4):
                n = size + rnd.choice([0, 8, 24])
                cand = content(rnd, n) if _try < 2 else rand_bytes(rnd, n)
                w = c09.parse_plain(T, cand)
                if w[0] == "ok":
                    body, base = cand, w
                    break
            if body is None:
                continue
            one(L, T, "T", "cs.T", True, tree, body, base, "generated structure", "struct", model=True)
        if len(eng.lines) > 3000:
            eng.flush()
    # union: top-level unions
    for _ in range(24 * scale):
        tree, kind = s3_c09.union_tree(rnd)
        endian, align, compiled = rnd.choice(CONFIGS_ALL)
        L, _err = load(tree, endian=endian, align=align, compiled=compiled, pointer=rnd.choice(["uint64", "uint32", "uint16"]))
        if L is None:
            continue
        T = L.T
        size = T.size if T.size is not None else 24
        for _try in range(4):
            n = size + rnd.choice([0, 8, 24])
            cand = content(rnd, n) if _try < 2 else rand_bytes(rnd, n)
            w = c09.parse_plain(T, cand)
            if w[0] == "ok":
                one(L, T, "T", "cs.T", True, tree, cand, w, f"top-level union ({kind})", "union:" + kind)
                break
    # kinds: scalars, arrays, typedefs, small structures / unions around char members; named and unnamed types
    for _ in range(90 * scale):
        case = u2_c09.kind_case(rnd)
        tree = case["tree"]
        endian = rnd.choice("<>")
        align = rnd.random() < 0.3 and tree[0] in ("struct", "union")
        compiled = rnd.random() < 0.5
        L = object.__new__(impl.Loaded)
        L.tree, L.endian, L.align, L.compiled, L.pointer = tree, endian, align, compiled, "uint64"
        L.text = defs.PREAMBLE + case["text"]
        L.cs = m.cstruct(endian=endian, pointer="uint64")
        try:
            L.cs.load(L.text, compiled=compiled, align=align)
            L.T = L.cs.T
        except Exception as e:  # noqa: BLE001
            res.feat(f"sub: definition rejected:{case['kind']}:{type(e).__name__}")
            continue
        cfg = refimpl.Cfg(endian, align, "uint64", impl.CONSTS)
        size = refimpl.size_align(tree, cfg)[0]
        types = [("T", "cs.T", L.T, True)]
        if case["direct"]:
            base_, dims = case["direct"]
            try:
                D = getattr(L.cs, base_)
                for d in dims:
                    D = D[d]
                types.append((f"cs.{base_}" + "".join(f"[{d}]" for d in dims), f"cs.{base_}" + "".join(f"[{d!r}]" for d in dims), D, False))
            except Exception as e:  # noqa: BLE001
                res.feat(f"sub: unnamed type not available: {type(e).__name__}")
        enc = case["dyn_enc"](endian) if case["dyn_enc"] else content(rnd, size)
        for tname, texpr, T, named in types:
            w = c09.parse_plain(T, enc)
            if w[0] != "ok" or w[2] != len(enc):
                res.feat("sub: kinds: content not a value of the type")
                continue
            one(L, T, tname, texpr, named, tree, enc, w, case["label"], "kinds:" + case["kind"])
    # tail: records valid by construction that end in a dynamically sized member
    for _ in range(18 * scale):
        case = u2_c09.tail_case(rnd)
        tree = case["tree"]
        endian, align, compiled = rnd.choice(CONFIGS_ALL)
        L, _err = load(tree, endian=endian, align=align, compiled=compiled)
        if L is None:
            continue
        cfg = refimpl.Cfg(endian, align, "uint64", impl.CONSTS)
        outb = bytearray()
        try:
            u2_c09.emit(tree, outb, rnd, endian, cfg)
        except Exception:  # noqa: BLE001
            continue
        w = c09.parse_plain(L.T, bytes(outb))
        if w[0] != "ok":
            res.feat("sub: tail: constructed record not accepted")
            continue
        one(L, L.T, "T", "cs.T", True, tree, bytes(outb), w, "record with a dynamic tail (" + case["label"] + ")", "tail")
    eng.flush()
