"""C19 probe (v10): dumpstruct OF VALUES CHANGED AFTER PARSING - structures AND unions, member assignment and IN-PLACE changes.

"Dumping a parsed structure shows a hex dump of exactly its bytes and lists every field with its value."  The bytes of an instance are
what instance.dumps() / bytes(instance) give AT THE MOMENT OF THE DUMP, not what it was parsed from: instances are mutable, and they are
mutable in two ways - by assigning a member (s.a = 1, u.word = 7: seen by Structure / Union.__setattr__) and IN PLACE through a container
member (s.arr[0] = 1, u.raw[3] = 0xee, u.pts[2].y = 0xab, s.m[1][0] = 5, s.arr.reverse(): the instance is never told).  A union keeps
a backing buffer that only __setattr__ refreshes, a structure keeps the sizes recorded at parse time; whatever dumpstruct takes from such
a cache instead of the values goes stale exactly on the second kind of change.  The earlier probes only dumped freshly parsed / built
instances, where cache and values cannot differ.

What is generated (module PRNG, mkrng(seed, "c19:v10:changed")):

 * a type S, `struct` or `union`, from random members: integers of 1..16 bytes (signed / unsigned, int24 / int48 / int128), arrays and
   two-dimensional arrays of them, char[n] / wchar[n], an enum, float16 / float / double, a nested structure member, a member and an
   ARRAY of a named structure P (itself generated: integers and an integer array), bit-fields filling their unit and - structures only -
   a union member (changed through the structure: s.v.raw[i] = ...), a null-terminated char[] and a counted array n; d[n] at the end
   (assigning them changes the LENGTH of the structure's bytes).  Unions: in most cases the largest member is an integer array or the
   array of structures (alone largest, or tied with another member, before or after it); otherwise any member may be the largest.
   x endianness spelling (< > ! @ =)  x  compiled / interpreted  x  packed / aligned (aligned: members of fixed size only).
 * an instance of S from every public entry point: the class called with bytes / bytearray / memoryview / a BytesIO / a real file,
   S.reads, S.read(stream), S.read(bytes), the default-constructed S(), S(**values) / S(*values) (unions: one member given).
 * a walk of 1..5 changes (thorough: ..8), the instance dumped BEFORE the first and AFTER EACH one:
     member assignment     s.f = v (integer at the edges of its width, char / wchar text, enum member or plain value, float, bit-field),
                           s.arr = [...], s.m[i] = [...] (a row), s.p = P(...), s.in.x = v (nested member; proxied in a union),
                           s.name = b"other length", s.d = [...] together with its count
     in-place change       s.arr[i] = v, s.arr[i:j] = [...], s.arr.reverse(), s.m[i][j] = v, s.pts[i].y = v, s.pts[i].a[j] = v,
                           s.pts[i] = P(...), s.p.a[j] = v, s.d.append(v) with the count, s.v.raw[i] = v (union inside a structure)
   each dump with colour off and on, output "string" and "print" (captured), at a random offset.

Oracle (the property, on what the library returns / prints, at that moment):
 * dumpstruct(instance) succeeds whenever instance.dumps() does (a dynamic union cannot be written: not generated);
 * with the escape sequences removed the text is "\\n" + hex dump + "\\n\\n" + listing: the hex dump reads back (v9_c19.text_error /
   t6_c19.plain_lines_error, an independent reader) as exactly now = instance.dumps() taken right before the call, sixteen per line behind
   the running offset; bytes(instance) are the same bytes; the listing names every member once, in order, with its CURRENT value
   (getattr at that moment, read back from the text);
 * independent of dumps(): after an element assignment into an integer array / a member assignment of an integer whose place in the
   bytes the harness knows (packed structure, members of fixed size in front; union: the member the union is written from, i.e. the
   first of the largest members, offset 0) the hex dump shows the two's complement of the new value, in the type's byte order, there
   (not judged where the place is not known - aligned layouts, a union changed in place through a member it is not written from - and
   for a union written from a float member, whose NaN payloads do not survive the float: union { float16 g; uint16 f; } after
   u.f = 0x7fff dumps 00 7e - the float properties' business, the dump is still held against dumps());
 * dumping does not change the instance: dumps() after the call = dumps() before it;
 * colour off: no escape character; colour on = the same text plus colour codes; output "print" prints what "string" returns;
 * dumpstruct(S, now) (the type + data style) shows the same hex dump for these bytes.
The dump after each change also goes to the Lean model (driver `dumpstruct`, exact text) together with the bytes now.

Domain restriction (behaviour of the UNMODIFIED library, already reported by v9, not silenced): a STRUCTURE built with constructor
arguments carries no `_sizes` and dumpstruct(instance, color=True) raises AttributeError('_sizes'); exactly that exception on exactly that
origin is counted as feature `v10:changed:api-instance:colour:AttributeError-_sizes`; colour off is judged like everything else.
"""
from __future__ import annotations

import io
import sys
import tempfile

from . import t6_c19, v9_c19
from .common import mkrng
from .v9_c19 import ENDIANS, INTS, captured, norm, strip

FLOATS = [0.0, 1.5, -2.0, 0.5, 1024.0, -0.25, 3.0]


def irange(size, signed):
    return (-(1 << (8 * size - 1)), (1 << (8 * size - 1)) - 1) if signed else (0, (1 << (8 * size)) - 1)


def ival(rnd, size, signed, avoid=None):
    lo, hi = irange(size, signed)
    for _ in range(6):
        v = rnd.choice([lo, hi, 0, 1, hi - 1, lo + 1, 0xEE & hi, 0xAB & hi, -1 if signed else hi >> 1, rnd.randint(lo, hi), rnd.randint(lo, hi)])
        if v != avoid:
            return v
    return v


def enc(v, size, order):
    return (v & ((1 << (8 * size)) - 1)).to_bytes(size, order)


def itype(rnd, maxsize=16):
    t, s = rnd.choice([x for x in INTS if x[1] <= maxsize])
    return t, s, not t.startswith("u")


# ------------------------------------------------------------------------------------------------ the type

class Member:
    def __init__(self, kind, name, decl, size, **kw):
        self.kind, self.name, self.decl, self.size = kind, name, decl, size
        self.offset = None  # place in the bytes where the harness knows it
        self.__dict__.update(kw)


class TypeGen:
    def __init__(self, rnd, order, union, aligned):
        self.rnd, self.order, self.union, self.aligned = rnd, order, union, aligned
        self.n = 0
        self.pre = []
        self.has_bits = False
        # the named structure P
        self.p = []  # (name, type, size, signed, count or None)
        for nm in ("x", "y", "a")[:rnd.randint(2, 3)] if rnd.random() < 0.8 else ("y",):
            t, s, sg = itype(rnd, 4)
            self.p.append((nm, t, s, sg, rnd.randint(1, 3) if nm == "a" else None))
        self.psize = sum(s * (c or 1) for _, _, s, _, c in self.p)
        self.pre.append("struct P { " + " ".join(f"{t} {nm}" + (f"[{c}];" if c else ";") for nm, t, s, sg, c in self.p) + " };")
        self.enum = None

    def name(self, stem):
        self.n += 1
        return f"{stem}{self.n}"

    def member(self, kind, maxsize=64):
        r = self.rnd
        if kind == "int":
            t, s, sg = itype(r)
            return Member("int", self.name("f"), "{t} {n};", s, t=t, es=s, signed=sg)
        if kind == "int[]":
            t, s, sg = itype(r, 8)
            k = r.randint(1, max(1, min(12, maxsize // s)))
            return Member("int[]", self.name("a"), "{t} {n}[%d];" % k, s * k, t=t, es=s, signed=sg, count=k)
        if kind == "int[][]":
            t, s, sg = itype(r, 4)
            a, b = r.randint(1, 3), r.randint(1, 4)
            return Member("int[][]", self.name("m"), "{t} {n}[%d][%d];" % (a, b), s * a * b, t=t, es=s, signed=sg, rows=a, cols=b)
        if kind == "char[]":
            k = r.randint(1, 12)
            return Member("char[]", self.name("c"), "{t} {n}[%d];" % k, k, t="char", count=k)
        if kind == "wchar[]":
            k = r.randint(1, 6)
            return Member("wchar[]", self.name("w"), "{t} {n}[%d];" % k, 2 * k, t="wchar", count=k)
        if kind == "enum":
            if self.enum is None:
                base, s = r.choice([("uint8", 1), ("uint16", 2), ("uint32", 4)])
                self.enum = (base, s)
                self.pre.append(f"enum E : {base} {{ E_A = 1, E_B = 2, E_C = 0x7f }};")
            return Member("enum", self.name("e"), "{t} {n};", self.enum[1], t="E", es=self.enum[1])
        if kind == "float":
            t, s = r.choice([("float", 4), ("double", 8), ("float16", 2)])
            return Member("float", self.name("g"), "{t} {n};", s, t=t)
        if kind == "nested":
            t1, s1, g1 = itype(r, 4)
            t2, s2, g2 = itype(r, 4)
            return Member("nested", self.name("in"), "struct {{ %s x; %s y; }} {n};" % (t1, t2), s1 + s2, t="", sub=[("x", s1, g1, 0), ("y", s2, g2, s1)])
        if kind == "P":
            return Member("P", self.name("p"), "{t} {n};", self.psize, t="P")
        if kind == "P[]":
            k = r.randint(1, 5)
            return Member("P[]", self.name("pts"), "{t} {n}[%d];" % k, self.psize * k, t="P", count=k)
        if kind == "bits":
            t, s, parts = r.choice([("uint8", 1, (1, 7)), ("uint8", 1, (3, 2, 3)), ("uint16", 2, (4, 12)), ("uint32", 4, (3, 29)), ("uint16", 2, (1, 1, 14))])
            self.has_bits = True
            return [Member("bit", self.name("b"), "{t} {n}:%d;" % p, s if i == 0 else 0, t=t, bits=p) for i, p in enumerate(parts)]
        if kind == "union":
            k = r.randint(3, 9)  # (both arrays longer than the uint16 member: the union is written from the first of them)
            t, s, sg = itype(r, 4)
            first = r.random() < 0.5
            raw, w = "uint8 raw[%d];" % (k * s), f"{t} w[{k}];"
            self.pre.append("union V { uint16 h; " + (raw + " " + w if first else w + " " + raw) + " };")
            return Member("union", self.name("v"), "{t} {n};", k * s, t="V", count=k * s, first=first, wt=(t, s, sg, k))
        if kind == "cstr":
            return Member("cstr", self.name("s"), "{t} {n}[];", None, t="char")
        if kind == "counted":
            t, s, sg = itype(r, 4)
            cn = self.name("n")
            return [Member("count", cn, "{t} {n};", 1, t="uint8", es=1, signed=False, nojudge=True),
                    Member("counted", self.name("d"), "{t} {n}[%s];" % cn, None, t=t, es=s, signed=sg, cn=cn)]
        raise AssertionError(kind)

    def build(self):
        r = self.rnd
        members = []

        def add(m):
            members.extend(m if isinstance(m, list) else [m])

        if self.union:
            kinds = ["int", "int", "int[]", "int[]", "char[]", "enum", "float", "nested", "P", "P[]", "int[][]", "wchar[]"]
            if r.random() < 0.7:
                # the largest member is an array (of integers / of structures); the others fit into it
                big = self.member(r.choice(["int[]", "P[]", "int[]", "P[]", "int[][]"]))
                while big.size < 4:
                    big = self.member(r.choice(["int[]", "P[]"]))
                others = []
                for _ in range(r.randint(1, 4)):
                    for _ in range(8):
                        m = self.member(r.choice(kinds), maxsize=big.size)
                        if m.size <= big.size:
                            others.append(m)
                            break
                pos = r.choice([0, 0, len(others), r.randint(0, len(others))])
                members = others[:pos] + [big] + others[pos:]
            else:
                for _ in range(r.randint(1, 5)):
                    add(self.member(r.choice(kinds)))
            size = max(m.size for m in members)
            written = next(m for m in members if m.size == size)  # the union is written from the first of its largest members
            for m in members:
                m.offset = 0
            self.size, self.written = size, written
        else:
            kinds = ["int", "int", "int[]", "int[]", "int[][]", "char[]", "enum", "float", "nested", "P", "P[]", "P[]", "bits"]
            if not self.aligned:
                kinds += ["wchar[]", "union", "union"]
            for _ in range(r.randint(1, 7)):
                add(self.member(r.choice(kinds)))
            if not self.aligned and r.random() < 0.35:
                add(self.member(r.choice(["cstr", "counted"])))
            off = 0
            for m in members:
                m.offset = off if (off is not None and not self.aligned and m.kind != "bit") else None
                off = None if (off is None or m.size is None) else off + m.size
            self.size, self.written = off, None
        self.members = members
        head = "union" if self.union else "struct"
        self.text = "".join(p + "\n" for p in self.pre) + head + " S { " + " ".join(m.decl.format(t=m.t, n=m.name) for m in members) + " };"
        return self

    # -- bytes to parse the first instance from
    def data(self):
        r = self.rnd

        def rb(k):
            return bytes(r.choice(b"\x00\xff\x80\x7f{}%\\ \n\x1b") for _ in range(k)) if r.random() < 0.15 else bytes(r.randrange(256) for _ in range(k))

        def one(m):
            if m.kind == "wchar[]":
                s = "".join(chr(r.choice([r.randrange(0x20, 0x7F), r.randrange(0xA0, 0xD800), 0x7B, 0x25])) for _ in range(m.count))
                return s.encode("utf-16-le" if self.order == "little" else "utf-16-be")
            if m.kind == "float":
                return {2: b"\x00\x3e", 4: b"\x00\x00\xc0\x3f", 8: b"\x00" * 6 + b"\xf8\x3f"}[m.size][::1 if self.order == "little" else -1] \
                    if r.random() < 0.5 else bytes([r.randrange(1, 0x70)] * m.size)
            if m.kind == "enum":
                return r.choice([1, 2, 0x7F, 0, 3]).to_bytes(m.size, self.order)
            if m.kind == "cstr":
                return bytes(r.choice(b"{}%\\ab'\"\x1b\xff\x01") for _ in range(r.randint(0, 18))) + b"\x00"
            if m.kind == "count":
                return b""
            if m.kind == "counted":
                k = r.randint(0, 9)
                return bytes([k]) + rb(k * m.es)
            return rb(m.size)

        if self.union:
            buf = bytearray(rb(self.size))
            m = r.choice(self.members)
            if m.kind in ("wchar[]", "float", "enum"):
                b = one(m)
                buf[:len(b)] = b
            return bytes(buf)
        return b"".join(one(m) for m in self.members)


# ------------------------------------------------------------------------------------------------ the changes

def gen_change(g, cs, obj, rnd):
    """-> (text of the change, thunk applying it to obj, kind "assign" | "in-place", (position, bytes) the dump must show or None)"""
    for _ in range(30):
        m = rnd.choice(g.members)
        ch = _change(g, cs, obj, rnd, m)
        if ch is None:
            continue
        text, apply, kind, exp = ch
        # where the harness does not know the place of the bytes: aligned layouts; a union changed in place through a member it is not
        # written from (a member ASSIGNMENT rebuilds the union's bytes from offset 0 whatever the member)
        if g.aligned or (g.union and kind == "in-place" and m is not g.written):
            exp = None
        # a union written from a FLOAT member: the bytes another member was assigned come back through the float (u.f2 = 0x7fff makes the
        # float16 member a NaN, and dumps() writes the canonical NaN 0x7e00, not the payload) - what the bytes are is then the business of the
        # float properties; the dump is still held against instance.dumps()
        if g.union and g.written.kind == "float" and m is not g.written:
            exp = None
        return text, apply, kind, exp
    return None


def _change(g, cs, obj, r, m):
    order = g.order
    n = m.name
    k = m.kind
    if True:

        def P_value():
            vals = {}
            for nm, t, s, sg, c in g.p:
                vals[nm] = [ival(r, s, sg) for _ in range(c)] if c else ival(r, s, sg)
            return vals

        def p_field():
            nm, t, s, sg, c = r.choice(g.p)
            off = 0
            for nm2, t2, s2, sg2, c2 in g.p:
                if nm2 == nm:
                    break
                off += s2 * (c2 or 1)
            return nm, s, sg, c, off

        if k in ("int", "count") and not getattr(m, "nojudge", False):
            v = ival(r, m.es, m.signed, getattr(obj, n))
            exp = (m.offset, enc(v, m.es, order)) if m.offset is not None else None
            return f"obj.{n} = {v:#x}", (lambda: setattr(obj, n, v)), "assign", exp
        if k == "int[]":
            cur = getattr(obj, n)
            ch = r.random()
            if ch < 0.5:
                i = r.randrange(m.count)
                if r.random() < 0.3:
                    i -= m.count  # negative index
                v = ival(r, m.es, m.signed, cur[i])
                exp = (m.offset + (i % m.count) * m.es, enc(v, m.es, order)) if m.offset is not None else None
                return f"obj.{n}[{i}] = {v:#x}", (lambda: getattr(obj, n).__setitem__(i, v)), "in-place", exp
            if ch < 0.65:
                i = r.randrange(m.count)
                j = r.randint(i, m.count)
                vs = [ival(r, m.es, m.signed) for _ in range(j - i)]
                exp = (m.offset + i * m.es, b"".join(enc(v, m.es, order) for v in vs)) if m.offset is not None else None
                return f"obj.{n}[{i}:{j}] = {vs}", (lambda: getattr(obj, n).__setitem__(slice(i, j), vs)), "in-place", exp
            if ch < 0.75:
                return f"obj.{n}.reverse()", (lambda: getattr(obj, n).reverse()), "in-place", None
            vs = [ival(r, m.es, m.signed) for _ in range(m.count)]
            exp = (m.offset, b"".join(enc(v, m.es, order) for v in vs)) if m.offset is not None else None
            return f"obj.{n} = {vs}", (lambda: setattr(obj, n, vs)), "assign", exp
        if k == "int[][]":
            i, j = r.randrange(m.rows), r.randrange(m.cols)
            if r.random() < 0.7:
                v = ival(r, m.es, m.signed, getattr(obj, n)[i][j])
                exp = (m.offset + (i * m.cols + j) * m.es, enc(v, m.es, order)) if m.offset is not None else None
                return f"obj.{n}[{i}][{j}] = {v:#x}", (lambda: getattr(obj, n)[i].__setitem__(j, v)), "in-place", exp
            vs = [ival(r, m.es, m.signed) for _ in range(m.cols)]
            exp = (m.offset + i * m.cols * m.es, b"".join(enc(v, m.es, order) for v in vs)) if m.offset is not None else None
            return f"obj.{n}[{i}] = {vs}", (lambda: getattr(obj, n).__setitem__(i, vs)), "in-place", exp
        if k == "char[]":
            v = bytes(r.choice(b"Az09{}%\\ \x00\xff\x1b\n") for _ in range(m.count))
            exp = (m.offset, v) if m.offset is not None else None
            return f"obj.{n} = {v!r}", (lambda: setattr(obj, n, v)), "assign", exp
        if k == "wchar[]":
            v = "".join(chr(r.choice([r.randrange(0x20, 0x7F), r.randrange(0xA0, 0xD800), 0x7B, 0x25])) for _ in range(m.count))
            exp = (m.offset, v.encode("utf-16-le" if order == "little" else "utf-16-be")) if m.offset is not None else None
            return f"obj.{n} = {v!r}", (lambda: setattr(obj, n, v)), "assign", exp
        if k == "enum":
            iv = r.choice([1, 2, 0x7F, 0, 5])
            v = cs.E(iv) if r.random() < 0.7 else r.choice([cs.E.E_A, cs.E.E_B, cs.E.E_C])
            exp = (m.offset, enc(int(v), m.es, order)) if m.offset is not None else None
            return f"obj.{n} = {v!r}", (lambda: setattr(obj, n, v)), "assign", exp
        if k == "float":
            v = r.choice(FLOATS)
            return f"obj.{n} = {v!r}", (lambda: setattr(obj, n, v)), "assign", None
        if k == "nested":
            nm, s, sg, off = r.choice(m.sub)
            v = ival(r, s, sg, getattr(getattr(obj, n), nm))
            exp = (m.offset + off, enc(v, s, order)) if m.offset is not None else None
            # (in a union the nested member is a proxy that rebuilds the union: a member assignment as far as the union is concerned)
            return f"obj.{n}.{nm} = {v:#x}", (lambda: setattr(getattr(obj, n), nm, v)), "assign" if g.union else "in-place", exp
        if k in ("P", "P[]"):
            ch = r.random()
            i = r.randrange(m.count) if k == "P[]" else None
            base = m.offset + (i or 0) * g.psize if m.offset is not None else None
            where = f"obj.{n}" + (f"[{i}]" if k == "P[]" else "")

            def target():
                return getattr(obj, n)[i] if k == "P[]" else getattr(obj, n)

            if ch < 0.75:
                nm, s, sg, c, off = p_field()
                if c:
                    j = r.randrange(c)
                    v = ival(r, s, sg, getattr(target(), nm)[j])
                    exp = (base + off + j * s, enc(v, s, order)) if base is not None else None
                    return f"{where}.{nm}[{j}] = {v:#x}", (lambda: getattr(target(), nm).__setitem__(j, v)), "in-place", exp
                v = ival(r, s, sg, getattr(target(), nm))
                exp = (base + off, enc(v, s, order)) if base is not None else None
                return (f"{where}.{nm} = {v:#x}", (lambda: setattr(target(), nm, v)),
                        "assign" if (g.union and k == "P") else "in-place", exp)
            vals = P_value()
            if k == "P[]":
                return f"{where} = P({vals})", (lambda: getattr(obj, n).__setitem__(i, cs.P(**vals))), "in-place", None
            return f"{where} = P({vals})", (lambda: setattr(obj, n, cs.P(**vals))), "assign", None
        if k == "bit":
            v = r.choice([0, 1, (1 << m.bits) - 1, r.randrange(1 << m.bits)])
            return f"obj.{n} = {v:#x}", (lambda: setattr(obj, n, v)), "assign", None
        if k == "union":
            t, s, sg, cnt = m.wt
            if r.random() < 0.6:
                i = r.randrange(m.count)
                v = ival(r, 1, False, getattr(obj, n).raw[i])
                exp = (m.offset + i, bytes([v])) if (m.offset is not None and m.first) else None
                return f"obj.{n}.raw[{i}] = {v:#x}", (lambda: getattr(obj, n).raw.__setitem__(i, v)), "in-place", exp
            if r.random() < 0.5:
                i = r.randrange(cnt)
                v = ival(r, s, sg, getattr(obj, n).w[i])
                exp = (m.offset + i * s, enc(v, s, order)) if (m.offset is not None and not m.first) else None
                return f"obj.{n}.w[{i}] = {v:#x}", (lambda: getattr(obj, n).w.__setitem__(i, v)), "in-place", exp
            v = ival(r, 2, False, getattr(obj, n).h)
            exp = (m.offset, enc(v, 2, order)) if m.offset is not None else None
            return f"obj.{n}.h = {v:#x}", (lambda: setattr(getattr(obj, n), "h", v)), "in-place", exp
        if k == "cstr":
            v = bytes(r.choice(b"{}%\\ab'\"\x1b\xff\x01") for _ in range(r.choice([0, 1, 3, 15, 16, 17, 33])))
            exp = (m.offset, v + b"\x00") if m.offset is not None else None
            return f"obj.{n} = {v!r}", (lambda: setattr(obj, n, v)), "assign", exp
        if k == "counted":
            cur = getattr(obj, n)
            if r.random() < 0.5 and len(cur) < 40:
                v = ival(r, m.es, m.signed)

                def app():
                    getattr(obj, n).append(v)
                    setattr(obj, m.cn, len(getattr(obj, n)))
                return f"obj.{n}.append({v:#x}); obj.{m.cn} = len(obj.{n})", app, "in-place", None
            vs = [ival(r, m.es, m.signed) for _ in range(r.choice([0, 1, 2, 7, 16]))]

            def asg():
                setattr(obj, n, vs)
                setattr(obj, m.cn, len(vs))
            return f"obj.{n} = {vs}; obj.{m.cn} = {len(vs)}", asg, "assign", None
    return None


# ------------------------------------------------------------------------------------------------ the instances

ORIGINS = ["class-call:bytes", "class-call:bytes", "class-call:bytearray", "class-call:memoryview", "class-call:BytesIO", "class-call:file", "reads",
           "read:BytesIO", "read:bytes", "default-constructed", "api:keywords", "api:positional"]


def plain_copy(v):
    return [plain_copy(e) for e in v] if isinstance(v, list) else v


def make_instance(g, S, raw, origin, rnd):
    if origin == "class-call:bytes":
        return S(raw)
    if origin == "class-call:bytearray":
        return S(bytearray(raw))
    if origin == "class-call:memoryview":
        return S(memoryview(raw))
    if origin == "class-call:BytesIO":
        return S(io.BytesIO(raw))
    if origin == "class-call:file":
        with tempfile.TemporaryFile() as fh:
            fh.write(raw)
            fh.seek(0)
            return S(fh)
    if origin == "reads":
        return S.reads(raw)
    if origin == "read:BytesIO":
        return S.read(io.BytesIO(raw))
    if origin == "read:bytes":
        return S.read(raw)
    if origin == "default-constructed":
        return S()
    twin = S(raw)
    if g.union:
        # one member given (a plain value: integers, lists of them, bytes, text, enum, float)
        ms = [m for m in g.members if m.kind in ("int", "int[]", "int[][]", "char[]", "wchar[]", "enum", "float")]
        if not ms:
            return S()
        m = rnd.choice(ms)
        v = plain_copy(getattr(twin, m.name))
        if origin == "api:positional" and m is g.members[0]:
            return S(v)
        return S(**{m.name: v})
    vals = [getattr(twin, m.name) for m in g.members]
    if origin == "api:positional":
        return S(*vals)
    return S(**{m.name: v for m, v in zip(g.members, vals)})


# ------------------------------------------------------------------------------------------------ the family

def dumpstruct_changed(env, res, U, dc, viol, lines=None, metas=None):
    tier = env["tier"]
    rnd = mkrng(env["seed"], "c19:v10:changed")
    n_cases = 500 if tier == "quick" else 6000
    max_steps = 5 if tier == "quick" else 8
    for idx in range(n_cases):
        union = rnd.random() < 0.55
        endian = rnd.choice(ENDIANS)
        order = "big" if endian in ">!" else "little" if endian == "<" else sys.byteorder
        compiled = rnd.random() < 0.5
        aligned = rnd.random() < 0.2
        g = TypeGen(rnd, order, union, aligned).build()
        origin = ORIGINS[idx % len(ORIGINS)] if idx < 4 * len(ORIGINS) else rnd.choice(ORIGINS)
        offset = rnd.choice([0, 0, 0, 1, 16, 0x1000, 0xFFFFFFF8, 1 << 36, rnd.randrange(1 << 33)])
        data0 = g.data()
        base = {"kind": "dumpstruct", "family": "v10:changed", "definition": g.text, "endian": endian, "compiled": compiled, "aligned": aligned,
                "has_bits": g.has_bits, "has_void": False, "offset": offset, "origin": origin}
        # -- the type, canonical bytes, the instance (parsing / writing / construction belong to other properties: skipped, counted)
        try:
            cs = dc.cstruct(endian=endian)
            cs.load(g.text, compiled=compiled, align=aligned)
            S = cs.S
            raw = S(io.BytesIO(data0 + bytes(rnd.randrange(256) for _ in range(64 if aligned else 0)))).dumps()
            if S(raw).dumps() != raw or not isinstance(raw, bytes):
                raise ValueError("not canonical")
            obj = make_instance(g, S, raw, origin, rnd)
            obj.dumps()
        except Exception as ex:  # noqa: BLE001
            res.feat("v10:changed:skipped:" + type(ex).__name__)
            continue
        api_struct = origin.startswith("api") and not union
        head = "union" if union else "struct"
        res.feat(f"v10:changed:{head}" + ("+aligned" if aligned else ""))
        res.feat("v10:changed:" + ("compiled" if compiled else "interpreted"))
        res.feat("v10:changed:origin=" + origin)
        if union and g.written.kind in ("int[]", "P[]", "int[][]"):
            res.feat("v10:changed:union-written-from-an-array")

        done = []  # the changes so far
        steps = rnd.randint(1, max_steps)
        bad = False
        for step in range(steps + 1):
            exp = None
            kind = "as-made"
            if step:
                try:
                    ch = gen_change(g, cs, obj, rnd)
                except Exception as ex:  # noqa: BLE001   (reading the members of the instance: other properties)
                    res.feat("v10:changed:change-not-generated:" + type(ex).__name__)
                    break
                if ch is None:
                    break
                text, apply, kind, exp = ch
                try:
                    apply()
                except Exception as ex:  # noqa: BLE001   (assignment belongs to other properties; the instance may be half changed: stop here)
                    res.feat("v10:changed:change-rejected:" + type(ex).__name__)
                    break
                done.append(text)
            case0 = dict(base, data=raw.hex(), changes=list(done))
            try:
                now = obj.dumps()
                if not isinstance(now, bytes):
                    raise TypeError("dumps() is not bytes")
            except Exception as ex:  # noqa: BLE001   (an instance that cannot be written has no bytes to show: other properties)
                res.feat("v10:changed:dumps-raises:" + type(ex).__name__)
                break
            res.feat(f"v10:changed:{head}:{kind}")
            if step and now != raw:
                res.feat("v10:changed:bytes-differ-from-the-parsed-ones")
            if len(now) != len(raw):
                res.feat("v10:changed:length-changed")
            try:
                if bytes(obj) != now:
                    viol(f"bytes(instance) and instance.dumps() differ after {done[-3:]}: {bytes(obj).hex()[:80]} / {now.hex()[:80]}", dict(case0, color=False))
                    bad = True
            except Exception as ex:  # noqa: BLE001
                viol(f"bytes(instance) raised {type(ex).__name__}: {str(ex)[:160]} although instance.dumps() works", dict(case0, color=False))
                bad = True
            modes = [(False, "string"), (True, "string")] + ([(rnd.random() < 0.5, "print")] if tier == "quick" else [(False, "print"), (True, "print")])
            outs = {}
            for color, mode in modes:
                case = dict(case0, color=color, output=mode)
                res.count(("v10:changed", g.text, endian, compiled, aligned, raw, origin, tuple(done), offset, color, mode), nontrivial=True)
                try:
                    r, printed = captured(lambda: U.dumpstruct(obj, offset=offset, color=color, output=mode))
                except Exception as ex:  # noqa: BLE001
                    if api_struct and color and isinstance(ex, AttributeError) and "_sizes" in str(ex):
                        res.feat("v10:changed:api-instance:colour:AttributeError-_sizes")  # see the module docstring: reported by v9, excluded
                        continue
                    viol(f"dumpstruct(instance [{origin}] after {done[-3:] or 'no change'}, offset={offset}, color={color}, output={mode!r}) raised "
                         f"{type(ex).__name__}: {str(ex)[:200]} although instance.dumps() gives {len(now)} bytes", case)
                    bad = True
                    continue
                if mode == "print":
                    if r is not None or not printed.endswith("\n"):
                        viol(f"dumpstruct(instance) output='print' returned {norm(repr(r))[:80]} and printed {printed[-30:]!r}", case)
                        bad = True
                        continue
                    t = printed[:-1]
                else:
                    if not isinstance(r, str) or printed:
                        viol(f"dumpstruct(instance) output='string' returned {norm(repr(r))[:80]} and printed {printed[:30]!r}", case)
                        bad = True
                        continue
                    t = r
                outs[(color, mode)] = t
                if not color and "\033" in t:
                    viol(f"dumpstruct(instance) with color=False puts escape sequences into the text: {t[:120]!r}", case)
                    bad = True
                    continue
                # the property: a hex dump of exactly the bytes the instance has NOW, every member with the value it has NOW
                err = v9_c19.text_error(strip(t), S, obj, now, offset)
                if err:
                    viol(f"dumpstruct({head} instance [{origin}] after {done[-3:] or 'no change'}, color={color}, output={mode!r}): {err}; "
                         f"instance.dumps() is {now.hex()[:120]}", case)
                    bad = True
                    continue
                if exp is not None:
                    pos, bs = exp
                    shown = now  # text_error: the hex dump reads back as exactly these bytes
                    if bytes(shown[pos:pos + len(bs)]) != bs:
                        viol(f"after {done[-1]} the hex dump of dumpstruct({head} instance [{origin}], color={color}) shows {bytes(shown[pos:pos + len(bs)]).hex()} "
                             f"at byte {pos}, the new value is encoded as {bs.hex()}", case)
                        bad = True
                        continue
                try:
                    after = obj.dumps()
                except Exception as ex:  # noqa: BLE001
                    after = f"{type(ex).__name__}"
                if after != now:
                    viol(f"dumpstruct(instance) changed the instance: dumps() was {now.hex()[:80]} before the call and is "
                         f"{after.hex()[:80] if isinstance(after, bytes) else after} after it", case)
                    bad = True
            if bad:
                break
            # colour is cosmetic; print prints what string returns
            plain = outs.get((False, "string"))
            for (color, mode), t in outs.items():
                if plain is not None and strip(norm(t)) != norm(plain):
                    viol(f"dumpstruct(instance after {done[-3:] or 'no change'}) color={color} output={mode!r} differs from color=False output='string' "
                         "in more than the colour codes", dict(case0, color=color, output=mode))
                    bad = True
                    break
                if (color, "string") in outs and norm(t) != norm(outs[(color, "string")]):
                    viol(f"dumpstruct(instance) output={mode!r} and output='string' give different texts (color={color})", dict(case0, color=color, output=mode))
                    bad = True
                    break
            # the type + data style shows the same hex dump for these bytes
            if plain is not None and not bad and (tier != "quick" or step == len(done) == steps or rnd.random() < 0.3):
                case = dict(case0, color=False, output="string", form="type+data")
                try:
                    S(now)
                except Exception:  # noqa: BLE001   (bytes that do not parse back: other properties)
                    res.feat("v10:changed:bytes-now-do-not-parse")
                else:
                    res.count(("v10:changed:type+data", g.text, endian, compiled, now, offset))
                    try:
                        t2 = U.dumpstruct(S, rnd.choice([bytes, bytearray, memoryview])(now), offset=offset, color=False, output="string")
                    except Exception as ex:  # noqa: BLE001
                        viol(f"dumpstruct(S, instance.dumps()) raised {type(ex).__name__}: {str(ex)[:200]}", case)
                    else:
                        if not isinstance(t2, str) or t2.split("\n\n")[0] != plain.split("\n\n")[0]:
                            viol("dumpstruct(S, instance.dumps()) and dumpstruct(instance) show different hex dumps for the same bytes", case)
            # the model
            if lines is not None and not bad and rnd.random() < (0.4 if tier == "quick" else 0.5):
                color = rnd.random() < 0.5
                t = outs.get((color, "string"))
                if t is not None:
                    try:
                        line = t6_c19.dumpstruct_model_line(obj, now, offset, color)
                    except Exception:  # noqa: BLE001   a structure the line cannot describe is not sent
                        res.feat("v10:changed:not-sent-to-the-model")
                    else:
                        lines.append(line)
                        metas.append(("dumpstruct", dict(case0, color=color, output="string"), (t,)))
        if idx % 37 == 0:
            res.sample({"definition": g.text, "data": raw.hex(), "origin": origin, "changes": done[:4]}, cap=10)
