"""History-independence probes for C14 (helper of props/c14.py): "the result does not depend on what was parsed, dumped,
constructed or failed before".

A history is a list of steps on ONE cstruct object.  Steps are either *definitional* (they state what the types are: load(),
add_type(), add_type(..., replace=True), Structure.add_field(), cs.endian = ...) or *observational* (everything else: resolve,
attribute access, read, parse, failing parse, default / positional / keyword construction, field assignment on a new instance,
dumps / len / bytes / == / != / hash / repr / bool of instances, sizeof).  Every observation made at position i of a history is
compared with the same operation on a brand-new object that performed only the definitional steps among the first i steps (the
oracle object is never used for a second observation; results are cached by (definitional prefix, operation), which is sound
because the oracle has no other history by construction).  After every step a fixed set of probe observations per type / name is
re-evaluated, so that an operation that leaves anything behind in the object or in a type is seen by the very next probe and the
reported history is short.

Two families:

  alias histories : names bound by add_type() to *names* (chains of up to four links, also through built-in aliases such as DWORD),
                    by typedef text and by structures that use them; inner names are re-pointed with add_type(..., replace=True);
                    resolves / attribute accesses / reads / parses / dumps / failing resolves through the outer names happen before
                    and after every re-pointing.

  type histories  : a structure S, unions U (members declared smallest-first, largest-first or shuffled; fixed arrays, char arrays,
                    nested structures, an anonymous structure member), a structure W that contains U and an array of U, compiled or
                    interpreted; instances are parsed, default / positionally / keyword constructed, assigned to, dumped, measured,
                    compared, hashed and printed; add_field() extends S or U in the middle of a history; failing operations (truncated
                    input, too many / unknown arguments, values that do not fit) are part of the histories.

Values are compared by member *name* (not in the order of the type's field list), so that a deviation is reported for the operation
whose result really differs.
"""
from __future__ import annotations

from . import impl
from .structprops import rand_bytes

# --------------------------------------------------------------------------------------------------------------------
# plain-data views of values
# --------------------------------------------------------------------------------------------------------------------


def named(v, dc, depth=0):
    """a library value as plain data; structure / union members by name"""
    from enum import Enum
    if type(v).__name__ == "UnionProxy":
        v = object.__getattribute__(v, "__target__")
    if isinstance(v, dc.Structure):
        T = type(v)
        kind = "union" if isinstance(v, dc.Union) else "rec"
        if depth > 6:
            return (kind, T.__name__, "...")
        return (kind, T.__name__, tuple((n, named(getattr(v, n, None), dc, depth + 1)) for n in sorted(T.lookup)))
    if isinstance(v, Enum):
        return ("enum", int(v.value))
    if isinstance(v, bool):
        return ("int", int(v))
    if isinstance(v, int):
        return ("int", int(v))
    if isinstance(v, (bytes, bytearray)):
        return ("bytes", bytes(v).hex())
    if isinstance(v, str):
        return ("str", v)
    if isinstance(v, float):
        return ("flt", repr(v))
    if isinstance(v, (list, tuple)):
        return ("list", tuple(named(x, dc, depth + 1) for x in v))
    if v is None:
        return ("none",)
    return ("other", type(v).__name__)


def describe(T):
    """what a resolved name denotes, as plain data (no object identity: it is compared across objects)"""
    out = [T.__name__, T.size, T.alignment, getattr(T, "signed", None)]
    inner = getattr(T, "type", None)
    if inner is not None and isinstance(inner, type):
        out.append(describe(inner))
    lk = getattr(T, "lookup", None)
    if isinstance(lk, dict):
        out.append(tuple(sorted((n, f.type.__name__, f.type.size, f.offset, f.bits) for n, f in lk.items())))
    return tuple(out)


def short(x, n=260):
    t = repr(x)
    return t if len(t) <= n else t[:n] + "..."


# --------------------------------------------------------------------------------------------------------------------
# steps: plain tuples, executable (`perform`) and printable as Python source (`py`)
# --------------------------------------------------------------------------------------------------------------------
DEFINITIONAL = ("new", "load", "add_type", "add_field", "endian")


def realise(cs, spec):
    """value specification -> a value of this cstruct object: ("v", plain) | ("struct", type name, ((member, spec), ...))"""
    if spec[0] == "v":
        v = spec[1]
        return list(v) if isinstance(v, tuple) else v
    return getattr(cs, spec[1])(**{n: realise(cs, s) for n, s in spec[2]})


def spec_py(spec):
    if spec[0] == "v":
        v = spec[1]
        return repr(list(v) if isinstance(v, tuple) else v)
    return f"cs.{spec[1]}(" + ", ".join(f"{n}={spec_py(s)}" for n, s in spec[2]) + ")"


def build(cs, b):
    """an instance from a builder: ("parse", T, data) | ("default", T) | ("pos", T, specs) | ("kw", T, ((name, spec), ...))"""
    T = getattr(cs, b[1])
    if b[0] == "parse":
        return T(b[2])
    if b[0] == "default":
        return T()
    if b[0] == "pos":
        return T(*[realise(cs, s) for s in b[2]])
    if b[0] == "kw":
        return T(**{n: realise(cs, s) for n, s in b[2]})
    raise ValueError(b[0])


def build_py(b):
    if b[0] == "parse":
        return f"cs.{b[1]}(bytes.fromhex({b[2].hex()!r}))"
    if b[0] == "default":
        return f"cs.{b[1]}()"
    if b[0] == "pos":
        return f"cs.{b[1]}(" + ", ".join(spec_py(s) for s in b[2]) + ")"
    return f"cs.{b[1]}(" + ", ".join(f"{n}={spec_py(s)}" for n, s in b[2]) + ")"


INST_OPS = {
    "dumps": lambda x, y: x.dumps().hex(),
    "len": lambda x, y: len(x),
    "bytes": lambda x, y: bytes(x).hex(),
    "hash": lambda x, y: hash(x),
    "repr": lambda x, y: repr(x),
    "bool": lambda x, y: bool(x),
    "eq": lambda x, y: x == y,
    "ne": lambda x, y: x != y,
}
INST_PY = {"dumps": "{x}.dumps()", "len": "len({x})", "bytes": "bytes({x})", "hash": "hash({x})", "repr": "repr({x})", "bool": "bool({x})",
           "eq": "{x} == {y}", "ne": "{x} != {y}"}


def _perform(cs, step, dc):
    k = step[0]
    # ---- definitional
    if k == "load":
        cs.load(step[1], **dict(step[2]))
        return None
    if k == "add_type":
        tgt = step[2]
        cs.add_type(step[1], tgt[1] if tgt[0] == "ref" else cs.typedefs[tgt[1]], **({"replace": True} if step[3] else {}))
        return None
    if k == "add_field":
        getattr(cs, step[1]).add_field(step[2], cs.typedefs[step[3]] if step[4] is None else cs.typedefs[step[3]][step[4]])
        return None
    if k == "endian":
        cs.endian = step[1]
        return None
    # ---- observational
    if k == "resolve":
        return describe(cs.resolve(step[1]))
    if k == "attr":
        return describe(getattr(cs, step[1]))
    if k == "sizeof":
        return len(cs.resolve(step[1]))
    if k == "read":
        return named(cs.read(step[1], step[2]), dc)
    if k == "call":       # parse through a resolved name
        v = cs.resolve(step[1])(step[2])
        return (named(v, dc), v.dumps().hex())
    if k == "array":
        v = cs.resolve(step[1])[step[2]](step[3])
        return (named(v, dc), v.dumps().hex())
    if k == "dumpval":
        return cs.resolve(step[1])(step[2]).dumps().hex()
    if k == "make":       # build an instance; its value and its bytes
        v = build(cs, step[1])
        try:
            d = v.dumps().hex()
        except Exception as e:  # noqa: BLE001
            d = "error " + type(e).__name__
        return (named(v, dc), d)
    if k == "assign":     # build an instance, assign members, observe
        v = build(cs, step[1])
        for n, s in step[2]:
            setattr(v, n, realise(cs, s))
        try:
            d = v.dumps().hex()
        except Exception as e:  # noqa: BLE001
            d = "error " + type(e).__name__
        return (named(v, dc), d)
    if k == "inst":       # an operation on one or two instances
        x = build(cs, step[2])
        y = build(cs, step[3]) if len(step) > 3 and step[3] is not None else None
        return INST_OPS[step[1]](x, y)
    raise ValueError(k)


def perform(cs, step, dc):
    try:
        return ("ok", _perform(cs, step, dc))
    except Exception as e:  # noqa: BLE001
        return ("err", type(e).__name__)


def py(step, show=False) -> str:
    """the step as Python source (show: print what is observed)"""
    k = step[0]
    if k == "new":
        return f"cs = cstruct(endian={step[1]!r})"
    if k == "load":
        opts = "".join(f", {a}={b}" for a, b in step[2])
        return f"cs.load({step[1]!r}{opts})"
    if k == "add_type":
        tgt = repr(step[2][1]) if step[2][0] == "ref" else f"cs.typedefs[{step[2][1]!r}]"
        return f"cs.add_type({step[1]!r}, {tgt}{', replace=True' if step[3] else ''})"
    if k == "add_field":
        idx = f"[{step[4]}]" if step[4] is not None else ""
        return f"cs.{step[1]}.add_field({step[2]!r}, cs.typedefs[{step[3]!r}]{idx})"
    if k == "endian":
        return f"cs.endian = {step[1]!r}"
    # observations that yield an instance: the value and its bytes are observed
    inst = None
    if k == "call":
        inst = f"x = cs.resolve({step[1]!r})(bytes.fromhex({step[2].hex()!r}))"
    elif k == "array":
        inst = f"x = cs.resolve({step[1]!r})[{step[2]}](bytes.fromhex({step[3].hex()!r}))"
    elif k == "make":
        inst = f"x = {build_py(step[1])}"
    elif k == "assign":
        inst = f"x = {build_py(step[1])}; " + "; ".join(f"x.{n} = {spec_py(s)}" for n, s in step[2])
    if inst is not None:
        return inst + ("; print(x, x.dumps())" if show else "; x.dumps()")
    if k == "resolve":
        e = f"cs.resolve({step[1]!r})"
    elif k == "attr":
        e = f"cs.{step[1]}"
    elif k == "sizeof":
        e = f"len(cs.resolve({step[1]!r}))"
    elif k == "read":
        e = f"cs.read({step[1]!r}, bytes.fromhex({step[2].hex()!r}))"
    elif k == "dumpval":
        e = f"cs.resolve({step[1]!r})({step[2]!r}).dumps()"
    elif k == "inst":
        e = INST_PY[step[1]].format(x=build_py(step[2]), y=build_py(step[3]) if len(step) > 3 and step[3] is not None else "")
    else:
        raise ValueError(k)
    return f"print({e})" if show else e


def script(steps, last=None) -> str:
    """a standalone script; earlier observations that fail are wrapped so that the script goes on like the history did"""
    lines = ["from dissect.cstruct import cstruct"]
    for s in steps:
        if s[0] == "new":
            lines.append(py(s))
        else:
            lines.append("try: " + py(s) + "\nexcept Exception: pass")
    if last is not None:
        lines.append(py(last, show=True))
    return "\n".join(lines)


class History:
    """one cstruct object with its recorded steps, and the history-free oracle"""

    def __init__(self, ctx, endian, family):
        self.ctx, self.family = ctx, family
        self.dc = ctx.dc
        self.steps = [("new", endian)]
        self.cs = self.dc.cstruct(endian=endian)
        self.failed = False

    def defs_only(self):
        return [s for s in self.steps if s[0] in DEFINITIONAL]

    def fresh(self, op):
        """the result of `op` on a new object that performed only the definitional steps so far"""
        dsteps = self.defs_only()
        key = repr((dsteps, op))
        cache = self.ctx.cache
        if key not in cache:
            cs = self.dc.cstruct(endian=dsteps[0][1])
            for s in dsteps[1:]:
                perform(cs, s, self.dc)
            cache[key] = perform(cs, op, self.dc)
            self.ctx.res.feat(f"t4:{self.family}:fresh-object")
        return cache[key]

    def define(self, step):
        """a definitional step: its outcome (accepted / which error) may not depend on earlier observations either"""
        want = self.fresh(step)     # `step` performed on a fresh object after the same definitional prefix
        got = perform(self.cs, step, self.dc)
        self.ctx.res.feat(f"t4:{self.family}:def:{step[0]}" + (":replace" if step[0] == "add_type" and step[3] else "") + (":" + got[1] if got[0] == "err" else ""))
        if got != want:
            self.report(step, got, want, "definitional step")
        self.steps.append(step)
        return got

    def observe(self, op, what=""):
        got = perform(self.cs, op, self.dc)
        want = self.fresh(op)
        tag = op[0] + (":" + op[1] if op[0] == "inst" else ":" + op[1][0] if op[0] in ("make", "assign") else "")
        self.ctx.res.feat(f"t4:{self.family}:obs:{tag}" + (":error" if got[0] == "err" else ""))
        ok = repr(got) == repr(want)
        if not ok:
            self.report(op, got, want, what or "observation")
        self.steps.append(op)     # probes included: they are part of what happened to this object
        return ok

    def report(self, op, got, want, what):
        self.failed = True
        nobs = sum(1 for s in self.steps if s[0] not in DEFINITIONAL)
        self.ctx.viol(f"{what} `{py(op)[:200]}` gives <{short(got[1]) if got[0] == 'ok' else 'error ' + got[1]}> after a history with {nobs} earlier "
                      f"resolves/parses/dumps/constructions; the same object history without them gives "
                      f"<{short(want[1]) if want[0] == 'ok' else 'error ' + want[1]}>",
                      {"family": "t4:" + self.family, "operation": py(op), "after_history": short(got, 2000), "without_earlier_observations": short(want, 2000),
                       "history_script": script(self.steps, op), "fresh_script": script(self.defs_only(), op)})


class Ctx:
    def __init__(self, env, res, viol, rnd):
        self.env, self.res, self.viol, self.rnd = env, res, viol, rnd
        self.dc = impl.dc()
        self.cache = {}


# --------------------------------------------------------------------------------------------------------------------
# family 1: alias histories
# --------------------------------------------------------------------------------------------------------------------
BASES = ["uint8", "uint16", "uint32", "uint64", "int16", "int32", "int8", "uint24", "int64"]
BUILTIN_ALIASES = ["DWORD", "WORD", "BYTE", "ULONG"]      # names that are references (strings) in a new object
INNER = ["word_t", "len_t"]
OUTER = ["id_t", "off_t", "key_t", "idx_t"]


def alias_history(ctx):
    rnd, res = ctx.rnd, ctx.res
    h = History(ctx, rnd.choice("<>"), "alias")
    data = rand_bytes(rnd, 40)
    bound = []          # user names bound so far, inner ones first
    structs = []
    nstruct = 0

    def target_for(name):
        """a target for `name`: a base type (by name or as object), a built-in alias, or — outer names — a user name that was bound
        before it (so that no cycle arises)"""
        r = rnd.random()
        if name in OUTER:
            pool = bound[: bound.index(name)] if name in bound else list(bound)
            if pool and r < 0.75:
                return ("ref", rnd.choice(pool))
        if name in BUILTIN_ALIASES:
            return ("ref", rnd.choice(BASES)) if r < 0.7 else ("obj", rnd.choice(BASES))
        if r < 0.15:
            return ("ref", rnd.choice(BUILTIN_ALIASES))
        if r < 0.3:
            return ("obj", rnd.choice(BASES))
        return ("ref", rnd.choice(BASES))

    repointed = []      # built-in aliases that were re-pointed

    def probes():
        ok = True
        for n in bound + repointed:
            ok = h.observe(("call", n, data), "probe parse") and ok
        for s in structs:
            ok = h.observe(("make", ("parse", s, data)), "probe parse") and ok
        return ok

    # the opening: an inner name and an outer name that refers to it
    inner = rnd.choice(INNER)
    h.define(("add_type", inner, ("ref", rnd.choice(BASES)), False))
    bound.append(inner)
    outer = rnd.choice(OUTER)
    if rnd.random() < 0.7:
        h.define(("add_type", outer, ("ref", inner), False))
    else:
        h.define(("load", f"typedef {inner} {outer};", ()))
    bound.append(outer)
    nsteps = rnd.randint(8, 18)
    for i in range(nsteps):
        r = rnd.random()
        probe_now = i == nsteps - 1
        if r < 0.2:
            # re-point a bound name (or a built-in alias) to another target
            name = rnd.choice([b for b in bound if b in INNER] * 3 + bound + BUILTIN_ALIASES[:2])
            step = ("add_type", name, target_for(name), rnd.random() < 0.85)
            h.define(step)
            if name in BUILTIN_ALIASES and name not in repointed:
                repointed.append(name)
            probe_now = True
        elif r < 0.3:
            free = [n for n in INNER + OUTER if n not in bound]
            if free:
                name = rnd.choice(free)
                if rnd.random() < 0.8:
                    h.define(("add_type", name, target_for(name), False))
                else:
                    tgt = target_for(name)[1]
                    h.define(("load", f"typedef {tgt} {name};", ()))
                if name in h.cs.typedefs:
                    bound.append(name) if name in OUTER else bound.insert(0, name)
        elif r < 0.4 and nstruct < 2:
            # a structure whose members are declared through the names
            probe_now = True
            nstruct += 1
            sname = f"rec{nstruct}"
            members = []
            for j in range(rnd.randint(1, 4)):
                t = rnd.choice(bound + bound + BUILTIN_ALIASES[:2] + ["uint8"])
                members.append(f"{t} m{j}{rnd.choice(['', '', '', '[2]'])};")
            got = h.define(("load", f"struct {sname} {{ {' '.join(members)} }};", (("compiled", rnd.random() < 0.5),)))
            if got[0] == "ok":
                structs.append(sname)
        elif r < 0.45:
            h.define(("endian", rnd.choice("<>")))
        else:
            name = rnd.choice(bound + bound + BUILTIN_ALIASES[:2] + structs)
            k = rnd.choice(["resolve", "attr", "read", "call", "sizeof", "array", "dumpval", "truncated", "unknown"])
            if k in ("resolve", "attr", "sizeof"):
                op = (k, name)
            elif k in ("read", "call"):
                op = (k, name, rand_bytes(rnd, 24))
            elif k == "array":
                op = ("array", name, rnd.randint(1, 3), rand_bytes(rnd, 40))
            elif k == "dumpval":
                if name in structs:
                    continue
                op = ("dumpval", name, rnd.choice([0, 1, 0x7F, 0x1234, 0x12345678, 255]))
            elif k == "truncated":
                op = ("call", name, b"")
            else:
                op = ("resolve", rnd.choice(["nosuch_t", "id_t2", "word"]))
            h.observe(op)
        res.count(("t4:alias", tuple(map(repr, h.steps))), len(h.steps) >= 4)
        if h.failed or (probe_now and not probes()):
            return
    res.feat("t4:alias:history-completed")


# --------------------------------------------------------------------------------------------------------------------
# family 2: type histories (structures and unions)
# --------------------------------------------------------------------------------------------------------------------
INTS = {"uint8": (1, False), "uint16": (2, False), "uint32": (4, False), "uint64": (8, False), "int8": (1, True), "int16": (2, True), "int32": (4, True),
        "uint24": (3, False)}


def gen_member_types(rnd, nested, n, union):
    """n member types: ("int", t) | ("chars", k) | ("arr", t, k) | ("struct", name) | ("bits", t, width)"""
    out = []
    for _ in range(n):
        r = rnd.random()
        if r < 0.5:
            out.append(("int", rnd.choice(list(INTS))))
        elif r < 0.6:
            out.append(("chars", rnd.randint(1, 5)))
        elif r < 0.75:
            out.append(("arr", rnd.choice(["uint8", "uint16", "uint32", "int16"]), rnd.randint(1, 3)))
        elif r < 0.9 and nested:
            out.append(("struct", rnd.choice(nested)))
        elif not union:
            t = rnd.choice(["uint8", "uint16", "uint32"])
            w = rnd.randint(1, INTS[t][0] * 8 - 1)
            out += [("bits", t, w), ("bits", t, INTS[t][0] * 8 - w)]
        else:
            out.append(("int", rnd.choice(list(INTS))))
    return out


def msize(m, model):
    if m[0] == "int":
        return INTS[m[1]][0]
    if m[0] == "chars":
        return m[1]
    if m[0] == "arr":
        return INTS[m[1]][0] * m[2]
    if m[0] == "bits":
        return INTS[m[1]][0]
    kind, members = model[m[1]]
    sizes = [msize(x, model) for _, x in members]
    return max(sizes) if kind == "union" else sum(sizes)


def mtext(name, m):
    if m[0] == "int":
        return f"{m[1]} {name};"
    if m[0] == "chars":
        return f"char {name}[{m[1]}];"
    if m[0] == "arr":
        return f"{m[1]} {name}[{m[2]}];"
    if m[0] == "bits":
        return f"{m[1]} {name} : {m[2]};"
    if m[0] == "uarr":
        return f"{m[1]} {name}[{m[2]}];"
    return f"{m[1]} {name};"


def mvalue(rnd, m, model, depth=0):
    """a value specification that fits the member type"""
    if m[0] in ("int", "bits"):
        size, signed = INTS[m[1]]
        bits = m[2] if m[0] == "bits" else size * 8
        hi = (1 << (bits - (1 if signed else 0))) - 1
        v = rnd.choice([0, 1, 0x11 & hi, hi, rnd.randint(0, hi), rnd.randint(0, hi)])
        if signed and m[0] == "int" and rnd.random() < 0.3:
            v = -v
        return ("v", v)
    if m[0] == "chars":
        return ("v", bytes(rnd.choice(b"abcxyz\x00\xff") for _ in range(m[1])))
    if m[0] == "arr":
        size, signed = INTS[m[1]]
        return ("v", tuple(rnd.randint(0, (1 << (size * 8 - 1)) - 1) for _ in range(m[2])))
    kind, members = model[m[1]]
    named_members = [(n, x) for n, x in members if n is not None and x[0] != "uarr"]
    if kind == "union" or depth > 1:
        n, x = rnd.choice(named_members)
        return ("struct", m[1], ((n, mvalue(rnd, x, model, depth + 1)),))
    pick = [(n, x) for n, x in named_members if rnd.random() < 0.7] or named_members[:1]
    return ("struct", m[1], tuple((n, mvalue(rnd, x, model, depth + 1)) for n, x in pick))


def gen_universe(rnd):
    """-> text, model {type name: (kind, [(member name | None, member type)])}, types to exercise"""
    model = {}
    parts = []

    def add(kind, name, members):
        model[name] = (kind, members)
        parts.append(f"{kind} {name} {{ " + " ".join(mtext(n, m) for n, m in members) + " };")

    add("struct", "N", [(f"p{i}", m) for i, m in enumerate(gen_member_types(rnd, [], rnd.randint(1, 3), True))])
    nested = ["N"]
    if rnd.random() < 0.5:
        add("struct", "M", [(f"q{i}", m) for i, m in enumerate(gen_member_types(rnd, ["N"], rnd.randint(1, 2), True) + [("struct", "N")])])
        nested.append("M")
    add("struct", "S", [(f"a{i}", m) for i, m in enumerate(gen_member_types(rnd, nested, rnd.randint(2, 6), False))])
    use = ["S"]
    for uname in ["U", "V"][: rnd.randint(1, 2)]:
        ms = gen_member_types(rnd, nested, rnd.randint(2, 4), True)
        order = rnd.random()
        if order < 0.55:
            ms.sort(key=lambda m: msize(m, model))                    # smallest first
        elif order < 0.7:
            ms.sort(key=lambda m: msize(m, model), reverse=True)      # largest first
        add("union", uname, [(f"{uname.lower()}{i}", m) for i, m in enumerate(ms)])
        use.append(uname)
    # a structure that contains the union (and an array of it)
    wm = [("k", ("int", "uint8")), ("u", ("struct", "U")), ("t", ("int", "uint16"))]
    if rnd.random() < 0.5:
        wm.append(("us", ("uarr", "U", 2)))
    add("struct", "W", wm)
    use.append("W")
    if rnd.random() < 0.4:
        # a union with an anonymous structure member, smaller members first
        text = "union X { uint8 x0; struct { uint8 xa; uint16 xb; }; uint32 x1; };"
        parts.append(text)
        model["X"] = ("union", [("x0", ("int", "uint8")), ("x1", ("int", "uint32"))])
        use.append("X")
    return "\n".join(parts), model, use


def gen_builder(rnd, model, T, data):
    kind, members = model[T]
    usable = [(n, m) for n, m in members if n is not None and m[0] != "uarr"]
    r = rnd.random()
    if r < 0.3:
        return ("parse", T, rand_bytes(rnd, 64) if rnd.random() < 0.7 else data)
    if r < 0.4:
        return ("default", T)
    if r < 0.75:
        # positional: values for the first k members in declaration order
        k = rnd.randint(1, len(usable)) if kind != "union" or rnd.random() < 0.3 else 1
        if T == "X":
            k = 1
        return ("pos", T, tuple(mvalue(rnd, m, model) for _, m in usable[:k]))
    pick = [x for x in usable if rnd.random() < 0.5] or [rnd.choice(usable)]
    if kind == "union":
        pick = [rnd.choice(usable)]
    return ("kw", T, tuple((n, mvalue(rnd, m, model)) for n, m in pick))


def type_history(ctx):
    rnd, res = ctx.rnd, ctx.res
    text, model, use = gen_universe(rnd)
    h = History(ctx, rnd.choice("<>"), "type")
    compiled = rnd.random() < 0.5
    h.define(("load", text, (("compiled", compiled),)))
    if h.failed:
        return
    data = rand_bytes(rnd, 64)
    nadd = 0
    for T in use:
        kind, members = model[T]
        res.feat("t4:type:" + kind)
        if kind == "union":
            sizes = [msize(m, model) for _, m in members]
            res.feat("t4:type:union-" + ("smallest-first" if sizes[0] < max(sizes) else "largest-first"))

    probe_ops = {}

    def make_probes(T):
        kind, members = model[T]
        usable = [(n, m) for n, m in members if n is not None and m[0] != "uarr"]
        ops = [("make", ("parse", T, data))]
        if T != "W":
            ops.append(("make", ("pos", T, (mvalue(rnd, usable[0][1], model),))))
            if kind != "union" and len(usable) > 1:
                ops.append(("make", ("pos", T, tuple(mvalue(rnd, m, model) for _, m in usable))))
            else:
                ops.append(("make", ("kw", T, ((usable[-1][0], mvalue(rnd, usable[-1][1], model)),))))
        probe_ops[T] = ops

    for T in use:
        make_probes(T)

    def probes():
        ok = True
        for T in use:
            for op in probe_ops[T]:
                ok = h.observe(op, "probe") and ok
                if not ok:
                    return False
        return ok

    if not probes():
        return
    for _ in range(rnd.randint(8, 16)):
        T = rnd.choice(use)
        kind, members = model[T]
        usable = [(n, m) for n, m in members if n is not None and m[0] != "uarr"]
        r = rnd.random()
        if r < 0.07 and T in ("S", "U", "V") and nadd < 3:
            # add_field in the middle of the history: a scalar, or an array (larger than everything else for a union half of the time)
            nadd += 1
            fname = f"z{nadd}"
            if rnd.random() < 0.5:
                t = rnd.choice(["uint8", "uint16", "uint64"])
                m, step = ("int", t), ("add_field", T, fname, t, None)
            else:
                t, k = rnd.choice(["uint16", "uint32"]), rnd.choice([2, 5, 9])
                m, step = ("arr", t, k), ("add_field", T, fname, t, k)
            got = h.define(step)
            if got[0] == "ok":
                members.append((fname, m))
                make_probes(T)
        elif r < 0.12:
            h.define(("endian", rnd.choice("<>")))
        elif r < 0.45:
            # dumps / len / bytes / == / != / hash / repr / bool of an instance
            opn = rnd.choice(["dumps", "dumps", "len", "bytes", "eq", "eq", "ne", "hash", "repr", "bool"])
            b1 = gen_builder(rnd, model, T, data)
            b2 = gen_builder(rnd, model, T, data) if opn in ("eq", "ne") else None
            if b2 is not None and rnd.random() < 0.3:
                b2 = b1
            h.observe(("inst", opn, b1, b2))
        elif r < 0.75:
            h.observe(("make", gen_builder(rnd, model, T, data)))
        elif r < 0.85:
            b = gen_builder(rnd, model, T, data)
            pick = [rnd.choice(usable)]
            h.observe(("assign", b, tuple((n, mvalue(rnd, m, model)) for n, m in pick)))
        elif r < 0.9:
            h.observe(("sizeof", T))
        else:
            # operations that fail: truncated input, too many / unknown arguments, a value that does not fit
            k = rnd.choice(["short", "toomany", "unknown", "overflow"])
            if k == "short":
                op = ("make", ("parse", T, data[: rnd.randint(0, 2)]))
            elif k == "toomany":
                op = ("make", ("pos", T, tuple(("v", 1) for _ in range(len(members) + 2))))
            elif k == "unknown":
                op = ("make", ("kw", T, (("nosuchmember", ("v", 1)),)))
            else:
                n, m = usable[0]
                op = ("inst", "dumps", ("kw", T, ((n, ("v", 1 << 70)),)), None)
            h.observe(op)
        res.count(("t4:type", tuple(map(repr, h.steps))), len(h.steps) >= 4)
        if h.failed or not probes():
            return
    res.feat("t4:type:history-completed")


def run(env, res, viol, rnd, n_alias, n_type):
    ctx = Ctx(env, res, viol, rnd)
    for _ in range(n_alias):
        alias_history(ctx)
        ctx.cache.clear()
    for _ in range(n_type):
        type_history(ctx)
        ctx.cache.clear()


def replay(case) -> int:
    """re-run the two recorded scripts of a t4 case on the current tree: 1 = the observation still depends on the history"""
    import contextlib
    import io
    impl.dc()
    outs = []
    for key in ("history_script", "fresh_script"):
        buf = io.StringIO()
        with contextlib.redirect_stdout(buf):
            try:
                exec(compile(case[key], key, "exec"), {})  # noqa: S102
            except Exception as e:  # noqa: BLE001
                print("error", type(e).__name__)
        outs.append(buf.getvalue())
    print("after the history :", outs[0].strip()[:400])
    print("without it        :", outs[1].strip()[:400])
    if outs[0] != outs[1]:
        print("still fails: the observation depends on the earlier operations")
        return 1
    print("the case passes on this tree")
    return 0
