"""Translation validation for the source-generating compiler (C03).

`parse_source` turns the Python source that the real compiler generated (`T._read.__func__.__source__`) into a plan: a
list of instructions over a tiny instruction set.  `validate` symbolically executes the plan against the field list and
the layout, checking that every field is read at the position, with the decoder, and with the recorded size that the
interpreted reader (`StructureMetaType._read`) uses.  A source with a statement shape that is not one of the known ones
is reported (`Unknown`), never guessed at.

plan instructions
  ("seek", n)                      stream.seek(o + n)
  ("align", a | "cls")             stream.seek(-stream.tell() & (a - 1), SEEK_CUR)
  ("block", size, fmt, slots)      buf = stream.read(size); length check; data = unpack(fmt, buf); slots
      slot = {"name", "src": ("buf", a, b) | ("data", i, j|None), "decode": str, "size": int}
  ("sub", name)                    r[name] = _k._read(stream, context=r); s[name] = consumed
  ("bitsreset",)                   bit_reader.reset()
  ("bits", name, nbits, via)       r[name] = type.__call__(_t, bit_reader.read(<via>, nbits)); via in {"self", "base", "token"}
"""
from __future__ import annotations

import ast
import re
import struct

from . import defs, refimpl


class Unknown(Exception):
    pass


PRE = ["r = {}", "s = {}", "o = stream.tell()"]
OUTRO = ["obj = type.__call__(cls, **r)", "obj._sizes = s", "obj._values = r", "return obj"]


def _lines(src: str) -> list[str]:
    body = src.split("\n")
    if not body[0].startswith("def _read(cls, stream, context=None):"):
        raise Unknown("unexpected function header")
    return [l.strip() for l in body[1:] if l.strip()]


def parse_source(src: str):
    ls = _lines(src)
    # the three statements of the preamble are independent of each other: any order is the same program
    if len(ls) < len(PRE) or sorted(ls[: len(PRE)]) != sorted(PRE):
        raise Unknown(f"preamble: expected {PRE!r} (in any order), found {ls[:len(PRE)]!r}")
    del ls[: len(PRE)]
    if ls and ls[0] == "bit_reader = BitBuffer(stream, cls.cs.endian)":
        ls.pop(0)
    # outro: `<v> = type.__call__(cls, **r)`, then `<v>._sizes = s` and `<v>._values = r` in either order, then `return <v>`
    if len(ls) < 4:
        raise Unknown("outro: too short")
    tail = ls[-4:]
    m = re.fullmatch(r"(\w+) = type\.__call__\(cls, \*\*r\)", tail[0])
    if not m or m.group(1) in ("r", "s", "o", "cls", "stream", "context") or tail[3] != f"return {m.group(1)}" \
            or sorted(tail[1:3]) != sorted([f"{m.group(1)}._sizes = s", f"{m.group(1)}._values = r"]):
        raise Unknown(f"outro: expected {OUTRO!r} (the two attribute assignments in either order, any local name), found {tail!r}")
    del ls[-4:]
    plan = []
    i = 0
    while i < len(ls):
        l = ls[i]
        m = re.fullmatch(r"stream\.seek\(o \+ (\d+)\)", l)
        if m:
            plan.append(("seek", int(m.group(1))))
            i += 1
            continue
        m = re.fullmatch(r"stream\.seek\(-stream\.tell\(\) & \((\d+|cls\.alignment) - 1\), 1\)", l)
        if m:
            plan.append(("align", "cls" if m.group(1) == "cls.alignment" else int(m.group(1))))
            i += 1
            continue
        if l == "bit_reader.reset()":
            plan.append(("bitsreset",))
            i += 1
            continue
        if l == "_s = stream.tell()":
            m = re.fullmatch(r'r\["([^"]+)"\] = _(\d+)\._read\(stream, context=r\)', ls[i + 1])
            m2 = re.fullmatch(r's\["([^"]+)"\] = stream\.tell\(\) - _s', ls[i + 2])
            if not (m and m2 and m.group(1) == m2.group(1)):
                raise Unknown(f"sub-read: {ls[i:i+3]}")
            plan.append(("sub", m.group(1)))
            i += 3
            continue
        m = re.fullmatch(r"_t = (_\d+|cls\.cs\.uint8)", l)
        if m and i + 1 < len(ls):
            m2 = re.fullmatch(r'r\["([^"]+)"\] = type\.__call__\(_t, bit_reader\.read\((_t|_t\.type|_\d+), (\d+)\)\)', ls[i + 1])
            if m2:
                via = {"_t": "self", "_t.type": "base"}.get(m2.group(2), "token")
                if via == "token" and m.group(1) != "cls.cs.uint8":
                    raise Unknown(f"bit read through a token without the uint8 wrapper: {ls[i:i+2]}")
                if via != "token" and m.group(1) == "cls.cs.uint8":
                    raise Unknown(f"bit read: {ls[i:i+2]}")
                plan.append(("bits", m2.group(1), int(m2.group(3)), via))
                i += 2
                continue
        m = re.fullmatch(r"buf = stream\.read\((\d+)\)", l)
        if m:
            size = int(m.group(1))
            if ls[i + 1] != f"if len(buf) != {size}: raise EOFError()":
                raise Unknown(f"block without its length check: {ls[i+1]!r}")
            i += 2
            fmt = None
            m = re.fullmatch(r'data = _struct\(cls\.cs\.endian, "([^"]*)"\)\.unpack\(buf\)', ls[i]) if i < len(ls) else None
            if m:
                fmt = m.group(1)
                i += 1
            slots = []
            while i < len(ls):
                slot, used = _slot(ls, i)
                if slot is None:
                    break
                slots.append(slot)
                i += used
            plan.append(("block", size, fmt, slots))
            continue
        raise Unknown(f"statement: {l!r}")
    return plan


SRC = r"(buf\[(\d+):(\d+)\]|data\[(\d+)\]|data\[(\d+):(\d+)\])"


def _src(m, base):
    """decode the getter groups starting at group index `base`"""
    if m.group(base + 1) is not None:
        return ("buf", int(m.group(base + 1)), int(m.group(base + 2)))
    if m.group(base + 3) is not None:
        return ("data", int(m.group(base + 3)), None)
    return ("data", int(m.group(base + 4)), int(m.group(base + 5)))


def _slot(ls, i):
    l = ls[i]

    def size_line(j, name):
        m = re.fullmatch(r's\["([^"]+)"\] = (\d+)', ls[j]) if j < len(ls) else None
        if not m or m.group(1) != name:
            raise Unknown(f"slot without its size line: {ls[i:j+1]}")
        return int(m.group(2))

    # scalar / char array / wchar / int:  r["n"] = type.__call__(_k, <src>)   or   r["n"] = _k(<src>)
    m = re.fullmatch(r'r\["([^"]+)"\] = type\.__call__\(_(\d+), ' + SRC + r"\)", l)
    if m:
        return {"name": m.group(1), "src": _src(m, 3), "decode": "init", "size": size_line(i + 1, m.group(1))}, 2
    m = re.fullmatch(r'r\["([^"]+)"\] = _(\d+)\(' + SRC + r"\)", l)
    if m:
        return {"name": m.group(1), "src": _src(m, 3), "decode": "parse", "size": size_line(i + 1, m.group(1))}, 2
    # pointer: _pt = _k ; r["n"] = _pt.__new__(_pt, <src>, stream, r)
    if re.fullmatch(r"_pt = _\d+", l):
        m = re.fullmatch(r'r\["([^"]+)"\] = _pt\.__new__\(_pt, ' + SRC + r", stream, r\)", ls[i + 1])
        if not m:
            raise Unknown(f"pointer slot: {ls[i:i+2]}")
        return {"name": m.group(1), "src": _src(m, 2), "decode": "pointer", "size": size_line(i + 2, m.group(1))}, 3
    # arrays: _t = _k ; _et = _t.type ; [ _b = buf[a:b] ; ] r["n"] = type.__call__(_t, [<item> for ...])
    if re.fullmatch(r"_t = _\d+", l) and i + 1 < len(ls) and ls[i + 1] == "_et = _t.type":
        j = i + 2
        mb = re.fullmatch(r"_b = buf\[(\d+):(\d+)\]", ls[j])
        if mb:
            m = re.fullmatch(r'r\["([^"]+)"\] = type\.__call__\(_t, \[_et\(_b\[i:i \+ (\d+)\]\) for i in range\(0, (\d+), (\d+)\)\]\)', ls[j + 1])
            if not m or m.group(2) != m.group(4):
                raise Unknown(f"int array slot: {ls[i:j+2]}")
            a, b = int(mb.group(1)), int(mb.group(2))
            if b - a != int(m.group(3)):
                raise Unknown("int array slot: range and slice disagree")
            return {"name": m.group(1), "src": ("buf", a, b), "decode": ("intarray", int(m.group(2))), "size": size_line(j + 2, m.group(1))}, j + 3 - i
        m = re.fullmatch(r'r\["([^"]+)"\] = type\.__call__\(_t, \[(type\.__call__\(_et, e\)|_et\(e\)|_et\.__new__\(_et, e, stream, r\)) for e in ' + SRC + r"\]\)", ls[j])
        if m:
            kind = {"type.__call__(_et, e)": "initarray", "_et(e)": "parsearray"}.get(m.group(2), "pointerarray")
            return {"name": m.group(1), "src": _src(m, 3), "decode": kind, "size": size_line(j + 1, m.group(1))}, j + 2 - i
        raise Unknown(f"array slot: {ls[i:j+1]}")
    return None, 0


def fmt_items(fmt: str):
    """expand a struct format (no byte-order prefix) into [(char, offset, size)] for every non-padding item, and the total size"""
    items = []
    off = 0
    for cnt, ch in re.findall(r"(\d*)([a-zA-Z])", fmt):
        n = int(cnt) if cnt else 1
        if ch == "x":
            off += n
            continue
        sz = struct.calcsize("<" + ch)
        for _ in range(n):
            items.append((ch, off, sz))
            off += sz
    if "".join(f"{c}{ch}" for c, ch in re.findall(r"(\d*)([a-zA-Z])", fmt)) != fmt:
        raise Unknown(f"format string {fmt!r}")
    return items, off


PACK = {"int8": "b", "uint8": "B", "int16": "h", "uint16": "H", "int32": "i", "uint32": "I", "int64": "q", "uint64": "Q",
        "float16": "e", "float": "f", "double": "d"}


def read_type(ty, cfg):
    """the scalar the compiled block decodes for a field type: (name, count) or None if the field cannot be in a block"""
    if ty[0] == "enum":
        return defs.ENUMS[ty[1]][1], None
    if ty[0] == "ptr":
        return cfg.ptr, None
    if ty[0] == "sc":
        return refimpl.ALIAS.get(ty[1], ty[1]), None
    if ty[0] == "arr" and ty[2][0] == "fixed":
        inner = read_type(ty[1], cfg)
        if inner is None or inner[1] is not None or ty[1][0] == "arr":
            return None
        return inner[0], ty[2][1]
    return None


def validate(plan, tree, T, cfg):
    """symbolic execution of the plan against the field list: -> (ok, reason)"""
    fields = tree[1]
    real_fields = T.__fields__
    offs = [f.offset for f in real_fields]
    names = [f._name for f in real_fields]
    idx = 0  # next field to be read
    pos = ("static", 0)
    pending_align = None  # alignment applied by the last instruction (dynamic position)
    unit = None  # [base, remaining]
    bits_dirty = False  # a bit run is open (the interpreted reader resets before every non-bit field)

    def need_pos(i, what, continuing=False):
        """the interpreted reader reads field i at: start + offset if the layout gave one, else the current position,
        aligned to the field's alignment in aligned mode"""
        nonlocal pos
        fo = offs[i]
        al = real_fields[i].alignment
        if fo is not None:
            if pos != ("static", fo):
                return f"{what} {names[i]}: the stream is at {pos}, the interpreted reader reads it at offset {fo}"
        elif continuing:
            # a bit-field that continues its unit has no offset of its own; in aligned mode the interpreted reader still
            # aligns the stream position to the field's alignment before asking the bit buffer
            if cfg.align and al != 1 and pending_align != al and not (pos[0] == "static" and pos[1] % al == 0):
                return f"{what} {names[i]}: not aligned to {al} before the bit read"
        else:
            if pos[0] != "dyn":
                return f"{what} {names[i]}: dynamically placed field but the plan tracks a static position {pos}"
            if cfg.align and pending_align != al and al != 1:
                return f"{what} {names[i]}: not aligned to {al} before the read"
        return None

    def skip_voids():
        nonlocal idx
        while idx < len(fields) and fields[idx]["ty"] == ("sc", "void") and not fields[idx]["bits"]:
            idx += 1

    def advance(n):
        nonlocal pos
        if pos[0] == "static" and n is not None:
            pos = ("static", pos[1] + n)
        else:
            pos = ("dyn",)

    for ins in plan:
        k = ins[0]
        if k == "seek":
            pos = ("static", ins[1])
            pending_align = None
        elif k == "align":
            if ins[1] == "cls":
                skip_voids()
                if idx != len(fields) or ins is not plan[-1]:
                    return False, "structure tail alignment is not the last instruction"
                continue
            # `-tell & (a-1)` works on the absolute position; with the structure start aligned (which an aligned
            # structure requires anyway) a static position k becomes roundup(k, a)
            if pos[0] == "static":
                pos = ("static", (pos[1] + ins[1] - 1) // ins[1] * ins[1])
            pending_align = ins[1]
            continue
        elif k == "bitsreset":
            unit = None
            bits_dirty = False
            continue
        elif k == "sub":
            skip_voids()
            if idx >= len(fields) or names[idx] != ins[1]:
                return False, f"sub-read of {ins[1]} out of order"
            if bits_dirty:
                return False, f"bit reader not reset before {ins[1]}"
            f = fields[idx]
            if f["bits"]:
                return False, f"{ins[1]} is a bit-field but is read as a whole"
            why = need_pos(idx, "sub-read")
            if why:
                return False, why
            advance(refimpl.size_align(f["ty"], cfg)[0])
            idx += 1
        elif k == "bits":
            skip_voids()
            if idx >= len(fields) or names[idx] != ins[1]:
                return False, f"bit read of {ins[1]} out of order"
            f = fields[idx]
            if f["bits"] != ins[2]:
                return False, f"bit width of {ins[1]}: plan {ins[2]}, field {f['bits']}"
            base = f["ty"][1] if f["ty"][0] == "sc" else defs.ENUMS[f["ty"][1]][1]
            base = refimpl.ALIAS.get(base, base)
            want_via = "base" if f["ty"][0] == "enum" else ("token" if base == "char" else "self")
            if ins[3] != want_via:
                return False, f"bit read of {ins[1]} goes through {ins[3]}, expected {want_via}"
            cont = not (unit is None or unit[0] != base or unit[1] == 0)
            why = need_pos(idx, "bit read", continuing=cont)
            if why:
                return False, why
            if unit is None or unit[0] != base or unit[1] == 0:
                unit = [base, refimpl.sc(base)[1] * 8]
                advance(refimpl.sc(base)[1])
            if ins[2] > unit[1]:
                return False, "bit read straddles its unit"
            unit[1] -= ins[2]
            bits_dirty = True
            idx += 1
        elif k == "block":
            _, size, fmt, slots = ins
            if bits_dirty:
                return False, "bit reader not reset before a block"
            items, total = fmt_items(fmt) if fmt is not None else ([], None)
            if fmt is not None and total != size:
                return False, f"format {fmt!r} describes {total} bytes, the block reads {size}"
            start = pos
            if slots:
                # position of the block = position of its first byte-occupying field
                pass
            first = True
            end = 0
            for sl in slots:
                skip_voids()
                while idx < len(fields) and names[idx] != sl["name"]:
                    # fields skipped by the block must be void (they occupy nothing and get no slot)... the compiler still emits a slot for them
                    return False, f"slot {sl['name']} out of order (expected {names[idx]})"
                if idx >= len(fields):
                    return False, "more slots than fields"
                f = fields[idx]
                if f["bits"]:
                    return False, f"{sl['name']} is a bit-field but sits in a block"
                rt = read_type(f["ty"], cfg)
                if rt is None:
                    return False, f"{sl['name']} cannot be read from a block"
                base, count = rt
                kind, esz, _, _ = refimpl.sc(base)
                fsize = esz * (count if count is not None else 1)
                if sl["size"] != fsize:
                    return False, f"recorded size of {sl['name']} is {sl['size']}, the field has {fsize} bytes"
                # byte range of the slot inside buf
                src = sl["src"]
                if src[0] == "buf":
                    a, b = src[1], src[2]
                    if kind in ("int",) and base in PACK:
                        return False, f"{sl['name']}: packed type sliced from buf"
                else:
                    if fmt is None:
                        return False, f"{sl['name']} uses data but nothing was unpacked"
                    i0 = src[1]
                    n = 1 if src[2] is None else src[2] - src[1]
                    if (src[2] is None) != (count is None) or (count is not None and n != count):
                        return False, f"{sl['name']}: item count {n} vs array length {count}"
                    if base not in PACK:
                        return False, f"{sl['name']}: {base} is not a packed type but is taken from data"
                    if n == 0:
                        a = b = None
                    else:
                        if i0 + n > len(items):
                            return False, f"{sl['name']}: data index {i0}+{n} beyond the {len(items)} unpacked items"
                        for j in range(n):
                            ch, off, sz = items[i0 + j]
                            if ch != PACK[base] or (j and off != items[i0 + j - 1][1] + sz):
                                return False, f"{sl['name']}: unpacked item {i0 + j} is {ch!r} at {off}, expected {PACK[base]!r} contiguous"
                        a, b = items[i0][1], items[i0 + n - 1][1] + esz
                if a is not None:
                    if b - a != fsize:
                        return False, f"{sl['name']}: slot covers {b - a} bytes, the field has {fsize}"
                    if b > size:
                        return False, f"{sl['name']}: slot [{a},{b}) exceeds the block of {size} bytes"
                # decoder
                want = decoder_for(f["ty"], base, count)
                if sl["decode"] != want:
                    return False, f"{sl['name']}: decoder {sl['decode']}, expected {want}"
                # position: the interpreted reader reads this field at its offset / current aligned position
                if a is not None:
                    fo = offs[idx]
                    aa = a if a is not None else end
                    if fo is not None:
                        if start[0] != "static" or start[1] + aa != fo:
                            return False, f"{sl['name']}: block at {start} + {aa} but the field's offset is {fo}"
                    else:
                        if start[0] != "dyn":
                            return False, f"{sl['name']}: dynamically placed field in a block at static {start}"
                        if cfg.align and (not first or (pending_align != real_fields[idx].alignment and real_fields[idx].alignment != 1)) and fsize:
                            return False, f"{sl['name']}: dynamically placed field shares a block or is not aligned to {real_fields[idx].alignment}"
                        if not cfg.align and aa != end:
                            return False, f"{sl['name']}: gap inside a packed block"
                    if a is not None:
                        end = max(end, b)
                first = False
                idx += 1
            if end > size:
                return False, f"block reads {size} bytes but its last slot ends at {end}"
            advance(size)
            pending_align = None
            continue
        else:
            return False, f"unknown instruction {ins!r}"
        pending_align = None
    # void fields get no slot when they are the only thing in a block... all fields must have been consumed
    while idx < len(fields) and fields[idx]["ty"] == ("sc", "void"):
        idx += 1
    if idx != len(fields):
        return False, f"field {names[idx]} is never read"
    if cfg.align and (not plan or plan[-1] != ("align", "cls")):
        return False, "aligned structure without the tail alignment"
    # the final position must be the structure size (before the tail alignment in aligned mode)
    if T.size is not None:
        if pos[0] != "static":
            return False, f"fixed-size structure but the plan ends at an untracked position"
        endpos = pos[1]
        if cfg.align and T.alignment:
            endpos = (endpos + T.alignment - 1) // T.alignment * T.alignment
        if endpos != T.size:
            return False, f"the plan ends at offset {endpos}, the structure has {T.size} bytes"
    return True, ""


def decoder_for(ty, base, count):
    kind = refimpl.sc(base)[0]
    if ty[0] == "ptr":
        return "pointer"
    if ty[0] == "arr":
        if ty[1][0] == "ptr":
            return "pointerarray"
        if kind == "char":
            return "init"        # CharArray: type.__call__(_k, buf[a:b])
        if kind == "wchar":
            return "parse"       # WcharArray(buf[a:b])
        if kind == "int" and base not in PACK:
            return ("intarray", refimpl.sc(base)[1])
        return "initarray"
    if kind in ("wchar",) or (kind == "int" and base not in PACK):
        return "parse"
    return "init"


def plan_sexp(plan):
    """the plan as the model driver's S-expression (harness.common.sx input)"""
    from .common import A

    def src(x):
        if x[0] == "buf":
            return [A("buf"), x[1], x[2]]
        return [A("data"), x[1]] if x[2] is None else [A("data"), x[1], x[2]]

    def dec(d):
        if isinstance(d, tuple):
            return [A("intarray"), d[1]]
        return A(d)

    out = []
    for ins in plan:
        k = ins[0]
        if k == "seek":
            out.append([A("seek"), ins[1]])
        elif k == "align":
            out.append([A("aligncls")] if ins[1] == "cls" else [A("align"), ins[1]])
        elif k == "bitsreset":
            out.append([A("bitsreset")])
        elif k == "sub":
            out.append([A("sub"), ins[1]])
        elif k == "bits":
            out.append([A("bits"), ins[1], ins[2], A(ins[3])])
        elif k == "block":
            out.append([A("block"), ins[1], A("none") if ins[2] is None else ins[2], [[sl["name"], src(sl["src"]), dec(sl["decode"]), sl["size"]] for sl in ins[3]]])
        else:
            raise Unknown(f"instruction {ins!r}")
    return out
