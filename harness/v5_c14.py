"""Held callables: bound dumps / write / read / reads objects kept across other operations (helper of props/c14.py).

"Mutating one structure instance never changes another instance ...; loading definitions, changing endianness or adding types on one
cstruct object never affects types of another.  Parsing is a pure function of type and bytes: the result does not depend on what was parsed,
dumped, constructed or failed before" - here applied to the *callables* the library hands out.  `f = a.dumps`, `w = a.write`,
`g = T.dumps`, `h = T.write`, `r = T.read`, `s = T.reads` are values of their own: a program may keep them (callbacks, `map(obj.dumps, ...)`,
`functools.partial`, a list of callbacks) while it works with other instances, other types and other cstruct objects.  Whenever such a held
callable is finally called it must act on the object it was taken from - exactly as the immediate form `a.dumps()` / `T.dumps(v)` on that
object does at that moment (for an instance: with the instance's *current* member values), and exactly as it does in a universe in which
none of the other operations ever happened.

A session (every step is one line of Python source, executed by the harness and recorded, so that the replay script IS the session):
  * 2-3 cstruct objects; the first two always differ in endianness; all load definitions with the SAME type names (a typedef `word_t`, an
    enum / flag `E`, a small structure `N`, a main structure `S` of 3-9 members, optionally a union `U` and a dynamic structure `D`) - the
    same text, or per object a variant whose members keep names and kinds but change widths / signedness; `compiled` and `align` random per
    object.  Member kinds: integers of 1-16 bytes (built-in aliases, the typedef), floats, char / wchar and arrays of them, integer arrays,
    the enum, the nested structure and arrays of it, bit-field runs, a count followed by an expression-sized array, null-terminated tails.
  * instances: structures parsed from bytes, default-constructed, keyword-constructed; scalar / array / char / wchar / enum / LEB128
    instances; members of instances bound to a name of their own (`j = i.n`, `j = i.m[1]`, `j = i.a`) - aliases of a part of another
    instance.
  * take (the callable is stored, not called): `h = i.dumps`, `h = i.write`, `h = T.dumps`, `h = T.write`, `h = T.read`, `h = T.reads`,
    `h = functools.partial(i.dumps)`, `h = functools.partial(i.write)`, `h = functools.partial(T.dumps, v)`, `h = functools.partial(T.write,
    stream?)`, `h = map(T.dumps, [v, ...])`, `h = map(T.reads, [b, ...])`, `h = map(i.write, [streams])`, `h = [x.dumps for x in (i, j, ...)]`
    (callbacks of instances of several cstruct objects), `h = getattr(i, "dumps")`.  T ranges over scalars, arrays of them (fixed and
    null-terminated), char / wchar arrays, the enum, the typedef, LEB128, structures, unions and arrays of structures of every object.
  * in between, on ANY object of the session (other instances of the same structure type, other types, the same-named types of the other
    cstruct objects, the holder itself): attribute ACCESS of .dumps / .write without a call; immediate calls (dumps, write, bytes(), len(),
    repr(), ==, parses, default constructions); failing calls (value out of range, truncated input, write to None, wrong value type);
    assignments to members, in-place changes of arrays / nested structures (also of the instance a callable is held of: the held callable
    must then show the new values); `cs.endian = ...` on another or the own cstruct object, further load() / add_type(); taking and calling
    other held callables.
  * call: each held callable is called 1-3 times at random later points (map objects once), with values / bytes drawn at call time
    (now and then a value the type rejects or a truncated input: then both forms must fail with the same exception class).

Oracle for every call of a held callable (result = value by member name / bytes / byte count and bytes written / exception class):
  1. `now`  : the immediate form on the same object with the same arguments, evaluated right AFTER the held call (evaluating it before
              would hide state that the access itself sets), must give the same result;
  2. `twin` : a new universe - new cstruct objects that execute only the definitional lines (construction, load, endian, add_type) and the
              instance-constructing / assigning lines of the cstruct objects the callable belongs to, none of the accesses, calls, failures
              and none of the other cstruct objects' lines - evaluates the immediate form: same result.
Any state line (load, construction with valid values, assignment of a valid value, taking a callable) that raises is a violation as well:
those calls must succeed.  Nothing is excluded; known finding F8 (shared container defaults) cannot raise an alarm here because the twin
executes the same constructions and in-place assignments of that cstruct object in the same order.

The held call, the immediate form and the new universe are themselves recorded lines of the session (`_g = ...`, `_n = ...`, `_t = _twin([...
lines ...], form)`), so later calls of other held callables have them in their history and a script repeats exactly what the harness did.
Every reported case carries `held_script`: the whole session up to and including these three lines, printing the three results;
`--replay` re-executes it and compares them.
"""
from __future__ import annotations

import copy

from . import impl

# the observation helpers, as source text: the harness executes them, the replay scripts embed them (so that they are standalone)
OBS_SRC = r'''
import io, functools
from enum import Enum as _Enum


def _val(v, depth=0):
    if type(v).__name__ == "UnionProxy":
        v = object.__getattribute__(v, "__target__")
    fs = getattr(type(v), "__fields__", None)
    if isinstance(fs, list):
        if depth > 7:
            return (type(v).__name__, "...")
        return (type(v).__name__, [(f._name, _val(getattr(v, f._name, "<missing>"), depth + 1)) for f in fs])
    if isinstance(v, _Enum):
        return ("enum", type(v).__name__, int(v.value))
    if isinstance(v, bool):
        return int(v)
    if isinstance(v, int):
        return int(v) if type(v) is int else ("int", type(v).__name__, int(v))
    if isinstance(v, (bytes, bytearray)):
        return bytes(v).hex() if type(v) in (bytes, bytearray) else ("bytes", type(v).__name__, bytes(v).hex())
    if isinstance(v, str):
        return ("str", v)
    if isinstance(v, float):
        return ("flt", repr(float(v)))
    if isinstance(v, (list, tuple)):
        return [_val(x, depth + 1) for x in v]
    if v is None:
        return None
    return ("other", type(v).__name__)


def _try(f):
    try:
        return ("ok", _val(f()))
    except Exception as e:
        return ("error", type(e).__name__)


def _wr(w, *a):
    s = io.BytesIO()
    n = w(s, *a)
    return (n, s.getvalue())


def _twin(lines, expr):
    """a new universe: new cstruct objects execute only `lines` (definitions, constructions, assignments), then the immediate form"""
    ns = {"cstruct": cstruct, "io": io, "functools": functools, "_try": _try, "_wr": _wr}
    try:
        for src in lines:
            exec(src, ns)
    except Exception as e:
        return ("error-in-the-state-lines", type(e).__name__)
    return eval("_try(lambda: %s)" % expr, ns)
'''
HEADER = "from dissect.cstruct import cstruct\n" + OBS_SRC
_OBS_CODE = compile(OBS_SRC, "<v5_c14 observation>", "exec")   # executed once per session, inside the session's namespace (our own source text above)

# --------------------------------------------------------------------------------------------------------------------
# definitions
# --------------------------------------------------------------------------------------------------------------------
INTS = {"uint8": (1, 0), "int8": (1, 1), "uint16": (2, 0), "int16": (2, 1), "uint24": (3, 0), "int24": (3, 1), "uint32": (4, 0), "int32": (4, 1),
        "uint48": (6, 0), "uint64": (8, 0), "int64": (8, 1), "uint128": (16, 0), "int128": (16, 1), "BYTE": (1, 0), "WORD": (2, 0), "DWORD": (4, 0),
        "QWORD": (8, 0), "ULONG": (4, 0), "SHORT": (2, 1)}
WORD_BASES = ["uint16", "uint32", "uint64", "int32", "uint24"]
ENUM_BASES = ["uint8", "uint16", "uint32", "uint64", "int32"]
BIT_STORES = {"uint8": 8, "uint16": 16, "uint32": 32, "uint64": 64}
WCHARS = "abcxyzQé中Ω"


def int_range(ctype, sch):
    size, signed = INTS[sch["word"]] if ctype == "word_t" else INTS[ctype]
    return (-(1 << (8 * size - 1)), (1 << (8 * size - 1)) - 1) if signed else (0, (1 << (8 * size)) - 1)


def gen_member(rnd, name, menu):
    k = rnd.choice(menu)
    m = {"name": name, "kind": k}
    if k in ("int", "intarr"):
        m["ctype"] = rnd.choice(list(INTS) + ["word_t", "uint16", "uint32", "uint8"])
    if k == "float":
        m["ctype"] = rnd.choice(["float", "double"])
    if k in ("intarr", "chararr", "wchararr", "nestedarr"):
        m["n"] = rnd.randint(1, 4)
    return m


def gen_schema(rnd):
    """-> the session's base schema: {"word", "ekind", "ebase", "structs": [descriptor]}; names are the same for every cstruct object"""
    sch = {"word": rnd.choice(WORD_BASES), "ekind": rnd.choice(["enum", "enum", "flag"]), "ebase": rnd.choice(ENUM_BASES), "structs": []}
    counter = [0]

    def nm(p="m"):
        counter[0] += 1
        return f"{p}{counter[0]}"

    sch["structs"].append({"name": "N", "kw": "struct", "members": [gen_member(rnd, nm(), ["int", "int", "int", "char", "float", "enum"]) for _ in range(rnd.randint(1, 3))]})
    ms = []
    menu = ["int", "int", "int", "intarr", "intarr", "float", "char", "chararr", "wchar", "wchararr", "enum", "nested", "nested", "nestedarr", "bits"]
    want = rnd.randint(3, 9)
    while len(ms) < want:
        m = gen_member(rnd, nm(), menu)
        if m["kind"] == "bits":
            prev = ms[-1]["store"] if ms and ms[-1]["kind"] == "bits" else None  # (a run directly after a run on the same storage type would continue that unit)
            store = rnd.choice([s for s in BIT_STORES if s != prev])
            left = BIT_STORES[store]
            for _ in range(rnd.randint(1, 3)):
                if left <= 0:
                    break
                w = rnd.randint(1, min(left, rnd.choice([3, 7, 12, 20])))
                ms.append({"name": nm("b"), "kind": "bits", "store": store, "w": w})
                left -= w
        else:
            ms.append(m)
    sch["structs"].append({"name": "S", "kw": "struct", "members": ms})
    if rnd.random() < 0.35:
        sch["structs"].append({"name": "U", "kw": "union", "members": [gen_member(rnd, nm("u"), ["int", "intarr", "chararr"]) for _ in range(rnd.randint(2, 3))]})
    if rnd.random() < 0.5:
        ms = [gen_member(rnd, nm(), ["int", "chararr", "nested"]) for _ in range(rnd.randint(0, 2))]
        cnt = nm("k")
        ms.append({"name": cnt, "kind": "int", "ctype": rnd.choice(["uint8", "uint16", "uint8"])})
        ms.append({"name": nm("d"), "kind": "dynarr", "ctype": rnd.choice(["uint8", "uint16", "uint32", "int16"]), "count": cnt, "expr": rnd.choice(["{c} & 3", "{c} % 3", "({c} & 1) + 1"])})
        if rnd.random() < 0.7:
            ms.append({"name": nm("z"), "kind": rnd.choice(["cstr", "zints"]), "ctype": rnd.choice(["uint16", "uint32"])})
        if rnd.random() < 0.6:
            ms.append(gen_member(rnd, nm(), ["int"]))
        sch["structs"].append({"name": "D", "kw": "struct", "members": ms})
    return sch


def variant(rnd, base):
    """the same names, member counts and kinds; widths / signedness / typedef target / enum base re-drawn"""
    sch = copy.deepcopy(base)
    if rnd.random() < 0.6:
        sch["word"] = rnd.choice(WORD_BASES)
    if rnd.random() < 0.6:
        sch["ebase"] = rnd.choice(ENUM_BASES)
    for s in sch["structs"]:
        for m in s["members"]:
            if m["kind"] in ("int", "intarr") and rnd.random() < 0.6 and not any(o.get("count") == m["name"] for o in s["members"]):
                m["ctype"] = rnd.choice(list(INTS))
            elif m["kind"] == "float" and rnd.random() < 0.6:
                m["ctype"] = rnd.choice(["float", "double"])
            elif m["kind"] in ("dynarr", "zints") and rnd.random() < 0.6:
                m["ctype"] = rnd.choice(["uint8", "uint16", "uint32"])
    return sch


def render_member(m):
    k, n = m["kind"], m["name"]
    if k in ("int", "float"):
        return f"{m['ctype']} {n};"
    if k == "intarr":
        return f"{m['ctype']} {n}[{m['n']}];"
    if k == "char":
        return f"char {n};"
    if k == "wchar":
        return f"wchar {n};"
    if k == "chararr":
        return f"char {n}[{m['n']}];"
    if k == "wchararr":
        return f"wchar {n}[{m['n']}];"
    if k == "enum":
        return f"E {n};"
    if k == "nested":
        return f"N {n};"
    if k == "nestedarr":
        return f"N {n}[{m['n']}];"
    if k == "bits":
        return f"{m['store']} {n} : {m['w']};"
    if k == "dynarr":
        return f"{m['ctype']} {n}[{m['expr'].format(c=m['count'])}];"
    if k == "cstr":
        return f"char {n}[];"
    if k == "zints":
        return f"{m['ctype']} {n}[];"
    raise AssertionError(k)


def render(sch):
    out = [f"typedef {sch['word']} word_t;", f"{sch['ekind']} E : {sch['ebase']} {{ EA = 1, EB = 2, EC = 4 }};"]
    for s in sch["structs"]:
        out.append(f"{s['kw']} {s['name']} {{ " + " ".join(render_member(m) for m in s["members"]) + " };")
    return "\n".join(out)


# --------------------------------------------------------------------------------------------------------------------
# values (as Python source text; `c` is the variable name of the cstruct object)
# --------------------------------------------------------------------------------------------------------------------

def rint(rnd, lo, hi):
    r = rnd.random()
    if r < 0.15:
        return rnd.choice([lo, hi, 0, 1])
    if r < 0.6:
        return rnd.randint(max(lo, -200), min(hi, 300))
    return rnd.randint(lo, hi)


def struct_desc(sch, name):
    return next(s for s in sch["structs"] if s["name"] == name)


def struct_value(rnd, c, sch, name, full=False):
    s = struct_desc(sch, name)
    ms = [m for m in s["members"] if full or rnd.random() < 0.6]
    if s["kw"] == "union":
        ms = ms[:1]
    return f"{c}.{name}(" + ", ".join(f"{m['name']}={member_value(rnd, c, sch, m)}" for m in ms) + ")"


def member_value(rnd, c, sch, m):
    k = m["kind"]
    if k == "int":
        return str(rint(rnd, *int_range(m["ctype"], sch)))
    if k == "intarr":
        return repr([rint(rnd, *int_range(m["ctype"], sch)) for _ in range(m["n"])])
    if k == "float":
        return repr(rnd.choice([0.0, 0.5, -2.25, 1024.0, 3.0, -0.125]))
    if k == "char":
        return repr(bytes([rnd.randint(0x20, 0x7E)]))
    if k == "chararr":
        return repr(bytes(rnd.randint(0x20, 0x7E) for _ in range(m["n"])))
    if k == "wchar":
        return repr(rnd.choice(WCHARS))
    if k == "wchararr":
        return repr("".join(rnd.choice(WCHARS) for _ in range(m["n"])))
    if k == "enum":
        return f"{c}.E({rnd.choice([1, 2, 4, 3, 9, 0])})"
    if k == "nested":
        return struct_value(rnd, c, sch, "N")
    if k == "nestedarr":
        return "[" + ", ".join(struct_value(rnd, c, sch, "N") for _ in range(m["n"])) + "]"
    if k == "bits":
        return str(rnd.randint(0, (1 << m["w"]) - 1))
    if k == "dynarr":
        return repr([rint(rnd, *int_range(m["ctype"], sch)) for _ in range(rnd.randint(0, 3))])
    if k == "cstr":
        return repr(bytes(rnd.randint(0x21, 0x7E) for _ in range(rnd.randint(0, 5))))
    if k == "zints":
        return repr([rnd.randint(1, 200) for _ in range(rnd.randint(0, 3))])
    raise AssertionError(k)


def size_bound(sch, what):
    """an upper bound of the bytes a parse of the structure named `what` / of the type descriptor `what` consumes before its dynamic tails
    (padding of aligned layouts included: every member counted twice)"""
    def member(m):
        k = m["kind"]
        if k in ("int", "intarr", "dynarr", "zints"):
            one = INTS[sch["word"]][0] if m["ctype"] == "word_t" else INTS[m["ctype"]][0]
            return one * (m.get("n", 1) if k != "dynarr" else 3)
        if k == "float":
            return 8
        if k in ("char", "chararr"):
            return m.get("n", 1)
        if k in ("wchar", "wchararr"):
            return 2 * m.get("n", 1)
        if k == "enum":
            return 8
        if k in ("nested", "nestedarr"):
            return struct(struct_desc(sch, "N")) * m.get("n", 1)
        if k == "bits":
            return 8
        return 0

    def struct(s):
        return 2 * sum(member(m) for m in s["members"]) + 16

    if isinstance(what, str):
        return struct(struct_desc(sch, what))
    if what[0] in ("struct", "structarr"):
        return struct(struct_desc(sch, what[1])) * (what[2] if what[0] == "structarr" else 1)
    return 72


def parse_bytes(rnd, n):
    """bytes the generated types parse: n bytes below 0x80 (so no UTF-16 surrogate and no NaN; a zero now and then, for the null-terminated
    members), then a run of zeros"""
    return bytes(rnd.choice([0, 1, 2, 0x41]) if rnd.random() < 0.08 else rnd.randint(1, 0x7F) for _ in range(n)) + bytes(40)


def gen_type(rnd, c, sch):
    """-> (type expression, descriptor) of a type of the cstruct object `c`"""
    r = rnd.random()
    names = [s["name"] for s in sch["structs"]]
    if r < 0.3:
        t = rnd.choice(list(INTS) + ["word_t"])
        return f"{c}.{t}", ("int", t)
    if r < 0.45:
        t, n = rnd.choice(list(INTS) + ["word_t"]), rnd.randint(1, 4)
        return f"{c}.{t}[{n}]", ("intarr", t, n)
    if r < 0.5:
        t = rnd.choice(["uint16", "uint32", "uint8"])
        return f"{c}.{t}[None]", ("zints", t)
    if r < 0.56:
        n = rnd.randint(1, 5)
        return (f"{c}.char[{n}]", ("chararr", n)) if rnd.random() < 0.5 else (f"{c}.wchar[{n}]", ("wchararr", n))
    if r < 0.6:
        return rnd.choice([(f"{c}.char", ("char",)), (f"{c}.wchar", ("wchar",))])
    if r < 0.66:
        t = rnd.choice(["float", "double"])
        return f"{c}.{t}", ("float", t)
    if r < 0.72:
        return f"{c}.E", ("enum",)
    if r < 0.75:
        return f"{c}.uleb128", ("leb",)
    if r < 0.93:
        n = rnd.choice(names)
        return f"{c}.{n}", ("struct", n)
    n = rnd.randint(1, 3)
    return f"{c}.N[{n}]", ("structarr", "N", n)


def type_value(rnd, c, sch, td, sess=None, k=None, bad=False):
    """a value (source text) the type accepts; bad=True: one it rejects, where there is an obvious one"""
    kind = td[0]
    if kind == "int":
        lo, hi = int_range(td[1], sch)
        return str(hi + 1 + rnd.randint(0, 5)) if bad else str(rint(rnd, lo, hi))
    if kind == "intarr":
        lo, hi = int_range(td[1], sch)
        n = td[2] + 1 if bad else td[2]
        return repr([rint(rnd, lo, hi) for _ in range(n)])
    if kind == "zints":
        return "[1, 'x']" if bad else repr([rnd.randint(1, 200) for _ in range(rnd.randint(0, 3))])
    if kind == "chararr":
        return "5" if bad else repr(bytes(rnd.randint(0x20, 0x7E) for _ in range(td[1])))
    if kind == "wchararr":
        return "5" if bad else repr("".join(rnd.choice(WCHARS) for _ in range(td[1])))
    if kind == "char":
        return "None" if bad else repr(bytes([rnd.randint(0x20, 0x7E)]))
    if kind == "wchar":
        return "None" if bad else repr(rnd.choice(WCHARS))
    if kind == "float":
        return "'x'" if bad else repr(rnd.choice([0.0, 0.5, -2.25, 1024.0, 3.0]))
    if kind == "enum":
        return "'x'" if bad else f"{c}.E({rnd.choice([1, 2, 4, 3, 9])})"
    if kind == "leb":
        return "-1" if bad else str(rnd.choice([0, 1, 127, 128, 300, 1 << 20, rnd.randint(0, 1 << 40)]))
    if kind == "struct":
        if bad:
            return "None"
        have = [i["name"] for i in (sess.insts if sess else []) if i["cs"] == k and i.get("struct") == td[1]]
        if have and rnd.random() < 0.6:
            return rnd.choice(have)
        return struct_value(rnd, c, sch, td[1])
    if kind == "structarr":
        return "[" + ", ".join(struct_value(rnd, c, sch, td[1]) for _ in range(td[2] + (1 if bad else 0))) + "]"
    raise AssertionError(kind)


# --------------------------------------------------------------------------------------------------------------------
# sessions
# --------------------------------------------------------------------------------------------------------------------

class StepFailed(Exception):
    def __init__(self, src, exc):
        super().__init__(src)
        self.src, self.exc = src, exc


class Session:
    def __init__(self, dc, rnd):
        self.rnd = rnd
        self.ns = {"cstruct": dc.cstruct}
        exec(_OBS_CODE, self.ns)  # noqa: S102
        self.dc = dc
        self.lines: list[tuple] = []      # (tag, source, category); tag: "setup" | ("def", k) | ("state", k) | "noise" | "take"
        self.cs: list[dict] = []          # {"var", "endian", "sch", "compiled", "align"}
        self.insts: list[dict] = []       # {"name", "cs", "kind": struct|scalar|array|sub-array, "struct": name?, "assigned": set, "default": bool}
        self.handles: list[dict] = []
        self.counter = 0

    def name(self, p):
        self.counter += 1
        return f"{p}{self.counter}"

    def run(self, tag, src, cat=None):
        """execute one recorded line; a line that raises ends the session (StepFailed)"""
        self.lines.append((tag, src, cat))
        try:
            exec(compile(src, "<v5_c14 step>", "exec"), self.ns)  # noqa: S102 - lines generated by this module
        except Exception as e:  # noqa: BLE001
            raise StepFailed(src, e) from None

    def script(self, upto=None):
        return [src for _, src, _ in self.lines[:upto]]

    def fresh_lines(self, ks):
        return [src for tag, src, _ in self.lines if tag == "setup" or (isinstance(tag, tuple) and tag[1] in ks)]

    # ---------------------------------------------------------------------------------------------------- construction
    def setup(self):
        rnd = self.rnd
        base = gen_schema(rnd)
        ncs = rnd.choice([2, 2, 3])
        first = rnd.choice("<>")
        for k in range(ncs):
            endian = first if k == 0 else ({"<": ">", ">": "<"}[first] if k == 1 else rnd.choice("<>"))
            sch = base if (k == 0 or rnd.random() < 0.5) else variant(rnd, base)
            compiled, align = rnd.random() < 0.5, rnd.random() < 0.3
            var = f"cs{k}"
            self.cs.append({"var": var, "endian": endian, "sch": sch, "compiled": compiled, "align": align})
            self.run(("def", k), f"{var} = cstruct(endian={endian!r})")
            self.run(("def", k), f"{var}.load({render(sch)!r}, compiled={compiled}, align={align})")
        # at least two instances of the main structure in one object, and one in another
        self.new_instance(0, force="S")
        self.new_instance(0, force="S")
        self.new_instance(1, force="S")
        for _ in range(rnd.randint(1, 4)):
            self.new_instance(rnd.randrange(ncs))

    def new_instance(self, k, force=None):
        rnd, cs = self.rnd, self.cs[k]
        c, sch = cs["var"], cs["sch"]
        nm = self.name("i")
        if force or rnd.random() < 0.6:
            sname = force or rnd.choice([s["name"] for s in sch["structs"]])
            r = rnd.random()
            if r < 0.5:
                src, how, assigned = f"{nm} = {c}.{sname}(bytes.fromhex({parse_bytes(rnd, size_bound(sch, sname)).hex()!r}))", "parsed", set()
            elif r < 0.7:
                src, how, assigned = f"{nm} = {c}.{sname}()", "default", set()
            else:
                expr = struct_value(rnd, c, sch, sname)
                src, how = f"{nm} = {expr}", "keywords"
                assigned = {m["name"] for m in struct_desc(sch, sname)["members"]}   # (conservative: members given by keyword hold plain values)
            self.run(("state", k), src, "construct")
            self.insts.append({"name": nm, "cs": k, "kind": "struct", "struct": sname, "assigned": assigned, "how": how})
        else:
            texpr, td = gen_type(rnd, c, sch)
            while td[0] in ("struct", "structarr"):
                texpr, td = gen_type(rnd, c, sch)
            self.run(("state", k), f"{nm} = {texpr}({type_value(rnd, c, sch, td)})", "construct")
            self.insts.append({"name": nm, "cs": k, "kind": "array" if td[0] in ("intarr", "zints") else "scalar", "td": td, "how": "value"})

    def bind_member(self):
        """`j = i.member`: a part of an instance under a name of its own (only members that still hold what the library put there)"""
        rnd = self.rnd
        cands = []
        for i in self.insts:
            if i["kind"] != "struct":
                continue
            sch = self.cs[i["cs"]]["sch"]
            for m in struct_desc(sch, i["struct"])["members"]:
                if m["name"] in i["assigned"] or struct_desc(sch, i["struct"])["kw"] == "union":
                    continue
                if m["kind"] in ("nested", "nestedarr", "intarr", "int", "enum", "chararr", "wchararr", "float"):
                    cands.append((i, m))
        if not cands:
            return None
        i, m = rnd.choice(cands)
        # (members assigned through an alias - another bound name, or the shared defaults of finding F8 - hold plain Python values that
        # have no dumps / write: only a part that currently is an object of the library is bound; looked up without touching .dumps / .write)
        try:
            part = eval(f"{i['name']}.{m['name']}", self.ns)  # noqa: S307 - expression generated by this module
            if m["kind"] == "nestedarr":
                part = list(part)[0]
            if not isinstance(part, self.dc.BaseType) and not isinstance(part, self.dc.Structure):
                return None
        except Exception:  # noqa: BLE001
            return None
        nm = self.name("j")
        if m["kind"] == "nested":
            src, rec = f"{nm} = {i['name']}.{m['name']}", {"kind": "struct", "struct": "N", "assigned": set()}
        elif m["kind"] == "nestedarr":
            src, rec = f"{nm} = {i['name']}.{m['name']}[{rnd.randrange(m['n'])}]", {"kind": "struct", "struct": "N", "assigned": set()}
        elif m["kind"] == "intarr":
            src, rec = f"{nm} = {i['name']}.{m['name']}", {"kind": "array", "td": ("intarr", m["ctype"], m["n"])}
        else:
            src, rec = f"{nm} = {i['name']}.{m['name']}", {"kind": "scalar"}
        # from now on the member must not be replaced as a whole through the parent (the name would keep the old part): record it as
        # a member that is not re-assigned - in-place changes through either name remain possible
        i.setdefault("pinned", set()).add(m["name"])
        self.run(("state", i["cs"]), src, "bind-member")
        rec.update({"name": nm, "cs": i["cs"], "how": "member of " + i["name"], "parent": i["name"]})
        self.insts.append(rec)
        return rec

    # ---------------------------------------------------------------------------------------------------- taking callables
    def take(self):
        rnd = self.rnd
        h = self.name("h")
        r = rnd.random()
        if r < 0.5:
            # from an instance
            i = rnd.choice(self.insts)
            if rnd.random() < 0.25:
                i = self.bind_member() or i
            x, k = i["name"], i["cs"]
            form = rnd.choice(["dumps", "dumps", "dumps", "write", "write", "partial-dumps", "partial-write", "getattr-dumps", "map-write"])
            rec = {"name": h, "css": {k}, "inst": x, "form": "instance." + form, "once": False}
            if form == "dumps":
                take, rec["call"] = f"{h} = {x}.dumps", lambda: (f"{h}()", f"{x}.dumps()")
            elif form == "write":
                take, rec["call"] = f"{h} = {x}.write", lambda: (f"_wr({h})", f"_wr({x}.write)")
            elif form == "partial-dumps":
                take, rec["call"] = f"{h} = functools.partial({x}.dumps)", lambda: (f"{h}()", f"{x}.dumps()")
            elif form == "partial-write":
                take, rec["call"] = f"{h} = functools.partial({x}.write)", lambda: (f"_wr({h})", f"_wr({x}.write)")
            elif form == "getattr-dumps":
                take, rec["call"] = f"{h} = getattr({x}, 'dumps')", lambda: (f"{h}()", f"{x}.dumps()")
            else:
                n = rnd.randint(1, 3)
                take, rec["call"] = f"{h} = map({x}.write, [io.BytesIO() for _ in range({n})])", lambda: (f"list({h})", f"[{x}.write(io.BytesIO()) for _ in range({n})]")
                rec["once"] = True
        elif r < 0.58:
            # a list of callbacks over instances of several cstruct objects
            xs = rnd.sample(self.insts, min(len(self.insts), rnd.randint(2, 4)))
            names = ", ".join(i["name"] for i in xs)
            rec = {"name": h, "css": {i["cs"] for i in xs}, "inst": None, "form": "callbacks-of-instances", "once": False}
            what = rnd.choice(["dumps", "write"])
            if what == "dumps":
                take, rec["call"] = f"{h} = [x.dumps for x in ({names},)]", lambda: (f"[f() for f in {h}]", f"[x.dumps() for x in ({names},)]")
            else:
                take, rec["call"] = f"{h} = [x.write for x in ({names},)]", lambda: (f"[_wr(f) for f in {h}]", f"[_wr(x.write) for x in ({names},)]")
        else:
            k = rnd.randrange(len(self.cs))
            cs = self.cs[k]
            c, sch = cs["var"], cs["sch"]
            T, td = gen_type(rnd, c, sch)
            form = rnd.choice(["dumps", "dumps", "dumps", "write", "write", "read", "reads", "partial-dumps", "partial-write", "map-dumps", "map-reads"])
            rec = {"name": h, "css": {k}, "inst": None, "form": "type." + form, "once": False, "type": td[0]}
            val = lambda: type_value(rnd, c, sch, td, self, k, bad=rnd.random() < 0.1)   # noqa: E731 - drawn at call time
            data = lambda: repr(parse_bytes(rnd, size_bound(sch, td)) if rnd.random() < 0.8 else bytes(rnd.randint(1, 0x7F) for _ in range(rnd.randint(0, 3))))   # noqa: E731
            if form == "dumps":
                take, rec["call"] = f"{h} = {T}.dumps", lambda: (lambda v: (f"{h}({v})", f"{T}.dumps({v})"))(val())
            elif form == "write":
                take, rec["call"] = f"{h} = {T}.write", lambda: (lambda v: (f"_wr({h}, {v})", f"_wr({T}.write, {v})"))(val())
            elif form == "read":
                take = f"{h} = {T}.read"
                rec["call"] = lambda: (lambda b, s: (f"{h}({s % b})", f"{T}.read({s % b})"))(data(), rnd.choice(["%s", "io.BytesIO(%s)", "bytearray(%s)"]))
            elif form == "reads":
                take, rec["call"] = f"{h} = {T}.reads", lambda: (lambda b: (f"{h}({b})", f"{T}.reads({b})"))(data())
            elif form == "partial-dumps":
                # (the value is constructed once and named: an object constructed now and one constructed at call time need not be equal,
                # a union for instance keeps the bytes it was built from under the endianness of that moment)
                v = self.name("v")
                self.run(("state", k), f"{v} = {type_value(rnd, c, sch, td, self, k)}", "construct")
                take, rec["call"] = f"{h} = functools.partial({T}.dumps, {v})", lambda: (f"{h}()", f"{T}.dumps({v})")
            elif form == "partial-write":
                take, rec["call"] = f"{h} = functools.partial({T}.write)", lambda: (lambda v: (f"_wr({h}, {v})", f"_wr({T}.write, {v})"))(val())
            elif form == "map-dumps":
                vs = self.name("v")
                self.run(("state", k), f"{vs} = [" + ", ".join(type_value(rnd, c, sch, td, self, k) for _ in range(rnd.randint(1, 3))) + "]", "construct")
                take, rec["call"] = f"{h} = map({T}.dumps, {vs})", lambda: (f"list({h})", f"[{T}.dumps(v) for v in {vs}]")
                rec["once"] = True
            else:
                bs = "[" + ", ".join(repr(parse_bytes(rnd, size_bound(sch, td))) for _ in range(rnd.randint(1, 3))) + "]"
                take, rec["call"] = f"{h} = map({T}.reads, {bs})", lambda: (f"list({h})", f"[{T}.reads(b) for b in {bs}]")
                rec["once"] = True
        self.run("take", take, "take")
        rec["take"] = take
        rec["taken_at"] = len(self.lines)
        rec["calls"] = 0
        self.handles.append(rec)
        return rec

    # ---------------------------------------------------------------------------------------------------- in between
    def noise(self):
        """an operation on any object of the session that changes nothing (wrapped: its outcome is of no interest, failures included)"""
        rnd = self.rnd
        r = rnd.random()
        if r < 0.45:
            i = rnd.choice(self.insts)
            x = i["name"]
            r2 = rnd.random()
            if r2 < 0.4:
                expr, cat = f"{x}.{rnd.choice(['dumps', 'dumps', 'write'])}", "access-only:instance"
            elif r2 < 0.85:
                expr = rnd.choice([f"{x}.dumps()", f"{x}.dumps()", f"_wr({x}.write)", f"bytes({x})", f"len({x})", f"repr({x})", f"{x} == {rnd.choice(self.insts)['name']}"])
                cat = "call:instance"
            else:
                expr, cat = rnd.choice([f"{x}.write(None)", f"{x}.dumps(1, 2)", f"{x}.write()"]), "failing-call:instance"
        else:
            k = rnd.randrange(len(self.cs))
            c, sch = self.cs[k]["var"], self.cs[k]["sch"]
            T, td = gen_type(rnd, c, sch)
            r2 = rnd.random()
            if r2 < 0.35:
                expr, cat = f"{T}.{rnd.choice(['dumps', 'dumps', 'write'])}", "access-only:type"
            elif r2 < 0.8:
                v = type_value(rnd, c, sch, td, self, k)
                expr = rnd.choice([f"{T}.dumps({v})", f"_wr({T}.write, {v})", f"{T}({parse_bytes(rnd, size_bound(sch, td))!r})", f"{T}.reads({parse_bytes(rnd, size_bound(sch, td))!r})", f"{T}()", f"len({T})"])
                cat = "call:type"
            else:
                v = type_value(rnd, c, sch, td, self, k, bad=True)
                expr = rnd.choice([f"{T}.dumps({v})", f"_wr({T}.write, {v})", f"{T}(b'')", f"{T}.reads({bytes(rnd.randint(1, 0x7F) for _ in range(rnd.randint(0, 2)))!r})", f"{T}.write(None, {v})"])
                cat = "failing-call:type"
        self.run("noise", f"_ = _try(lambda: {expr})", cat)

    def mutate(self):
        """an assignment that changes an instance (of any cstruct object, the holders of held callables included)"""
        rnd = self.rnd
        cands = [i for i in self.insts if i["kind"] in ("struct", "array")]
        if not cands:
            return
        i = rnd.choice(cands)
        x, k = i["name"], i["cs"]
        c, sch = self.cs[k]["var"], self.cs[k]["sch"]
        if i["kind"] == "array":
            td = i["td"]
            if td[0] == "zints" or td[2] == 0:
                return
            lo, hi = int_range(td[1], sch)
            self.run(("state", k), f"{x}[{rnd.randrange(td[2])}] = {rint(rnd, lo, hi)}", "assign:in-place-array")
            return
        desc = struct_desc(sch, i["struct"])
        m = rnd.choice(desc["members"])
        r = rnd.random()
        pinned = m["name"] in i.get("pinned", ())
        if m["kind"] in ("nested", "nestedarr") and (r < 0.5 or pinned):
            sub = rnd.choice(struct_desc(sch, "N")["members"])
            idx = f"[{rnd.randrange(m['n'])}]" if m["kind"] == "nestedarr" else ""
            self.run(("state", k), f"{x}.{m['name']}{idx}.{sub['name']} = {member_value(rnd, c, sch, sub)}", "assign:in-place-nested")
        elif m["kind"] == "intarr" and (r < 0.5 or pinned):
            lo, hi = int_range(m["ctype"], sch)
            self.run(("state", k), f"{x}.{m['name']}[{rnd.randrange(m['n'])}] = {rint(rnd, lo, hi)}", "assign:in-place-array")
        elif not pinned:
            self.run(("state", k), f"{x}.{m['name']} = {member_value(rnd, c, sch, m)}", "assign:member")
            i["assigned"].add(m["name"])

    def redefine(self):
        rnd = self.rnd
        k = rnd.randrange(len(self.cs))
        cs = self.cs[k]
        r = rnd.random()
        if r < 0.6:
            cs["endian"] = {"<": ">", ">": "<"}[cs["endian"]] if rnd.random() < 0.8 else cs["endian"]
            self.run(("def", k), f"{cs['var']}.endian = {cs['endian']!r}", f"endian:cs{k}")
        elif r < 0.8:
            n = self.name("X")
            self.run(("def", k), f"{cs['var']}.load('struct {n} {{ uint8 a; N n; uint16 b[2]; }};', compiled={rnd.random() < 0.5})", f"load:cs{k}")
        else:
            self.run(("def", k), f"{cs['var']}.add_type({self.name('alias')!r}, {rnd.choice(['uint32', 'S', 'N', 'word_t'])!r})", f"add_type:cs{k}")


def between(sess, rec):
    """categories of the lines executed since the callable was taken"""
    cats = set()
    for tag, _, cat in sess.lines[rec["taken_at"]:]:
        if cat is None:
            continue
        if cat.startswith(("endian:", "load:", "add_type:")):
            what, k = cat.split(":cs")
            cat = what + (":own-cstruct-object" if int(k) in rec["css"] else ":other-cstruct-object")
        cats.add(cat)
    return cats


def call_held(sess, rec, res, viol):
    """call the held callable, then the immediate form, then the new universe (all three are recorded lines of the session, so that the
    script of a later case repeats them); -> False if a violation was reported"""
    call, imm = rec["call"]()
    upto = len(sess.lines)
    cats = between(sess, rec)
    sess.run("noise", f"_g = _try(lambda: {call})", "held-call-of-another-callable")
    sess.run("noise", f"_n = _try(lambda: {imm})", "immediate-form-of-another-callable")
    sess.run("noise", f"_t = _twin({sess.fresh_lines(rec['css'])!r}, {imm!r})", "new-universe-of-another-callable")
    got, now, twin = sess.ns["_g"], sess.ns["_n"], sess.ns["_t"]
    rec["calls"] += 1
    res.count(("v5:held", tuple(sess.script(upto)), call), bool(cats - {"take"}))
    res.feat("v5:held:" + rec["form"] + (":" + rec["type"] if "type" in rec else ""))
    res.feat("v5:held:outcome:" + got[0])
    res.feat(f"v5:held:call-number-{rec['calls']}")
    for cat in cats:
        res.feat("v5:held:between-take-and-call:" + cat)
    if not cats:
        res.feat("v5:held:between-take-and-call:nothing")
    if len(rec["css"]) > 1:
        res.feat("v5:held:callbacks-span-cstruct-objects")
    if got == now and got == twin:
        return True
    other, label = (now, "the immediate form") if got != now else (twin, "a new universe that performed only the definitional and assigning steps (immediate form)")
    since = [src for _, src, _ in sess.lines[rec["taken_at"]:upto]]
    viol(f"a held callable does not act on the object it was taken from: `{rec['take']}`, then {len(since)} other operation(s) "
         f"({', '.join(sorted(cats)) or 'none'}), then `{call}` -> {str(got)[:300]}; {label} `{imm}` at the same moment -> {str(other)[:300]}",
         {"family": "v5:held", "take": rec["take"], "held_call": call, "immediate_form": imm, "operations_between": [x[:400] for x in since],
          "held_result": str(got)[:2000], "immediate_result": str(now)[:2000], "new_universe_result": str(twin)[:2000],
          "endianness": {c["var"]: c["endian"] for c in sess.cs},
          "held_script": "\n".join(HEADER.split("\n") + sess.script() + ["print('held        :', _g)", "print('immediate   :', _n)", "print('new universe:', _t)"])})
    return False


def held_session(env, res, viol, rnd, dc, steps):
    sess = Session(dc, rnd)
    try:
        sess.setup()
        for _ in range(steps):
            r = rnd.random()
            live = [h for h in sess.handles if not (h["once"] and h["calls"]) and h["calls"] < 3]
            if r < 0.3 and len(live) < 8:
                sess.take()
            elif r < 0.55 and live:
                if not call_held(sess, rnd.choice(live), res, viol):
                    return
            elif r < 0.8:
                sess.noise()
            elif r < 0.9:
                sess.mutate()
            elif r < 0.96:
                sess.redefine()
            else:
                sess.new_instance(rnd.randrange(len(sess.cs)))
        # every callable still held is called at the end (oldest first: the most operations in between)
        for h in sess.handles:
            if not h["calls"]:
                if not call_held(sess, h, res, viol):
                    return
        res.feat("v5:held:session-completed")
    except StepFailed as e:
        tag = sess.lines[-1][0]
        res.feat("v5:held:line-raised")
        viol(f"a call that must succeed raises {type(e.exc).__name__}: {str(e.exc)[:200]} - line `{e.src[:300]}` of a held-callable session "
             f"({'taking a bound callable' if tag == 'take' else 'definition / construction / assignment with valid values'})",
             {"family": "v5:held-line", "line": e.src, "script": "\n".join(HEADER.split("\n") + sess.script())})


def run(env, res, viol, rnd, n, steps=(10, 28)):
    dc = impl.dc()
    for _ in range(n):
        try:
            held_session(env, res, viol, rnd, dc, rnd.randint(*steps))
        except Exception as e:  # noqa: BLE001 - the library must not trip the harness
            viol(f"a held-callable session raised {type(e).__name__}: {str(e)[:200]} outside the recorded lines", {"family": "v5:held-harness"})


def _run_script(src):
    import contextlib
    import io
    buf = io.StringIO()
    with contextlib.redirect_stdout(buf):
        try:
            exec(compile(src, "<v5_c14 replay>", "exec"), {})  # noqa: S102 - scripts written by this module
        except Exception as e:  # noqa: BLE001
            print("script-error:", type(e).__name__, str(e)[:200])
    return buf.getvalue()


def replay(case) -> int:
    """re-run the recorded scripts on the current tree: 1 = the held callable still differs from the immediate form / the new universe"""
    impl.dc()
    if case.get("family") == "v5:held-line":
        out = _run_script(case["script"])
        if "script-error:" in out:
            print("still fails:", out.strip().split("\n")[-1][:400])
            return 1
        print("the case passes on this tree")
        return 0
    if "held_script" not in case:
        return 0
    out = [l for l in _run_script(case["held_script"]).split("\n") if l.startswith(("held        :", "immediate   :", "new universe:", "script-error:"))]
    for l in out:
        print(l[:600])
    vals = {l.split(":", 1)[1].strip() for l in out}
    if len(out) != 3 or len(vals) != 1 or any(l.startswith("script-error") for l in out):
        print("still fails: the held callable does not act like the immediate form on the object it was taken from")
        return 1
    print("the case passes on this tree")
    return 0
