"""v10: the 'values that outlive an endianness change' family of C05 (section 10).

"Changing the instance's endianness takes effect for all subsequent reads AND WRITES of all its types": a write is an operation
on a VALUE, and the value may be older than the byte order that is current when it is written.  Whatever a value object keeps
from the time it was made (a raw buffer, a cached serialisation, a struct format) must not decide the bytes of a later write:
every write - value.dumps(), bytes(value), T.dumps(value), T.write(stream, value), value.write(stream), len(value), == (which
unions decide through their serialisation), and the write of another structure that holds the value as a member - encodes ALL
members in the byte order that is current at the time of the write.  Every trial

  1. generates a type: a UNION (2-4 overlapping members: integers of every width incl. 3/6/16 bytes and the synonyms, floats,
     enums / flags, char, wchar, one- and two-dimensional arrays of them, a nested packed structure; declared as `union U {..}`
     or `typedef union {..} U`), a STRUCTURE (scalars of every family incl. LEB128, every array form - x[n], x[expression],
     x[] null-terminated, x[EOF] - a run of bit-fields, nested structures, and in most trials union members and arrays of
     unions, also inside the nested structure), an array of unions / of scalars (cs.U[n], cs.T[n], cs.T[None]) or a single
     scalar; compiled or interpreted; aligned or packed; loaded with cs.load or cs.loadfile;
  2. OBTAINS a value while the byte order e0 ('<', '>', '!'; constructor argument) is set - parsed from reference bytes through a
     seeded entry point (T(bytes / bytearray / memoryview), T(stream at an offset), T.reads, T.read(buffer or stream), a real file
     object), or built: T(name=value, ...), T(value, ...) positionally, T() followed by attribute assignments (unions: from one
     member), T(python value) for scalar and array instances - and checks one write under e0;
  3. CHANGES cs.endian (mostly to the other byte order, sometimes to another spelling of the same one), writes the old value
     through seeded entry points (see above; `holder`: cs.H(pre=.., x=value, post=..).dumps() of a structure H declared around
     the type), reads the written bytes back, then changes the endianness again (back, or to a third spelling) and repeats.

Oracle (the property as stated, computed here independently of the library): the written bytes are the standard encoding of the
member values under the endianness CURRENT AT THE WRITE (int.to_bytes, the IEEE pattern, UTF-16 by the book, textbook LEB128,
bit-fields from the low end under '<' and from the high end under '>', C alignment rule) - exactly (NaN members by class).  The
value of a union is its content: the bytes B it was parsed from / rebuilt to under e0.  A union is written through a member that
covers it (a member of the largest size; which one is the library's choice, every one is accepted), so its bytes under the
current order are B with every scalar of that member's layout byte-swapped when the order differs from e0's (unchanged when it
is the same), followed by zeros up to the union's (aligned) size.  read(write(v)) == v under the new order: the bytes read back
give the member values of v (unions: the member that was written compares equal; floats by bit pattern), len(v) is the length
of the encoding and v == T(encoding) holds.  A call that must succeed and raises is a violation.  Every trial is a list of
recorded statements: a violation carries a self-contained script (`case.script`, sets `fails`) which props/c05.replay
re-executes.

Correspondence: for the union-free types the value and the type go to the Lean model (`write`) under the endianness of every
phase; its answer must be the reference bytes.

Domain notes (what is deliberately not generated, and why):
  * union members are fixed-size and carry no pointers, bit-fields, anonymous structures or nested unions (known findings F11,
    F77, F44, F56; dynamic unions cannot be written at all); anonymous unions are not generated (their fields are no constructor
    keywords: F83); nested structures only in packed definitions, aligned definitions only at stream position 0 (F43);
  * the content of a union has no float of its covering members, nor of the member it is made from, that is a NaN under e0 (a
    NaN payload need not survive decode/encode: F76), and when the union has a wchar somewhere none of its bytes is 0xD8..0xDF (so that no 16-bit unit of
    any member is a surrogate half in either byte order - ill-formed UTF-16 is section 7's subject);
  * the bytes that belong to no covering member (alignment padding of the union) are written as zeros (known finding F9F10 is
    about the data lost this way; it is layout, not codecs);
  * elements of null-terminated arrays are non-zero in both byte orders, float elements no zero of either sign (F75); x[EOF] only
    as the last member of packed structures (F30); flags only over unsigned bases (F22); one bit-field run per structure, on
    uint8/16/32/64 storage, before any variable-length member (F23 / F53);
  * `==` is only judged for values without NaN members; the return value of write() is not judged.
"""
from __future__ import annotations

from . import impl
from . import v9_c05 as core
from .common import A, sx
from .v4_c05 import Script
from .v9_c05 import ALIGN_OF_SIZE, CONST_EXPRS, ENUMS, FCH, ORDER, PREAMBLE, SFMT, Values, int_info, load_stmt, scalar_size

PTR = "uint64"
FUNCS10_SRC = core.HELPERS_SRC + '''
from dissect.cstruct.types.structure import Structure as _Structure, Union as _Union
def plain10(v):
    if isinstance(v, _Union): return None
    if isinstance(v, list): return [plain10(x) for x in v]
    if isinstance(v, _Structure): return {f._name: plain10(getattr(v, f._name)) for f in type(v).__fields__}
    return plain(v)
def same10(out, want, regions, nans, fmt):
    if not isinstance(out, bytes) or len(out) != len(want): return False
    m = bytearray(out)
    for a, b, alts in regions:
        if out[a:b].hex() not in alts: return False
        m[a:b] = want[a:b]
    return same(bytes(m), want, nans, fmt)
def at(v, path):
    for p in path: v = v[p] if isinstance(p, int) else getattr(v, p)
    return v
def members_differ(v, back, paths):
    return [p for p in paths if not (at(back, p) == at(v, p))]'''

def _bind(dc):
    """the helper functions over the library under test"""
    ns = {}
    exec(compile(FUNCS10_SRC, "<v10_c05 helpers>", "exec"), ns)  # noqa: S102
    return ns


# ------------------------------------------------------------------------------------------------ types
# the types and values of v9_c05 plus   type := ... | ("union", fields, name)
# value of a union := {"raw": the bytes of the union (its full, aligned size) under the byte order the value was obtained in,
#                      "primary": the member it was made from, "pval": that member's value}

def is_agg(ty):
    return ty[0] in ("sub", "union")


def align_of(ty):
    k = ty[0]
    if k == "arr":
        return align_of(ty[1])
    if is_agg(ty):
        return max(align_of(f["ty"]) for f in ty[1])
    if k == "leb":
        return 1
    return ALIGN_OF_SIZE[scalar_size(ty, PTR)]


def size_of(ty, align=False):
    """size of a fixed-size type (union members; nested structures are packed)"""
    k = ty[0]
    if k == "arr":
        return ty[2][1] * size_of(ty[1], align)
    if k == "sub":
        return sum(size_of(f["ty"]) for f in ty[1])
    if k == "union":
        n = max(size_of(f["ty"]) for f in ty[1])
        return n + (-n % align_of(ty)) if align else n
    return scalar_size(ty, PTR)


def leaves(ty, off=0, out=None):
    """(offset, size, scalar type) of every scalar of a fixed-size, packed type"""
    out = out if out is not None else []
    k = ty[0]
    if k == "arr":
        n = size_of(ty[1])
        for i in range(ty[2][1]):
            leaves(ty[1], off + i * n, out)
    elif k == "sub":
        for f in ty[1]:
            leaves(f["ty"], off, out)
            off += size_of(f["ty"])
    else:
        out.append((off, scalar_size(ty, PTR), ty))
    return out


def swapped(raw, ty):
    """the bytes of a value of the fixed-size type `ty` in the other byte order: every scalar reversed (char is raw)"""
    b = bytearray(raw[:size_of(ty)])
    for off, n, lt in leaves(ty):
        if lt[0] != "char":
            b[off:off + n] = b[off:off + n][::-1]
    return bytes(b)


def covering(u):
    n = max(size_of(f["ty"]) for f in u[1])
    return [f for f in u[1] if size_of(f["ty"]) == n]


def has_kind(ty, kind):
    k = ty[0]
    if k == "arr":
        return has_kind(ty[1], kind)
    if is_agg(ty):
        return k == kind or any(has_kind(f["ty"], kind) for f in ty[1])
    return k == kind


def raw_ok(u, raw, order):
    if has_kind(u, "wchar") and any(0xD8 <= x <= 0xDF for x in raw):
        return False
    for f in covering(u):
        for off, n, lt in leaves(f["ty"]):
            if lt[0] == "flt" and impl.flt_is_nan(int.from_bytes(raw[off:off + n], order), n):
                return False
    return True


def cname(ty):
    return ty[2] if is_agg(ty) else ty[1]


def render(ty, typedefs=(), done=None):
    """the C text of an aggregate (the aggregates it uses first, each once)"""
    done = done if done is not None else set()
    pre, lines = [], []
    for f in ty[1]:
        t, dims = f["ty"], ""
        while t[0] == "arr":
            dims += f"[{core.len_text(t[2])}]"
            t = t[1]
        if is_agg(t) and t[2] not in done:
            done.add(t[2])
            pre.append(render(t, typedefs, done))
        lines.append(f"{cname(t)} {f['name']}{dims}{' : %d' % f['bits'] if f.get('bits') else ''};")
    kw = "struct" if ty[0] == "sub" else "union"
    body = "{ " + " ".join(lines) + " }"
    text = f"typedef {kw} {body} {ty[2]};\n" if ty[2] in typedefs else f"{kw} {ty[2]} {body};\n"
    return "".join(pre) + text


def tyexpr(ty):
    k = ty[0]
    if k == "arr":
        ln = ty[2]
        idx = {"fixed": lambda: str(ln[1]), "null": lambda: "None", "eof": lambda: "Expression(cs, 'EOF')", "expr": lambda: f"Expression(cs, {ln[1]!r})"}[ln[0]]()
        return f"{tyexpr(ty[1])}[{idx}]"
    n = cname(ty)
    return f"cs.{n}" if n.isidentifier() else f"cs.resolve({n!r})"


def pyexpr(ty, v):
    k = ty[0]
    if k == "union":
        p = next(f for f in ty[1] if f["name"] == v["primary"])
        return f"cs.{ty[2]}({p['name']}={pyexpr(p['ty'], v['pval'])})"
    if k == "sub":
        return f"cs.{ty[2]}(" + ", ".join(f"{f['name']}={pyexpr(f['ty'], v[f['name']])}" for f in ty[1]) + ")"
    if k == "arr" and ty[1][0] not in ("char", "wchar"):
        return "[" + ", ".join(pyexpr(ty[1], x) for x in v) + "]"
    return core.pyexpr(ty, v)


def want_plain(ty, v):
    k = ty[0]
    if k == "union":
        return None
    if k == "arr":
        return v if ty[1][0] in ("char", "wchar") else [want_plain(ty[1], x) for x in v]
    if k == "sub":
        return {f["name"]: want_plain(f["ty"], v[f["name"]]) for f in ty[1]}
    return core.want_plain(ty, v)


class Enc(core.Enc):
    """the reference encoder of v9_c05 plus unions: a union value obtained under the byte order `o0` is written under `order`"""

    def __init__(self, order, o0, align, as_input=False):
        super().__init__(order, PTR)
        self.o0, self.align, self.as_input = o0, align, as_input
        self.regions = []   # (start, end, [(member, bytes)]) - the acceptable encodings of every union
        self.path = []

    def put(self, ty, v):
        k = ty[0]
        if k == "arr":
            et = ty[1]
            if et[0] in ("char", "wchar"):
                self.scalar(et, v)
            else:
                for i, x in enumerate(v):
                    self.path.append(i)
                    self.put(et, x)
                    self.path.pop()
            if ty[2][0] == "null":
                self.out += b"\x00" * (scalar_size(et, PTR) or 1)
        elif k == "sub":
            self.struct(ty[1], v, False)
        elif k == "union":
            self.union(ty, v)
        else:
            self.scalar(ty, v)

    def union(self, ty, v):
        raw, n = v["raw"], size_of(ty, self.align)
        if len(raw) != n:
            raise ValueError("union content of the wrong size")
        st = len(self.out)
        if self.as_input:
            self.out += raw
            return
        alts = []
        for f in covering(ty):
            m = size_of(f["ty"])
            b = (raw[:m] if self.order == ORDER[self.o0] else swapped(raw, f["ty"])) + b"\x00" * (n - m)
            alts.append((f["name"], b))
        self.out += alts[0][1]
        self.regions.append((st, st + n, alts, list(self.path)))

    def struct(self, fields, vals, align, ranges=None):
        start = len(self.out)
        if align and start:
            raise ValueError("aligned structures are only encoded at offset 0")

        def pad(a):
            if align:
                self.out += b"\x00" * (-len(self.out) % a)

        i = 0
        while i < len(fields):
            f = fields[i]
            if f["bits"]:
                base = f["ty"][1] if f["ty"][0] == "int" else ENUMS[f["ty"][1]][1]
                size = int_info(base)[0]
                unit, used = 0, 0
                while i < len(fields) and fields[i]["bits"] and fields[i]["ty"] == f["ty"] and used + fields[i]["bits"] <= 8 * size:
                    b, v = fields[i]["bits"], vals[fields[i]["name"]]
                    unit |= v << (used if self.order == "little" else 8 * size - used - b)
                    used += b
                    i += 1
                pad(ALIGN_OF_SIZE[size])
                self.out += unit.to_bytes(size, self.order)
                continue
            pad(align_of(f["ty"]))
            self.path.append(f["name"])
            self.put(f["ty"], vals[f["name"]])
            self.path.pop()
            i += 1
        pad(max(align_of(f["ty"]) for f in fields))


def encode(ty, val, order, o0, align, as_input=False):
    """-> (bytes, union regions, nan ranges)"""
    e = Enc(order, o0, align, as_input)
    if ty[0] == "sub":
        e.struct(ty[1], val, align)
    else:
        e.put(ty, val)
    return bytes(e.out), e.regions, e.nans


# ------------------------------------------------------------------------------------------------ generation

class Gen:
    def __init__(self, rnd, vg, align, o0, zero_tail):
        self.rnd, self.vg, self.align, self.o0, self.zero_tail = rnd, vg, align, o0, zero_tail
        self.n_union = self.n_sub = 0
        self.typedefs = set()

    def member_scalar(self):
        return self.vg.scalar_ty(weights=[46, 20, 6, 8, 0, 20])

    def fixed_member(self, allow_sub):
        """a fixed-size member type of a union"""
        rnd = self.rnd
        r = rnd.random()
        if allow_sub and r < 0.15:
            self.n_sub += 1
            fields = [{"name": f"n{self.n_sub}_{i}", "ty": self.fixed_member(False), "bits": None} for i in range(rnd.randint(1, 3))]
            return ("sub", fields, f"N{self.n_sub}")
        ety = self.member_scalar()
        if r < 0.5:
            return ety
        ty = ("arr", ety, ("fixed", rnd.choice([1, 2, 2, 3, 4])))
        if rnd.random() < 0.15:
            ty = ("arr", ty, ("fixed", rnd.randint(1, 2)))
        return ty

    def union_ty(self, top=False):
        rnd = self.rnd
        self.n_union += 1
        name = f"U{self.n_union}"
        pre = f"m{self.n_union}_"
        while True:
            fields = [{"name": f"{pre}{i}", "ty": self.fixed_member(not self.align), "bits": None} for i in range(rnd.randint(2, 4))]
            # (almost always) something in a covering member that has a byte order
            if rnd.random() < 0.1 or any(n > 1 and lt[0] != "char" for f in covering(("union", fields, name)) for _, n, lt in leaves(f["ty"])):
                break
        if top and rnd.random() < 0.3:
            self.typedefs.add(name)
        return ("union", fields, name)

    def value(self, ty, mode="any"):
        rnd, vg = self.rnd, self.vg
        k = ty[0]
        if k == "union":
            return self.union_val(ty)
        if k == "sub":
            return {f["name"]: (f["val"] if "val" in f else self.bits_val(f) if f["bits"] else self.value(f["ty"])) for f in ty[1]}
        if k == "arr":
            ln = ty[2]
            if ty[1][0] in ("arr", "sub", "union"):
                return [self.value(ty[1]) for _ in range(ln[1])]
            n = None if ln[0] in ("fixed", "expr") else rnd.choice([0, 1, 1, 2, 3, 4])
            return vg.array(ty, mode, PTR, n)
        return vg.scalar(ty, mode, PTR)

    def bits_val(self, f):
        b = f["bits"]
        return self.rnd.choice([0, 1, (1 << b) - 1, self.rnd.getrandbits(b), self.rnd.getrandbits(b)])

    def union_val(self, u):
        rnd = self.rnd
        n, order = size_of(u, self.align), ORDER[self.o0]
        for attempt in range(60):
            p = rnd.choice(u[1])
            pval = self.value(p["ty"])
            body, _, nans = encode(p["ty"], pval, order, self.o0, False)
            if nans:   # (a union built from a NaN member holds the bytes the platform made of it: F76)
                continue
            tail = bytes(n - len(body)) if self.zero_tail else bytes(rnd.randrange(256) for _ in range(n - len(body)))
            raw = body + tail
            if raw_ok(u, raw, order):
                return {"raw": raw, "primary": p["name"], "pval": pval}
        # a content that is acceptable for every union: the member values are whatever these bytes mean
        raw = bytes((0x11 + 7 * i) % 0x70 + 1 for i in range(n))
        return {"raw": raw, "primary": None, "pval": None}

    def struct_ty(self, name="S", sub=False, want_union=True):
        rnd, vg, align = self.rnd, self.vg, self.align
        pre = "f" if not sub else f"g{self.n_sub}_"
        fields = []
        dyn = bits_done = False

        def add(ty, bits=None, **kw):
            fields.append({"name": f"{pre}{len(fields)}", "ty": ty, "bits": bits, **kw})

        n = rnd.randint(1, 3 if sub else 5)
        for i in range(n):
            last = i == n - 1
            r = rnd.random()
            if not dyn and not bits_done and r < 0.12:
                bits_done = True
                ty = ("int", rnd.choice(["uint8", "uint16", "uint32", "uint64"]))
                left = 8 * scalar_size(ty, PTR)
                for _ in range(rnd.randint(1, 3)):
                    if left == 0:
                        break
                    b = rnd.randint(1, min(left, rnd.choice([3, 7, 13, 33])))
                    add(ty, b)
                    left -= b
                continue
            k = rnd.choices(["scalar", "arr", "union", "union-arr", "sub"], [30, 22, 28 if want_union else 0, 10 if want_union else 0, 10])[0]
            if k == "sub" and (sub or align):
                k = "scalar"
            if k == "scalar":
                ty = vg.scalar_ty(weights=[40, 22, 6, 8, 8, 16])
            elif k == "union":
                ty = self.union_ty()
            elif k == "union-arr":
                ty = ("arr", self.union_ty(), ("fixed", rnd.randint(1, 3)))
            elif k == "sub":
                self.n_sub += 1
                nm = f"N{self.n_sub}"
                ty = self.struct_ty(nm, sub=True, want_union=want_union)
                if rnd.random() < 0.4:
                    ty = ("arr", ty, ("fixed", rnd.randint(1, 2)))
            else:
                ety = vg.scalar_ty(weights=[36, 26, 8, 10, 6, 14])
                form = rnd.choices(["fixed", "expr", "null", "eof"], [45, 15, 25, 15])[0]
                if form == "eof" and (not last or sub or align):
                    form = "fixed"
                if form == "fixed":
                    ty = ("arr", ety, ("fixed", rnd.choice([0, 1, 2, 2, 3, 4])))
                elif form == "expr":
                    text, cnt = rnd.choice(CONST_EXPRS)
                    ty = ("arr", ety, ("expr", text, cnt))
                else:
                    ty = ("arr", ety, (form,))
            add(ty)
            dyn = dyn or dynamic(ty)
        return ("sub", fields, name)


def dynamic(ty):
    k = ty[0]
    if k == "leb":
        return True
    if k == "arr":
        return ty[2][0] != "fixed" or dynamic(ty[1])
    if k == "sub":
        return any(dynamic(f["ty"]) for f in ty[1])
    return False


def has_eof(ty):
    k = ty[0]
    if k == "arr":
        return ty[2][0] == "eof" or has_eof(ty[1])
    if k == "sub":
        return any(has_eof(f["ty"]) for f in ty[1])
    return False


def union_free_sexp_ok(ty):
    return not has_kind(ty, "union")


# ------------------------------------------------------------------------------------------------ the family

OBTAIN_PARSE = {"bytes": "T(data)", "bytearray": "T(bytearray(data))", "memoryview": "T(memoryview(data))", "reads": "T.reads(data)",
                "read-bytes": "T.read(data)", "stream": None, "read-stream": None, "file": None}


def run(R, rnd, tier):
    """R: the Runner of props/c05 (res, violation, ask, dc)"""
    res, dc = R.res, R.dc
    P = core.Probe(R, "outlive", limit=12)
    vg = Values(rnd)
    helpers = _bind(dc)
    plain10, same10, members_differ = helpers["plain10"], helpers["same10"], helpers["members_differ"]
    trials = 320 if tier == "quick" else 5000
    for t in range(trials):
        top = rnd.choices(["union", "struct", "union-arr", "arr", "scalar"], [30, 40, 8, 14, 8])[0]
        compiled = rnd.random() < 0.5
        align = top in ("union", "struct", "union-arr") and rnd.random() < 0.3
        how = rnd.choice(["load", "load", "loadfile"])
        e0 = rnd.choice("<>!")
        parsed = rnd.random() < 0.55
        g = Gen(rnd, vg, align, e0, zero_tail=not parsed)

        # ---- the type
        if top == "union":
            ty = g.union_ty(top=True)
        elif top == "struct":
            ty = g.struct_ty(want_union=rnd.random() < 0.75)
        elif top == "union-arr":
            ty = ("arr", g.union_ty(top=True), ("fixed", rnd.randint(1, 3)))
        elif top == "arr":
            ety = vg.scalar_ty(weights=[40, 26, 4, 8, 6, 16])
            form = rnd.choice(["fixed", "fixed", "null", "2d"])
            ty = ("arr", ety, ("fixed", rnd.randint(1, 5))) if form != "null" else ("arr", ety, ("null",))
            if form == "2d":
                ty = ("arr", ty, ("fixed", rnd.randint(1, 3)))
        else:
            ty = vg.scalar_ty(weights=[40, 26, 4, 8, 8, 14])
        val = g.value(ty)
        base = ty
        while base[0] == "arr":
            base = base[1]
        defn = render(base, g.typedefs) if is_agg(base) else ""
        T = tyexpr(ty)
        # a structure declared around the type: the old value becomes the member of a structure built after the change
        holder = None
        if is_agg(ty) and not align and not has_eof(ty) and rnd.random() < 0.5:
            holder = ("sub", [{"name": "pre", "ty": ("int", "uint16"), "bits": None}, {"name": "x", "ty": ty, "bits": None},
                              {"name": "post", "ty": ("int", "uint32"), "bits": None}], "H")
            hpre, hpost = rnd.randrange(1, 0x10000), rnd.randrange(1, 1 << 32)
            defn += f"struct H {{ uint16 pre; {ty[2]} x; uint32 post; }};\n"

        sc = Script(dc)
        ctx = dict(type=T, definition=defn, compiled=compiled, align=align, loaded_by=how, obtained_under=e0)
        stmts = [FUNCS10_SRC, f"cs = cstruct(endian={e0!r}); cs.load({PREAMBLE!r})"]
        if defn:
            stmts.append(load_stmt(defn, how, compiled, align))
        stmts.append(f"T = {T}")
        if not P.setup(sc, stmts, ctx):
            continue

        # ---- the value, obtained under e0
        V = pyexpr(ty, val)
        inp = encode(ty, val, ORDER[e0], e0, align, as_input=True)[0]
        inst_ok = is_agg(ty) or ty[0] in ("int", "flt", "leb") or (ty[0] == "arr" and ty[1][0] in ("int", "flt", "leb", "enum", "arr", "union", "sub"))
        unbuildable = any(True for _ in _union_vals(ty, val) if _ is None)
        if parsed or unbuildable or not inst_ok:
            if not inst_ok and not parsed:
                way, obtain, vdesc = "literal", [f"v = {V}"], V   # a plain Python value: nothing to outlive, but the calls are the same
            else:
                way = rnd.choice(list(OBTAIN_PARSE))
                if OBTAIN_PARSE[way]:
                    obtain = [f"data = bytes.fromhex({inp.hex()!r})", f"v = {OBTAIN_PARSE[way]}"]
                else:
                    pre = b"" if align else bytes(rnd.randrange(256) for _ in range(rnd.choice([0, 1, 3, 4])))
                    post = b"" if has_eof(ty) else bytes(rnd.randrange(256) for _ in range(rnd.choice([0, 2])))
                    opener = "s = tempfile.TemporaryFile(); n = s.write(data)" if way == "file" else "s = BytesIO(data)"
                    call = "T.read(s)" if way == "read-stream" else "T(s)"
                    obtain = [f"data = bytes.fromhex({(pre + inp + post).hex()!r}); {opener}; p = s.seek({len(pre)})", f"v = {call}"]
                    if way == "file":
                        obtain.append("s.close()")
                vdesc = f"<{T} parsed ({way}) from {inp.hex() or '-'} under {e0!r}>"
                way = "parsed:" + way
        else:
            ways = ["kwargs"]
            if ty[0] == "sub":
                ways += ["assign"] + (["positional"] if len(ty[1]) > 1 else [])
            elif ty[0] == "union":
                ways += ["assign"]
                first = ty[1][0]
                if first["name"] == val["primary"] and first["ty"][0] != "char" and not (first["ty"][0] == "arr" and first["ty"][1][0] == "char"):
                    ways += ["positional"]
            else:
                ways = ["instance"]
            way = rnd.choice(ways)
            if way == "kwargs":
                obtain = [f"v = {V}"]
            elif way == "instance":
                obtain = [f"v = T({V})"]
            elif way == "positional":
                if ty[0] == "union":
                    obtain = [f"v = T({pyexpr(ty[1][0]['ty'], val['pval'])})"]
                else:
                    obtain = ["v = T(" + ", ".join(pyexpr(f["ty"], val[f["name"]]) for f in ty[1]) + ")"]
            else:
                if ty[0] == "union":
                    p = next(f for f in ty[1] if f["name"] == val["primary"])
                    obtain = ["v = T()", f"v.{p['name']} = {pyexpr(p['ty'], val['pval'])}"]
                else:
                    obtain = ["v = T()"] + [f"v.{f['name']} = {pyexpr(f['ty'], val[f['name']])}" for f in ty[1]]
            vdesc = f"<{'; '.join(obtain)} under {e0!r}>"
            way = "built:" + way
        ctx["value"] = vdesc
        if not P.setup(sc, obtain, ctx):
            continue
        for k in (f"top={top}", f"obtained={way}", f"compiled={compiled}:align={align}", f"loaded-by={how}", f"has-union={has_kind(ty, 'union')}",
                  f"holder={holder is not None}", f"typedef-union={bool(g.typedefs)}"):
            res.feat("outlive:" + k)

        # ---- the phases: a write under e0, then after every change of cs.endian
        other = [e for e in "<>!" if ORDER[e] != ORDER[e0]]
        e1 = rnd.choice(other) if rnd.random() < 0.85 else rnd.choice("<>!")
        e2 = e0 if rnd.random() < 0.6 else rnd.choice("<>!")
        phases = [e0, e1, e2] + ([rnd.choice("<>!")] if rnd.random() < 0.2 else [])
        cur, history, ok = e0, f"cstruct(endian={e0!r})", True
        for pi, e in enumerate(phases):
            if pi > 0:
                if not P.setup(sc, [f"cs.endian = {e!r}"], ctx):
                    break
                history += f", cs.endian = {e!r}"
                res.feat(f"outlive:change={ORDER[cur]}->{ORDER[e]}")
                cur = e
            order = ORDER[e]
            want, regions, nans = encode(ty, val, order, e0, align)
            kinds = ["dumps", "write"] + (["inst"] if inst_ok and way != "literal" else []) + \
                (["bytes", "inst-write", "len"] + ([] if nans else ["eq"]) if is_agg(ty) else []) + (["holder", "holder"] if holder else [])
            nk = (1 if pi == 0 else 2) if tier == "quick" else (2 if pi == 0 else 4)
            chosen = rnd.sample(kinds, min(nk, len(kinds)))
            for kind in dict.fromkeys(chosen):
                ok = _write(P, sc, rnd, kind, T, ty, val, e, e0, align, ctx, history, vdesc, want, regions, nans, holder and (holder, hpre, hpost), same10)
                if not ok:
                    break
            if not ok:
                break
            # read(write(v)) == v under the current order
            ok = _readback(P, sc, T, ty, val, e, ctx, history, vdesc, want, regions, plain10, members_differ)
            if not ok:
                break
            if union_free_sexp_ok(ty):
                R.ask(sx([A("write"), core.cfg_sexp(e, PTR), core.ty_sexp(ty, align), core.val_sexp(ty, val)]),
                      ("write", ("outlive", T, defn, e, V, pi), ("ok", want)))
    res.sample({"outlive": "union U { uint32 a; uint16 b[2]; }", "value": "cs.U(bytes 04030201) parsed under '<' (a = 0x01020304)",
                "after cs.endian = '>'": "dumps() = 01020304", "after cs.endian = '<' again": "dumps() = 04030201"})


def _union_vals(ty, val):
    """the 'primary' of every union value below (None: a content that cannot be built from one member)"""
    k = ty[0]
    if k == "union":
        yield val["primary"]
    elif k == "sub":
        for f in ty[1]:
            yield from _union_vals(f["ty"], val[f["name"]])
    elif k == "arr" and ty[1][0] in ("arr", "sub", "union"):
        for x in val:
            yield from _union_vals(ty[1], x)


def _write(P, sc, rnd, kind, T, ty, val, e, e0, align, ctx, history, vdesc, want, regions, nans, holder, same10):
    res = P.res
    order = ORDER[e]
    pre = b""
    check = None
    if kind == "holder":
        hty, hpre, hpost = holder
        hval = {"pre": hpre, "x": val, "post": hpost}
        want, regions, nans = encode(hty, hval, order, e0, False)
        stm = [f"h = cs.H(pre={hpre}, x=v, post={hpost})", "out = h.dumps()" if rnd.random() < 0.6 else "out = bytes(h)"]
        shown = f"cs.H(pre={hpre}, x={vdesc}, post={hpost}).dumps()"
    elif kind == "dumps":
        stm, shown = ["out = T.dumps(v)"], f"{T}.dumps({vdesc})"
    elif kind == "inst":
        stm, shown = ["out = v.dumps()"], f"{vdesc}.dumps()"
    elif kind == "bytes":
        stm, shown = ["out = bytes(v)"], f"bytes({vdesc})"
    elif kind == "len":
        stm, shown = ["n = len(v)"], f"len({vdesc})"
        check = ("n", len(want), f"fails = n != {len(want)}")
    elif kind == "eq":
        stm, shown = [f"same_ = (v == T(bytes.fromhex({want.hex()!r})))"], f"{vdesc} == {T}(bytes {want.hex() or '-'})"
        check = ("same_", True, "fails = same_ is not True")
    else:
        if not align:
            pre = bytes(rnd.randrange(256) for _ in range(rnd.choice([0, 1, 3, 4])))
        call = "v.write(s)" if kind == "inst-write" else "T.write(s, v)"
        stm = [f"s = BytesIO(); p = s.write({pre!r})", f"n = {call}", "out = s.getvalue()[p:]; head = s.getvalue()[:p]"]
        shown = f"{vdesc}.write(stream at {len(pre)})" if kind == "inst-write" else f"{T}.write(stream at {len(pre)}, {vdesc})"
    res.count(("outlive", "write", kind, ctx.get("type"), ctx.get("definition"), e0, e, vdesc, want))
    res.feat(f"outlive:write={kind}")
    exc = None
    for s in stm:
        exc = sc.do(s)
        if exc is not None:
            break
    fmt = SFMT[order]
    hexregions = [(a, b, [x.hex() for _, x in alts]) for a, b, alts, _ in regions]
    if check:
        tail = [f"print({check[0]})", check[2]]
    else:
        tail = [f"want = bytes.fromhex({want.hex()!r})", "print(out.hex(), want.hex())", f"fails = not same10(out, want, {hexregions!r}, {nans!r}, {fmt!r})"]
    what0 = f"endian {e!r} ({history}): {shown} [{(ctx.get('definition') or '').strip()}]"
    std = f"the standard ({order}) encoding of its members is {want.hex() or '-'}" + \
        (" (unions: through any member that covers the union)" if regions else "") + (" (NaN members compared by class)" if nans else "")
    if exc is not None:
        P.viol(f"{what0} raised {type(exc).__name__}: {exc}; {std}", sc, tail, **ctx, endian=e, expected=want.hex())
        return False
    if check:
        got = sc.ns.get(check[0])
        if got != check[1] or (check[1] is True and got is not True):
            P.viol(f"{what0} gives {got!r}, expected {check[1]!r}: {std}", sc, tail, **ctx, endian=e, expected=want.hex())
            return False
        return True
    out = sc.ns.get("out")
    if not same10(out, want, hexregions, nans, fmt):
        P.viol(f"{what0} gives {out.hex() if isinstance(out, bytes) else repr(out)}; {std}", sc, tail, **ctx, endian=e, expected=want.hex())
        return False
    if kind in ("write", "inst-write") and sc.ns.get("head") != pre:
        P.viol(f"{what0} changed the bytes in front of the stream position", sc, [f"fails = head != {pre!r}"], **ctx, endian=e, expected=want.hex())
        return False
    return True


def _readback(P, sc, T, ty, val, e, ctx, history, vdesc, want, regions, plain10, members_differ):
    """the bytes the value is written to under the current order, read back: the member values of the value"""
    res = P.res
    res.count(("outlive", "readback", ctx.get("type"), ctx.get("definition"), e, vdesc, want))
    res.feat("outlive:read-back")
    wp = want_plain(ty, val)
    stm = ["out = T.dumps(v)", "back = T(out)"]
    exc = None
    for s in stm:
        exc = sc.do(s)
        if exc is not None:
            break
    what0 = f"endian {e!r} ({history}): {T}({T}.dumps({vdesc})) [{(ctx.get('definition') or '').strip()}]"
    out = sc.ns.get("out")
    # which member each union was written through (the region's alternative that is in the output)
    paths = []
    if exc is None and isinstance(out, bytes):
        for a, b, alts, path in regions:
            paths += [[*path, m] for m, x in alts if out[a:b] == x][:1]
    tail = [f"want = {ascii(wp)}; paths = {paths!r}", "print(ascii(plain10(back)), members_differ(v, back, paths))",
            "fails = plain10(back) != want or bool(members_differ(v, back, paths))"]
    if exc is not None:
        P.viol(f"{what0} raised {type(exc).__name__}: {exc}", sc, tail, **ctx, endian=e, expected=ascii(wp))
        return False
    back = sc.ns.get("back")
    try:
        gp = plain10(back)
        diff = members_differ(sc.ns.get("v"), back, paths)
    except Exception as ex:  # noqa: BLE001 - a value of another shape
        gp, diff = ("unreadable", f"{type(ex).__name__}: {ex}", repr(back)[:200]), []
    if gp != wp or diff:
        P.viol(f"{what0} gives {ascii(gp)}{' and other values for the union members ' + repr(diff) if diff else ''}; read(write(v)) under the "
               f"current order must give the member values of v: {ascii(wp)}", sc, tail, **ctx, endian=e, expected=ascii(wp))
        return False
    return True
