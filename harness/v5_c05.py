"""v5: the 'wide text' family of C05 - UTF-16 beyond the Basic Multilingual Plane in every wchar form the library has.

"wchar is UTF-16 in the current byte order; encoding is the exact inverse" is a statement about *strings of code units*, not about
single units: a character outside the BMP (U+10000..U+10FFFF) is a surrogate pair, two 16-bit units that only mean something
together.  Every trial of this family

  1. draws a text from seeded pools - astral characters (U+10000, U+1F600, U+10FFFF, random planes 1..16), BMP characters
     (ASCII, Latin, CJK, U+D7FF/U+E000 next to the surrogate block, U+FFFF, U+FFFE, the BOM U+FEFF as ordinary data), characters
     whose units contain a zero BYTE (U+0100, U+4100, U+10000 = D800 DC00, ...; so that zero bytes sit inside a unit, inside a
     surrogate pair and straddle two units), combining sequences (e + U+0301, ZWJ emoji families, regional indicators, skin
     tones, astral combining marks), NUL characters as data where the form allows them; astral only, BMP only, or mixed;
  2. picks a wchar FORM: a single `wchar` (one code unit), `wchar[n]`, `wchar[<expression>]` (over an earlier member and/or
     constants), `wchar[]` (null-terminated: the terminator is the 16-bit zero UNIT at an even offset from the start of the
     array), `wchar[EOF]`; spelled `wchar` / `wchar_t` / `WCHAR`; as a stand-alone type (`cs.wchar[None]`,
     `cs.WCHAR[Expression(cs, "EOF")]`, a typedef) or as members of a generated structure (1-6 members: several wchar forms,
     integer members in between, count members for the expressions, a nested structure / an array of nested structures with
     wchar members; compiled or interpreted; aligned or packed), under '<', '>', '!', in a quarter of the trials with the
     endianness switched after the definitions were loaded (and used once);
  3. encodes the value with the reference encoder of this file (UTF-16 by the book - RFC 2781 arithmetic, no codec -, members in
     declaration order, C alignment rule) and checks, on the real library:
       decode  T(bytes), T(stream at an offset - odd offsets included - with bytes behind), T.reads, T.read(bytearray/memoryview)
               give exactly the text / member values, and consume exactly the encoding (terminator included, nothing more);
       encode  T.dumps(v), T(v).dumps() / instance.dumps(), T.write(stream, v), and dumps() of the parsed value give exactly the
               reference bytes;
  4. in a third of the trials also a FAULT on the same type: the input cut inside a member (every form but [EOF] must refuse: the
     text is not there), or one wchar member made ill-formed UTF-16 with the length kept (a lone surrogate half in a single
     `wchar` - e.g. the two halves of a pair in two consecutive `wchar` members -, a pair cut by the count, low before high, a
     high half before a BMP unit): Python's UTF-16 decoder rejects the consumed bytes, so the read must be refused, never
     answered with some text; and encoding a string with an unpaired surrogate must be refused, never written.

Oracle: decode == UTF-16 decoding of the consumed bytes in the current byte order, encode == its inverse (the reference encoder is
cross-checked against Python's utf-16-le/be codec on every text; a difference there is an infrastructure failure, not a
violation).  A call that must succeed and raises is a violation.  Every trial is a list of recorded Python statements, so a
violation carries a self-contained script (`case.script`, sets `fails`) which props/c05.replay re-executes.

Correspondence: the same types, bytes and values go to the Lean model (`read` / `write`), whose answer must equal what the real
library did (value, end position, error class).

Domain notes (what is deliberately not generated, and why):
  * nested structures only in packed definitions, aligned reads/writes only at stream position 0: an aligned structure at a
    misaligned position is known finding F43's territory (layout, not codecs);
  * a NUL character is never part of the text of a `wchar[]` value (it is the terminator: such a text cannot round-trip by
    definition); in the other forms it is ordinary data and is generated;
  * a constant count expression with a negative value (`wchar a[K2 - K3]`): the parser folds it to a static count of -1 and the
    definition is refused when it is loaded (ValueError from len()); that is about array declarations, not about codecs (a count
    expression over a MEMBER that evaluates below zero is generated: it reads the empty text);
  * a non-BMP character written through a single `wchar` (the library writes both units, there is no length check) is outside the
    property: a single wchar is one code unit.
"""
from __future__ import annotations

from . import common, impl
from .common import A, sx
from .v4_c05 import Script, fails_alone

ORDER = {"<": "little", ">": "big", "!": "big"}
INTS = {"uint8": (1, False), "int8": (1, True), "uint16": (2, False), "int16": (2, True), "uint32": (4, False), "int32": (4, True),
        "uint64": (8, False)}
COUNT_INTS = ["uint8", "uint8", "uint16", "uint32"]
WNAMES = ["wchar", "wchar", "wchar_t", "WCHAR"]
CONSTS = {"K2": 2, "K3": 3}
CONST_TEXT = "".join(f"#define {k} {v}\n" for k, v in CONSTS.items())

ASTRAL = [0x10000, 0x10001, 0x100FF, 0x10100, 0x103FF, 0x10400, 0x10800, 0x1D11E, 0x1F600, 0x1F468, 0x1F469, 0x1F4A9, 0x20000, 0x2A6D6,
          0x2FFFF, 0x30000, 0xE0001, 0xF0000, 0xFFFFF, 0x100000, 0x10FC00, 0x10FFFE, 0x10FFFF]
BMP = [0x01, 0x20, 0x41, 0x7F, 0x80, 0xFF, 0x100, 0x101, 0x3A9, 0x20AC, 0x3042, 0x4E2D, 0xAC00, 0xD7FF, 0xE000, 0xF8FF, 0xFDD0, 0xFEFF, 0xFFFD,
       0xFFFE, 0xFFFF]
COMBINING = ["é", "ạ̈", "ố", "क्ष", "각", "❤️",
             "\U0001F468‍\U0001F469‍\U0001F467", "\U0001F1F3\U0001F1F1", "\U0001F44D\U0001F3FD", "\U0001D158\U0001D165\U0001D16E",
             "\U0001F3F4\U000E0067\U000E0062\U000E007F", "x\U000E0100"]
STYLES = ["astral", "mixed", "mixed", "zero", "comb", "bmp"]
PLAIN_SRC = ("def plain(v):\n"
             "    if isinstance(v, str): return str(v)\n"
             "    if isinstance(v, int): return int(v)\n"
             "    if isinstance(v, list): return [plain(x) for x in v]\n"
             "    return {f._name: plain(getattr(v, f._name)) for f in type(v).__fields__}")


# ------------------------------------------------------------------------------------------------ UTF-16 by the book (RFC 2781)

def units_of(s: str) -> list[int]:
    out = []
    for ch in s:
        cp = ord(ch)
        if cp >= 0x10000:
            cp -= 0x10000
            out += [0xD800 + (cp >> 10), 0xDC00 + (cp & 0x3FF)]
        else:
            out.append(cp)
    return out


def well_formed(us) -> bool:
    i = 0
    while i < len(us):
        if 0xD800 <= us[i] <= 0xDBFF:
            if i + 1 >= len(us) or not 0xDC00 <= us[i + 1] <= 0xDFFF:
                return False
            i += 2
        elif 0xDC00 <= us[i] <= 0xDFFF:
            return False
        else:
            i += 1
    return True


def raw(us, order) -> bytes:
    return b"".join(u.to_bytes(2, order) for u in us)


def wunits(v) -> list[int]:
    """a wchar value of the generator: a text, or (ill-formed inputs) the list of its code units"""
    return units_of(v) if isinstance(v, str) else list(v)


def str_of_units(us) -> str:
    """the Python string with these UTF-16 code units (pairs joined, unpaired surrogates kept as they are)"""
    return raw(us, "little").decode("utf-16-le", "surrogatepass")


def selfcheck(s: str):
    us = units_of(s)
    if raw(us, "little") != s.encode("utf-16-le") or raw(us, "big") != s.encode("utf-16-be") or not well_formed(us):
        raise common.Infra(f"the reference UTF-16 encoder of harness/v5_c05.py disagrees with Python's codec on {s!a}")


# ------------------------------------------------------------------------------------------------ texts

def piece(rnd, style, nul) -> str:
    r = rnd.random()
    if nul and r < 0.08:
        return "\x00"
    if style == "astral":
        return chr(rnd.choice(ASTRAL) if rnd.random() < 0.6 else rnd.randint(0x10000, 0x10FFFF))
    if style == "bmp":
        while True:
            u = rnd.choice(BMP) if rnd.random() < 0.6 else rnd.randrange(1, 0x10000)
            if not 0xD800 <= u <= 0xDFFF:
                return chr(u)
    if style == "zero":
        # units with a zero byte: 00xx, xx00, and pairs whose halves are xx00 (D800 / DC00 / D900 ...)
        k = rnd.randrange(4)
        if k == 0:
            return chr(rnd.randrange(1, 256))
        if k == 1:
            while True:
                u = rnd.randrange(1, 256) << 8
                if not 0xD800 <= u <= 0xDFFF:
                    return chr(u)
        if k == 2:
            return chr(0x10000 + (rnd.randrange(0x400) << 10) + rnd.choice([0, 0, 0x100, 0x200, 0x300, rnd.randrange(0x400)]))
        return chr(0x10000 + (rnd.choice([0, 0x40, 0x80, 0xC0, 0x100, 0x3C0]) << 10) + rnd.randrange(0x400))
    if style == "comb":
        return rnd.choice(COMBINING) if r < 0.7 else piece(rnd, "mixed", nul)
    # mixed
    return piece(rnd, rnd.choice(["astral", "astral", "bmp", "bmp", "zero", "comb"]), nul)


def gen_text(rnd, style, lo=0, hi=8, nul=False) -> str:
    target = rnd.randint(lo, hi)
    out, n = [], 0
    while n < target:
        p = piece(rnd, style, nul)
        out.append(p)
        n += len(units_of(p))
    s = "".join(out)
    selfcheck(s)
    return s


def gen_one(rnd) -> str:
    """the text of a single wchar: one code unit"""
    while True:
        u = rnd.choice(BMP + [0]) if rnd.random() < 0.6 else rnd.randrange(0x10000)
        if not 0xD800 <= u <= 0xDFFF:
            return chr(u)


def spoil(rnd, us, null_form=False):
    """-> an ill-formed sequence of the same length (None when there is none: the empty sequence), no zero unit added"""
    n = len(us)
    if n == 0:
        return None
    for _ in range(20):
        out = list(us)
        i = rnd.randrange(n)
        k = rnd.randrange(5)
        if k == 0:
            out[i] = rnd.choice([0xD800, 0xDBFF, 0xD83D, rnd.randrange(0xD800, 0xDC00)])      # a high half in front of whatever follows
        elif k == 1:
            out[i] = rnd.choice([0xDC00, 0xDFFF, 0xDE00, rnd.randrange(0xDC00, 0xE000)])      # a low half after whatever precedes
        elif k == 2 and n >= 2:
            i = rnd.randrange(n - 1)
            out[i], out[i + 1] = rnd.randrange(0xDC00, 0xE000), rnd.randrange(0xD800, 0xDC00)  # low before high
        elif k == 3:
            out[-1] = rnd.randrange(0xD800, 0xDC00)                                           # the count cuts a pair
        else:
            out[0] = rnd.randrange(0xDC00, 0xE000)                                            # starts in the middle of a pair
        if not well_formed(out):
            return out
    return None


# ------------------------------------------------------------------------------------------------ types, values, reference encoding
# type  := ("int", name) | ("w1", wname) | ("warr", wname, len) | ("sub", fields, tname) | ("subarr", ("sub", ..), k)
# len   := ("fixed", n) | ("expr", text, count member name | None, solver index) | ("null",) | ("eof",)
# field := {"name", "ty"}
# value := int | str (well-formed text) | [units] (ill-formed input of a wchar member) | {name: value} | [value] (subarr)

def alignment(ty) -> int:
    k = ty[0]
    if k == "int":
        return INTS[ty[1]][0]
    if k in ("w1", "warr"):
        return 2
    if k == "subarr":
        return alignment(ty[1])
    return max(alignment(f["ty"]) for f in ty[1])


def encode(ty, val, order) -> bytes:
    k = ty[0]
    if k == "int":
        return val.to_bytes(INTS[ty[1]][0], order, signed=INTS[ty[1]][1])
    if k == "w1":
        return raw(wunits(val), order)
    if k == "warr":
        return raw(wunits(val), order) + (b"\x00\x00" if ty[2][0] == "null" else b"")
    if k == "subarr":
        return b"".join(encode(ty[1], v, order) for v in val)
    return enc_struct(ty[1], val, order, False)[0]


def enc_struct(fields, vals, order, align, ranges=None):
    """-> (the members, the tail padding): members in declaration order, each aligned to its own alignment when `align`"""
    out = bytearray()
    for f in fields:
        if align:
            out.extend(b"\x00" * (-len(out) % alignment(f["ty"])))
        st = len(out)
        out += encode(f["ty"], vals[f["name"]], order)
        if ranges is not None:
            ranges.append((f["name"], st, len(out)))
    tail = (-len(out) % max(alignment(f["ty"]) for f in fields)) if align else 0
    return bytes(out), b"\x00" * tail


def has_eof(ty) -> bool:
    k = ty[0]
    if k == "warr":
        return ty[2][0] == "eof"
    if k == "sub":
        return any(has_eof(f["ty"]) for f in ty[1])
    return False


def wname_type(ty):
    return ty[1]


def len_text(ln) -> str:
    return {"fixed": lambda: str(ln[1]), "expr": lambda: ln[1], "null": lambda: "", "eof": lambda: "EOF"}[ln[0]]()


def render(fields, name) -> str:
    subs, lines = [], []
    for f in fields:
        ty, dims = f["ty"], ""
        if ty[0] == "subarr":
            dims, ty = f"[{ty[2]}]", ty[1]
        if ty[0] == "sub":
            if not any(ty[2] in s for s in subs):
                subs.append(render(ty[1], ty[2]))
            lines.append(f"{ty[2]} {f['name']}{dims};")
        elif ty[0] == "warr":
            lines.append(f"{ty[1]} {f['name']}[{len_text(ty[2])}];")
        else:
            lines.append(f"{ty[1]} {f['name']};")
    return "".join(subs) + f"struct {name} {{ " + " ".join(lines) + " };\n"


def ty_sexp(ty, align=False):
    k = ty[0]
    if k in ("int", "w1"):
        return [A("sc"), ty[1]]
    if k == "warr":
        ln = ty[2]
        ls = {"fixed": lambda: [A("fixed"), ln[1]], "expr": lambda: [A("expr"), ln[1]], "null": lambda: A("null"), "eof": lambda: A("eof")}[ln[0]]()
        return [A("arr"), [A("sc"), ty[1]], ls]
    if k == "subarr":
        return [A("arr"), ty_sexp(ty[1]), [A("fixed"), ty[2]]]
    return [A("struct"), 1 if align else 0, [[A("f"), f["name"], 0, ty_sexp(f["ty"]), 0] for f in ty[1]]]


def val_sexp(ty, val):
    k = ty[0]
    if k == "int":
        return [A("int"), val]
    if k in ("w1", "warr"):
        return [A("wstr"), *wunits(val)]
    if k == "subarr":
        return [A("list"), *[val_sexp(ty[1], v) for v in val]]
    return [A("rec"), *[val_sexp(f["ty"], val[f["name"]]) for f in ty[1]]]


def pyexpr(ty, val) -> str:
    k = ty[0]
    if k == "int":
        return repr(val)
    if k in ("w1", "warr"):
        return ascii(val if isinstance(val, str) else str_of_units(val))
    if k == "subarr":
        return "[" + ", ".join(pyexpr(ty[1], v) for v in val) + "]"
    return f"cs.{ty[2]}(" + ", ".join(f"{f['name']}={pyexpr(f['ty'], val[f['name']])}" for f in ty[1]) + ")"


def cfg_sexp(e):
    return [A("cfg"), A("le" if e == "<" else "be"), "uint64", [[A(k), v] for k, v in CONSTS.items()]]


# expression templates over a count member c: (text, u -> value of c or None when the text cannot give u units)
SOLVERS = [
    ("{c}", lambda u, r: u),
    ("{c} + 1", lambda u, r: u - 1 if u >= 1 else None),
    ("{c} * 2", lambda u, r: u // 2 if u % 2 == 0 else None),
    ("{c} - 1", lambda u, r: u + 1),
    ("K2 + {c}", lambda u, r: u - 2 if u >= 2 else None),
    ("{c} >> 1", lambda u, r: 2 * u + r.randrange(2)),
    ("{c} & 7", lambda u, r: u + 8 * r.randrange(4) if u < 8 else None),
    ("{c} * K2 - 1", lambda u, r: (u + 1) // 2 if u % 2 == 1 else None),
    ("({c} + 1) * 2", lambda u, r: u // 2 - 1 if (u % 2 == 0 and u >= 2) else None),
    ("{c} - 9", lambda u, r: r.randrange(9) if u == 0 else None),   # max(0, negative) = 0
    ("K3 * {c} + K2", lambda u, r: (u - 2) // 3 if (u >= 2 and (u - 2) % 3 == 0) else None),
]
CONST_EXPRS = [("K2", 2), ("K3", 3), ("K2 + 1", 3), ("K2 * K3", 6), ("K3 - K2", 1), ("K3 - K3", 0), ("(K2 + K3) * 2 - 1", 9), ("K3 >> 1", 1), ("4", 4)]


class Gen:
    def __init__(self, rnd):
        self.rnd = rnd
        self.nsub = 0

    def wform(self, allow_eof, count_ok=True):
        """-> (ty, needs a count member?)"""
        rnd = self.rnd
        w = rnd.choice(WNAMES)
        r = rnd.random()
        if allow_eof and r < 0.25:
            return ("warr", w, ("eof",))
        r = rnd.random()
        if r < 0.12:
            return ("w1", w)
        if r < 0.38:
            return ("warr", w, ("fixed", None))           # n follows the text
        if r < 0.58 and count_ok:
            return ("warr", w, ("expr", None, "?", None))   # an expression over a count member, solved for the text
        if r < 0.66:
            return ("warr", w, ("expr", None, None, None))  # a constant expression
        return ("warr", w, ("null",))

    def fields(self, sub=False, align=False):
        """the members (with their values): -> (fields, values)"""
        rnd = self.rnd
        pre = "g" if sub else "f"
        fields, vals = [], {}
        style = rnd.choice(STYLES)
        n = rnd.randint(1, 3 if sub else 5)

        def add(ty, v):
            name = f"{pre}{len(fields)}"
            fields.append({"name": name, "ty": ty})
            vals[name] = v
            return name

        for i in range(n):
            last = i == n - 1
            r = rnd.random()
            if r < 0.22:
                t = rnd.choice(list(INTS))
                size, signed = INTS[t]
                lo, hi = (-(1 << (8 * size - 1)), (1 << (8 * size - 1)) - 1) if signed else (0, (1 << (8 * size)) - 1)
                add(("int", t), rnd.choice([0, 1, hi, lo, rnd.randint(lo, hi)]))
                continue
            if r < 0.32 and not sub and not align:
                self.nsub += 1
                sf, sv = self.fields(sub=True)
                st = ("sub", sf, f"N{self.nsub}")
                if rnd.random() < 0.5:
                    add(st, sv)
                else:
                    k = rnd.randint(1, 3)
                    add(("subarr", st, k), [sv] + [self.revalue(sf, style) for _ in range(k - 1)])
                continue
            ty = self.wform(allow_eof=last and not sub)
            self.add_w(ty, style, add, vals)
        if not any(f["ty"][0] in ("w1", "warr", "sub", "subarr") for f in fields):
            self.add_w(self.wform(allow_eof=not sub), style, add, vals)
        return fields, vals

    def add_w(self, ty, style, add, vals):
        rnd = self.rnd
        if ty[0] == "w1":
            add(ty, gen_one(rnd))
            return
        w, ln = ty[1], ty[2]
        if rnd.random() < 0.15:
            style = rnd.choice(STYLES)
        if ln[0] == "null":
            add(ty, gen_text(rnd, style, 0, 9))
        elif ln[0] == "eof":
            add(ty, gen_text(rnd, style, 0, 9, nul=True))
        elif ln[0] == "fixed":
            s = gen_text(rnd, style, 0, 9, nul=True)
            add(("warr", w, ("fixed", len(units_of(s)))), s)
        elif ln[2] is None:
            text, n = rnd.choice(CONST_EXPRS)
            add(("warr", w, ("expr", text, None, None)), self.exact(style, n))
        else:
            s = gen_text(rnd, style, 0, 9, nul=True)
            u = len(units_of(s))
            order = list(range(len(SOLVERS)))
            rnd.shuffle(order)
            for si in order + [0]:
                c = SOLVERS[si][1](u, rnd)
                if c is not None:
                    break
            cname = add(("int", rnd.choice(COUNT_INTS)), c)
            if rnd.random() < 0.3:   # something between the count and the text
                if rnd.random() < 0.5:
                    add(("int", "uint8"), rnd.randrange(256))
                else:
                    add(("warr", rnd.choice(WNAMES), ("null",)), gen_text(rnd, style, 0, 4))
            add(("warr", w, ("expr", SOLVERS[si][0].format(c=cname), cname, si)), s)

    def exact(self, style, n) -> str:
        """a text of exactly n code units"""
        rnd = self.rnd
        for _ in range(50):
            s = gen_text(rnd, style, n, n, nul=True)
            if len(units_of(s)) == n:
                return s
        s = "".join(gen_one(rnd) for _ in range(n))
        selfcheck(s)
        return s

    def revalue(self, fields, style):
        """other values for the same members (the further elements of an array of structures)"""
        rnd = self.rnd
        vals = {}
        for f in fields:
            ty = f["ty"]
            if ty[0] == "int":
                size, signed = INTS[ty[1]]
                vals[f["name"]] = rnd.randrange(1 << (8 * size - 1))
            elif ty[0] == "w1":
                vals[f["name"]] = gen_one(rnd)
            else:
                ln = ty[2]
                if ln[0] == "null":
                    vals[f["name"]] = gen_text(rnd, style, 0, 6)
                elif ln[0] == "fixed":
                    vals[f["name"]] = self.exact(style, ln[1])
                elif ln[2] is None:
                    vals[f["name"]] = self.exact(style, dict(CONST_EXPRS)[ln[1]])
                else:
                    for _ in range(40):
                        s = gen_text(rnd, style, 0, 6, nul=True)
                        c = SOLVERS[ln[3]][1](len(units_of(s)), rnd)
                        if c is not None:
                            break
                    else:   # the template cannot give this length: the length it gives for c = 2
                        c = 2
                        s = self.exact(style, max(0, eval(ln[1].replace(ln[2], "2"), dict(CONSTS))))  # noqa: S307 - our own templates
                    vals[ln[2]] = c
                    vals[f["name"]] = s
        return vals

    def standalone(self):
        """-> (ty, value, how the type is obtained: statements, expression)"""
        rnd = self.rnd
        style = rnd.choice(STYLES)
        w = rnd.choice(WNAMES)
        form = rnd.choice(["w1", "fixed", "fixed", "null", "null", "null", "eof", "eof", "expr"])
        base = rnd.choice([f"cs.{w}", f"cs.resolve({w!r})"])
        if form == "w1":
            ty, val = ("w1", w), gen_one(rnd)
            if rnd.random() < 0.3:
                return ty, val, [f"cs.load('typedef {w} W1;')"], "cs.W1"
            return ty, val, [], base
        if form == "fixed":
            val = gen_text(rnd, style, 0, 10, nul=True)
            ln, idx = ("fixed", len(units_of(val))), str(len(units_of(val)))
        elif form == "null":
            val = gen_text(rnd, style, 0, 10)
            ln, idx = ("null",), "None"
        elif form == "eof":
            val = gen_text(rnd, style, 0, 10, nul=True)
            ln, idx = ("eof",), "Expression(cs, 'EOF')"
        else:
            text, n = rnd.choice(CONST_EXPRS)
            val = self.exact(style, n)
            ln, idx = ("expr", text, None, None), f"Expression(cs, {text!r})"
        ty = ("warr", w, ln)
        if rnd.random() < 0.4:
            return ty, val, [f"cs.load('typedef {w} WA[{len_text(ln)}];')"], "cs.WA"
        return ty, val, [], f"{base}[{idx}]"


def plain_of(ty, val):
    k = ty[0]
    if k == "subarr":
        return [plain_of(ty[1], v) for v in val]
    if k == "sub":
        return {f["name"]: plain_of(f["ty"], val[f["name"]]) for f in ty[1]}
    return val


def real_plain(v):
    if isinstance(v, str):
        return str(v)
    if isinstance(v, int):
        return int(v)
    if isinstance(v, list):
        return [real_plain(x) for x in v]
    return {f._name: real_plain(getattr(v, f._name)) for f in type(v).__fields__}


def wide_members(ty, val, path=()):
    """paths of the wchar members with at least one unit"""
    k = ty[0]
    if k in ("w1", "warr"):
        return [path] if len(wunits(val)) else []
    if k == "sub":
        out = []
        for f in ty[1]:
            out += wide_members(f["ty"], val[f["name"]], path + (f["name"],))
        return out
    if k == "subarr":
        out = []
        for i, v in enumerate(val):
            out += wide_members(ty[1], v, path + (i,))
        return out
    return []


def get_path(ty, val, path):
    for p in path:
        if isinstance(p, int):
            ty, val = ty[1], val[p]
        else:
            ty, val = next(f["ty"] for f in ty[1] if f["name"] == p), val[p]
    return ty, val


def set_path(val, path, new):
    """a copy of the value with the member at `path` replaced"""
    if not path:
        return new
    if isinstance(val, list):
        out = list(val)
    else:
        out = dict(val)
    out[path[0]] = set_path(val[path[0]], path[1:], new)
    return out


# ------------------------------------------------------------------------------------------------ the trials

READS = ["bytes", "stream", "reads", "read-bytearray", "read-memoryview"]
WRITES = ["dumps", "inst", "write", "redump"]


def run(R, rnd, tier):
    """R: the Runner of props/c05 (res, violation, ask, dc)"""
    res, dc = R.res, R.dc
    g = Gen(rnd)
    trials = 260 if tier == "quick" else 5000
    reported = [0]

    def viol(what, sc, tail, **data):
        reported[0] += 1
        if reported[0] > 12:   # the first ones say it all; the count goes on
            res.feat("wide:violations-not-listed")
            return
        R.violation(what, {**data, "script": sc.text(tail)})

    for t in range(trials):
        e0 = rnd.choice("<>!")
        switch = rnd.random() < 0.25
        e = rnd.choice("<>!") if switch else e0
        order = ORDER[e]
        sc = Script(dc)
        sc.do("from dissect.cstruct.expression import Expression")
        sc.do(PLAIN_SRC)
        ex = sc.do(f"cs = cstruct(endian={e0!r}); cs.load({CONST_TEXT!r})")
        if ex is not None:
            viol(f"cstruct(endian={e0!r}) / loading two #defines raised {type(ex).__name__}: {ex}", sc, ["fails = False"], endian=e0)
            continue

        # ---- the type and a value
        standalone = rnd.random() < 0.4
        compiled = align = False
        g.nsub = 0
        if standalone:
            ty, val, stmts, T = g.standalone()
            defn = "; ".join(stmts)
            body, tailpad, ranges = encode(ty, val, order), b"", None
        else:
            compiled, align = rnd.random() < 0.5, rnd.random() < 0.35
            fields, val = g.fields(align=align)
            ty, T = ("sub", fields, "S"), "cs.S"
            defn = render(fields, "S")
            stmts = [f"cs.load({defn!r}, compiled={compiled}, align={align})"]
            ranges = []
            body, tailpad = enc_struct(fields, val, order, align, ranges)
        ctx = dict(endian=e, type=T, definition=defn, compiled=compiled, align=align, switched_from=e0 if switch else None)
        bad = None
        for s in stmts:
            ex = sc.do(s)
            if ex is not None:
                bad = (s, ex)
                break
        if bad:
            viol(f"{bad[0]} raised {type(bad[1]).__name__}: {bad[1]}", sc, ["fails = False"], **ctx)
            continue
        ex = sc.do(f"T = {T}")
        if ex is not None:
            viol(f"{T} raised {type(ex).__name__}: {ex}", sc, ["fails = False"], **ctx)
            continue
        if switch:
            # the definitions were loaded (and used once) under e0; from here on everything follows e
            sc.do(f"try:\n    T(bytes.fromhex({(encode(ty, val, ORDER[e0]) if standalone else body).hex()!r}))\nexcept Exception:\n    pass")
            ex = sc.do(f"cs.endian = {e!r}")
            if ex is not None:
                viol(f"assigning cs.endian raised {type(ex).__name__}: {ex}", sc, ["fails = False"], **ctx)
                continue
        eof = has_eof(ty)
        want = plain_of(ty, val)
        full = body + tailpad            # what dumps() must give
        astral = any(u >= 0xD800 and u <= 0xDFFF for u in _all_units(ty, val))
        forms = sorted(_forms(ty))
        for k in (*[f"form={f}" for f in forms], f"endian={e}", f"standalone={standalone}", f"compiled={compiled}:align={align}",
                  f"astral={astral}", f"switched={switch}"):
            res.feat("wide:" + k)
        V = pyexpr(ty, val)
        shown_ty = f"{T} [{defn.strip()}]" if defn else T

        # ---- decode: exactly the text, exactly the bytes
        tailg = b"" if eof else _garbage(rnd, order)
        stream_done = False
        kinds = ["stream"] + rnd.sample([k for k in READS if k != "stream"], 1 if tier == "quick" else 2)
        ok_all = True
        for kind in kinds:
            pre = b""
            inp = (body if eof else full) + tailg
            if kind == "stream":
                pre = b"" if align else bytes(rnd.randrange(256) for _ in range(rnd.choice([0, 0, 1, 2, 3, 5, 8])))
                stm = [f"s = BytesIO(bytes.fromhex({(pre + inp).hex()!r})); p = s.seek({len(pre)})", "got = T(s); pos = s.tell()"]
                end = len(pre) + len(body) + len(tailpad)
                check = f"fails = plain(got) != want or pos != {end}"
            else:
                call = {"bytes": "T(data)", "reads": "T.reads(data)", "read-bytearray": "T.read(bytearray(data))",
                        "read-memoryview": "T.read(memoryview(data))"}[kind]
                stm = [f"data = bytes.fromhex({inp.hex()!r})", f"got = {call}"]
                end = None
                check = "fails = plain(got) != want"
            res.count(("wide", "read", kind, T, defn, e, inp, len(pre)))
            res.feat(f"wide:read={kind}")
            exc = None
            for s in stm:
                exc = sc.do(s)
                if exc is not None:
                    break
            tail = [f"want = {ascii(want)}", "print(ascii(plain(got)))", check]
            what0 = f"endian {e!r}{' (switched from %r after loading)' % e0 if switch else ''}: {shown_ty} read ({kind}) from {inp.hex() or '-'}"
            if exc is not None:
                viol(f"{what0} raised {type(exc).__name__}: {exc}; the bytes are the UTF-16 ({order}) encoding of {ascii(want)}", sc, tail,
                     **ctx, data=inp.hex(), expected=ascii(want))
                ok_all = False
                if kind == "stream":
                    R.ask(sx([A("read"), cfg_sexp(e), ty_sexp(ty, align), pre + inp, len(pre)]),
                          ("read", ("wide", T, defn, e, inp.hex()), ("err", impl.err_class(exc))))
                break
            got = sc.ns.get("got")
            try:
                gp = real_plain(got)
                typed = _typed(ty, got)
            except Exception:  # noqa: BLE001 - a value of another shape
                gp, typed = ("unreadable", repr(got)[:200]), False
            pos = sc.ns.get("pos") if kind == "stream" else None
            if gp != want or not typed or (end is not None and pos != end):
                viol(f"{what0} gives {ascii(gp)}{'' if end is None else ' ending at %r' % pos}; UTF-16 ({order}) decoding of the consumed bytes is "
                     f"{ascii(want)}{'' if end is None else ' ending at %d' % end}", sc, tail, **ctx, data=inp.hex(), expected=ascii(want))
                ok_all = False
                break
            if kind == "stream":
                stream_done = True
                R.ask(sx([A("read"), cfg_sexp(e), ty_sexp(ty, align), pre + inp, len(pre)]),
                      ("read", ("wide", T, defn, e, inp.hex()), ("ok", impl.canon(got), pos)))
        if not ok_all:
            continue

        # ---- encode: exactly the reference bytes
        kinds = rnd.sample(WRITES, 2 if tier == "quick" else 3)
        for kind in kinds:
            pre = b""
            if kind == "dumps":
                stm, shown = [f"out = T.dumps({V})"], f"{T}.dumps({V})"
            elif kind == "inst":
                stm = [f"out = {V}.dumps()"] if ty[0] == "sub" else [f"out = T({V}).dumps()"]
                shown = f"{V}.dumps()" if ty[0] == "sub" else f"{T}({V}).dumps()"
            elif kind == "write":
                pre = b"" if align else bytes(rnd.randrange(256) for _ in range(rnd.choice([0, 1, 3, 4])))
                stm = [f"s = BytesIO(); p = s.write({pre!r})", f"n = T.write(s, {V})", "out = s.getvalue()[p:]; head = s.getvalue()[:p]"]
                shown = f"{T}.write(stream at {len(pre)}, {V})"
            else:
                if not stream_done:
                    continue
                stm = ["out = got.dumps()"] if ty[0] == "sub" else ["out = T.dumps(got)"]
                shown = f"dumps() of the value parsed from {body.hex() or '-'}"
            res.count(("wide", "write", kind, T, defn, e, full))
            res.feat(f"wide:write={kind}")
            exc = None
            for s in stm:
                exc = sc.do(s)
                if exc is not None:
                    break
            tail = [f"want = bytes.fromhex({full.hex()!r})", "print(out.hex(), want.hex())", "fails = out != want"]
            what0 = f"endian {e!r}{' (switched from %r after loading)' % e0 if switch else ''}: {shown} [{defn.strip()}]"
            if exc is not None:
                viol(f"{what0} raised {type(exc).__name__}: {exc}; the UTF-16 ({order}) encoding is {full.hex() or '-'}", sc, tail, **ctx, expected=full.hex())
                ok_all = False
                break
            out = sc.ns.get("out")
            if out != full:
                viol(f"{what0} gives {out.hex() if isinstance(out, bytes) else repr(out)}; the UTF-16 ({order}) encoding is {full.hex() or '-'}", sc, tail,
                     **ctx, expected=full.hex())
                ok_all = False
                break
            if kind == "write" and (sc.ns.get("head") != pre or (ty[0] != "sub" and sc.ns.get("n") != len(full))):
                # (a structure's write() returns the sum of its members' sizes without padding: not a codec, not judged - see v4_c05)
                viol(f"{what0} returned {sc.ns.get('n')!r} for {len(full)} bytes written, or changed the bytes in front of the stream position", sc,
                     [f"fails = head != {pre!r}" + ("" if ty[0] == "sub" else f" or n != {len(full)}")], **ctx, expected=full.hex())
                ok_all = False
                break
        if not ok_all:
            continue
        R.ask(sx([A("write"), cfg_sexp(e), ty_sexp(ty, align), val_sexp(ty, val)]), ("write", ("wide", T, defn, e, V), ("ok", full)))

        # ---- a fault on the same type: text that is not there, text that is not UTF-16
        if rnd.random() < 0.35:
            _fault(R, rnd, sc, viol, ctx, ty, val, T, V, e, e0 if switch else None, order, align, body, ranges, eof, shown_ty)
    res.sample({"wide": "cs.wchar[None]", "endian": "<", "bytes": "410000d800dc3dd800de0000", "text": ascii("A\U00010000\U0001F600"), "consumed": 12})


def _fault(R, rnd, sc, viol, ctx, ty, val, T, V, e, e0, order, align, body, ranges, eof, shown_ty):
    res = R.res
    sw = f" (switched from {e0!r} after loading)" if e0 else ""
    kind = rnd.choice(["cut", "ill-formed", "ill-formed", "write-ill-formed"])
    if kind == "cut":
        if ty[0] == "sub":
            cands = [(a, b) for name, a, b in ranges if b > a and not has_eof(next(f["ty"] for f in ty[1] if f["name"] == name))]
            if not cands:
                return
            a, b = rnd.choice(cands)
            cut = rnd.randrange(a, b)
        else:
            if not body:
                return
            cut = rnd.randrange(len(body))
        data = body[:cut]
        expect_ok = None
        if ty[0] == "warr" and eof:
            # [EOF] takes what there is: an odd number of bytes or half a pair at the end is not text, anything else is a shorter text
            us = [int.from_bytes(data[i:i + 2], order) for i in range(0, len(data) - 1, 2)]
            if len(data) % 2 == 0 and well_formed(us):
                expect_ok = str_of_units(us)
        res.count(("wide", "cut", T, ctx["definition"], e, data))
        res.feat("wide:fault=cut")
        exc = sc.do(f"data = bytes.fromhex({data.hex()!r})") or sc.attempt("got = T(data)")
        got = sc.ns.get("got")
        if expect_ok is None:
            if exc is None:
                viol(f"endian {e!r}{sw}: {shown_ty} read from {data.hex() or '-'} - the encoding of {V} cut after {cut} of {len(body)} bytes, inside a "
                     f"member - was answered with {ascii(_safe_plain(got))}, not refused", sc, ["fails = not refused"], **ctx, data=data.hex())
            R.ask(sx([A("read"), cfg_sexp(e), ty_sexp(ty, align), data, 0]),
                  ("read", ("wide-cut", T, ctx["definition"], e, data.hex()), ("err", impl.err_class(exc)) if exc is not None else ("ok", impl.canon(got), len(data))))
        else:
            if exc is not None or _safe_plain(got) != expect_ok:
                viol(f"endian {e!r}{sw}: {shown_ty} read from {data.hex() or '-'} {'raised %s: %s' % (type(exc).__name__, exc) if exc is not None else 'gives ' + ascii(_safe_plain(got))}"
                     f"; UTF-16 ({order}) decoding of these bytes is {ascii(expect_ok)}", sc, [f"fails = refused or str(got) != {ascii(expect_ok)}"], **ctx, data=data.hex())
            else:
                R.ask(sx([A("read"), cfg_sexp(e), ty_sexp(ty, align), data, 0]), ("read", ("wide-cut", T, ctx["definition"], e, data.hex()), ("ok", impl.canon(got), len(data))))
        return
    paths = wide_members(ty, val)
    if not paths:
        return
    path = rnd.choice(paths)
    mty, mval = get_path(ty, val, path)
    us = spoil(rnd, wunits(mval))
    if us is None:
        return
    bval = set_path(val, path, us)
    where = ".".join(str(p) for p in path) or "the value"
    if kind == "ill-formed":
        if ty[0] == "sub":
            data, tp = enc_struct(ty[1], bval, order, align)
        else:
            data, tp = encode(ty, bval, order), b""
        if not eof:
            data += tp + _garbage(rnd, order)
        res.count(("wide", "ill-formed", T, ctx["definition"], e, data))
        res.feat(f"wide:fault=ill-formed:{mty[0] if mty[0] == 'w1' else mty[2][0]}")
        exc = sc.do(f"data = bytes.fromhex({data.hex()!r})") or sc.attempt("got = T(data)")
        got = sc.ns.get("got")
        if exc is None:
            viol(f"endian {e!r}{sw}: {shown_ty} read from {data.hex()}, where the units of {where} are {' '.join('%04X' % u for u in us)} - not UTF-16: an unpaired "
                 f"surrogate - was answered with {ascii(_safe_plain(got))}, not refused", sc, ["fails = not refused"], **ctx, data=data.hex())
        R.ask(sx([A("read"), cfg_sexp(e), ty_sexp(ty, align), data, 0]),
              ("read", ("wide-ill", T, ctx["definition"], e, data.hex()), ("err", impl.err_class(exc)) if exc is not None else ("ok", impl.canon(got), len(data))))
    else:
        BV = pyexpr(ty, bval)
        res.count(("wide", "write-ill-formed", T, ctx["definition"], e, BV))
        res.feat("wide:fault=write-ill-formed")
        stmt = f"out = {BV}.dumps()" if (ty[0] == "sub" and rnd.random() < 0.5) else f"out = T.dumps({BV})"
        exc = sc.attempt(stmt)
        if exc is None:
            out = sc.ns.get("out")
            viol(f"endian {e!r}{sw}: {stmt} [{ctx['definition'].strip()}] - the string of {where} has the unpaired surrogate units "
                 f"{' '.join('%04X' % u for u in us)}, it has no UTF-16 encoding - was written as {out.hex() if isinstance(out, bytes) else repr(out)}, not refused",
                 sc, ["fails = not refused"], **ctx)
        R.ask(sx([A("write"), cfg_sexp(e), ty_sexp(ty, align), val_sexp(ty, bval)]),
              ("write", ("wide-ill", T, ctx["definition"], e, BV), ("err", impl.err_class(exc)) if exc is not None else ("ok", sc.ns.get("out"))))


def _safe_plain(v):
    try:
        return real_plain(v)
    except Exception:  # noqa: BLE001
        return repr(v)[:200]


def _garbage(rnd, order) -> bytes:
    """bytes behind the value: more text, zero units, odd leftovers - none of it belongs to the value"""
    k = rnd.randrange(5)
    if k == 0:
        return b""
    if k == 1:
        return raw(units_of(gen_text(rnd, "mixed", 1, 4)), order)
    if k == 2:
        return b"\x00\x00" + raw(units_of(gen_text(rnd, "mixed", 0, 3)), order) + b"\x00\x00"
    if k == 3:
        return bytes(rnd.randrange(256) for _ in range(rnd.randint(1, 7)))
    return b"\x00" * rnd.randint(1, 5)


def _all_units(ty, val):
    k = ty[0]
    if k in ("w1", "warr"):
        return wunits(val)
    if k == "sub":
        return [u for f in ty[1] for u in _all_units(f["ty"], val[f["name"]])]
    if k == "subarr":
        return [u for v in val for u in _all_units(ty[1], v)]
    return []


def _forms(ty):
    k = ty[0]
    if k == "w1":
        return {"single"}
    if k == "warr":
        return {ty[2][0]}
    if k == "sub":
        out = set()
        for f in ty[1]:
            out |= _forms(f["ty"])
        return out | ({"nested"} if ty[2] != "S" else set())
    if k == "subarr":
        return _forms(ty[1]) | {"nested-array"}
    return set()


def _typed(ty, got) -> bool:
    """the parsed value is of the library's own classes: text members are str, integers int, records of the structure's class"""
    k = ty[0]
    if k in ("w1", "warr"):
        return isinstance(got, str)
    if k == "int":
        return isinstance(got, int)
    if k == "subarr":
        return isinstance(got, list) and len(got) == ty[2] and all(_typed(ty[1], x) for x in got)
    return all(_typed(f["ty"], getattr(got, f["name"])) for f in ty[1])
