"""C03 probe (v10), family (f): POINTER TYPES OF EVERY KIND x ways of configuring x pointer-bearing definitions x edge values.

The property quantifies over the pointer width; the library lets the pointer type be ANY type name its constructor resolves
(`cstruct(pointer=...)`) or any type object assigned later (`cs.pointer = cs.int32`).  Families (a)-(e) only ever configure the
seven unsigned widths.  The two readers build a pointer value on different paths: the interpreted reader through
`Pointer._read` (-> `cs.pointer._read`), the generated reader by putting the pack character of `cs.pointer` into the struct
format of the block and calling `Pointer.__new__` on the unpacked item (element-wise for pointer arrays) - so signedness, width
and the spelling of the pointer type are each a path of their own.

Pointer types (harness table below; what a spelling stands for is NOT taken from the library):
  the 14 fixed-width integer types  int8 .. int128 / uint8 .. uint128 (signed AND unsigned; packable 1/2/4/8 bytes and the
  arbitrary-width 3/6/16 byte ones for which the generator has to fall back), and a table of alias spellings of them
  (C names 'long long', 'unsigned short', Windows / GNU / IDA names, u1..u16, ...), plus a user typedef made by a load.
Ways the type reaches the object (MODES): constructor keyword, constructor positional, `cs.pointer = cs.<name>` (attribute of
the object) / `cs.pointer = cs.resolve(name)` on an object constructed with ANOTHER pointer type, `typedef <name> PTR_T;` loaded
and assigned, and `same-type-after-load`: constructed with the type, definition loaded, then cs.pointer assigned again through
another spelling of the SAME type (see EXCLUDED).  The definition is loaded by `load` or by `loadfile` (a real file).

Definitions (seeded PRNG): members drawn from scalar pointers (to integers, char, enums, structures, pointers), pointer arrays
of one and two dimensions, structure-pointer arrays, pointers inside nested structures and inside structure arrays, mixed with
packable scalars (so that pointer and neighbours share one struct block), and block-splitting members (int24, bit-field pairs,
null-terminated arrays, wchar, void, char arrays); and the 11 pointer-bearing kinds of family (c) alone / next to a neighbour.
x {<, >} x {packed, aligned}.

Inputs: random buffers whose pointer slots are planted with values at the edges of the representation: zero, all ones, only the
top bit, top bit + 1, largest positive, 0x..ff80 / 0x80ff.. patterns, and addresses inside / at the end of / just behind the
buffer; then every cut point of one accepted buffer; then the buffer once more through another public entry point (T(bytes),
reads(bytearray), read(memoryview / BytesIO / real file), cs.T[2], member of another structure).

Oracle (the property): compiled and interpreted classes have the same layout (size, alignment, offsets); on every input both
return equal values (pointer members compared as integers), equal recorded sizes and consumed bytes; every pointer of both
results dereferences to the same thing (value, recursively, or the same exception class; a negative address of a signed
pointer type cannot be sought in either); when exactly one raises, the input is shorter than the structure and the exception is
EOFError; a definition that loads interpreted loads compiled, falling back (`__compiled__` off) exactly where the generator
cannot handle it (a direct pointer member under a pointer type that is not 1/2/4/8 bytes wide, by the harness table).
Independent values: (1) every pointer slot at a static offset must hold int.from_bytes(slot bytes, byte order, signed = the
signedness of the configured type by the harness table) in BOTH results - so a reader that "normalises" or truncates an address
is named even if both did it; (2) size of every pointer slot = width of the type by the table; (3) the compiled result, the
layout and the compile-or-fallback decision are sent to the Lean model under the BASE type name the spelling stands for.

EXCLUDED (behaviour of the unmodified library that contradicts the property read over histories; reported, decision pending):
assigning cs.pointer to a DIFFERENT type after the definition was loaded.  The generated reader has the pack character of the
pointer type of load time baked into its struct format, the interpreted reader asks cs.pointer at read time:
    cs = cstruct(pointer='uint16'); cs.load('struct T { uint8 a; uint16 *p; uint8 b; };', compiled=C); cs.pointer = cs.int16
    cs.T(bytes([1, 0xff, 0x80, 3]))   ->  C=True: p = 0x80ff    C=False: p = -0x7f01
(with cs.pointer = cs.int8 the interpreted reader even reads one byte while the class keeps size 4).  Walked instead is the
part of that territory where the property holds: the re-assignment after load goes to another spelling of the same type
(cs.pointer = cs.long under 'int32'), which must change nothing.
Not pointer types of this family: char / wchar / void (rejected or unusable as an address in both readers), float types and the
variable-width uleb128 / ileb128 (not "integer types of a width").
"""
from __future__ import annotations

import os
import tempfile
import traceback

from . import defs, impl, s2_ptr, v9_c03
from .common import A, Infra, mkrng, sx
from .structprops import has_eof, rand_bytes, real_parse

# ------------------------------------------------------------------------------------------------ the pointer types

# base name -> (width in bytes, signed)
BASE = {"int8": (1, True), "uint8": (1, False), "int16": (2, True), "uint16": (2, False), "int24": (3, True), "uint24": (3, False),
        "int32": (4, True), "uint32": (4, False), "int48": (6, True), "uint48": (6, False), "int64": (8, True), "uint64": (8, False),
        "int128": (16, True), "uint128": (16, False)}
# alias spelling -> base name (written down from the C / Windows / GNU meaning the library documents; `long` is 32 bits there)
ALIASES = {
    "signed char": "int8", "short": "int16", "signed short": "int16", "unsigned short": "uint16", "int": "int32", "signed int": "int32",
    "unsigned int": "uint32", "long": "int32", "signed long": "int32", "unsigned long": "uint32", "long long": "int64",
    "signed long long": "int64", "unsigned long long": "uint64",
    "BYTE": "uint8", "SHORT": "int16", "WORD": "uint16", "DWORD": "uint32", "LONG": "int32", "LONG32": "int32", "LONG64": "int64",
    "LONGLONG": "int64", "QWORD": "uint64", "OWORD": "uint128", "UCHAR": "uint8", "USHORT": "uint16", "ULONG": "uint32",
    "ULONG64": "uint64", "ULONGLONG": "uint64", "INT": "int32", "INT8": "int8", "INT16": "int16", "INT32": "int32", "INT64": "int64",
    "INT128": "int128", "UINT": "uint32", "UINT8": "uint8", "UINT16": "uint16", "UINT32": "uint32", "UINT64": "uint64", "UINT128": "uint128",
    "__int8": "int8", "__int16": "int16", "__int32": "int32", "__int64": "int64", "__int128": "int128",
    "unsigned __int8": "uint8", "unsigned __int16": "uint16", "unsigned __int32": "uint32", "unsigned __int64": "uint64",
    "unsigned __int128": "uint128",
    "int8_t": "int8", "int16_t": "int16", "int32_t": "int32", "int64_t": "int64", "int128_t": "int128",
    "uint8_t": "uint8", "uint16_t": "uint16", "uint32_t": "uint32", "uint64_t": "uint64", "uint128_t": "uint128",
    "_BYTE": "uint8", "_WORD": "uint16", "_DWORD": "uint32", "_QWORD": "uint64", "_OWORD": "uint128",
    "u1": "uint8", "u2": "uint16", "u4": "uint32", "u8": "uint64", "u16": "uint128", "__u8": "uint8", "__u16": "uint16", "__u32": "uint32",
    "__u64": "uint64", "uchar": "uint8", "ushort": "uint16", "uint": "uint32", "ulong": "uint32",
}
MODES = ["ctor-keyword", "ctor-positional", "attr-getattr", "attr-resolve", "attr-typedef", "same-type-after-load"]
LOADERS = ["load", "load", "load", "loadfile"]


def base_of(spelling):
    return ALIASES.get(spelling, spelling)


def packable(base):
    return BASE[base][0] in (1, 2, 4, 8)


def spellings_of(base):
    return [base] + [a for a, b in ALIASES.items() if b == base]


# ------------------------------------------------------------------------------------------------ definitions

S = lambda n: ("sc", n)  # noqa: E731
SCALARS = ["uint8", "int8", "uint16", "int16", "uint32", "int32", "uint64", "int64", "char", "float", "double"]
TARGETS = ["uint8", "int8", "uint16", "uint32", "int32", "uint64", "char", "int24"]


def F(name, ty, bits=None):
    return {"name": name, "ty": ty, "bits": bits}


class PtrDefs:
    """pointer-bearing structure definitions"""

    def __init__(self, rnd):
        self.rnd, self.n = rnd, 0

    def name(self):
        self.n += 1
        return f"m{self.n}"

    def target(self, depth):
        rnd = self.rnd
        r = rnd.random()
        if r < 0.5:
            return S(rnd.choice(TARGETS))
        if r < 0.6:
            return ("enum", rnd.choice(["E8", "F16", "E32"]))
        if r < 0.75:
            return ("ptr", S(rnd.choice(TARGETS)))
        if depth > 0:
            # a structure behind the pointer, sometimes with a pointer of its own (what it dereferences to holds pointers again)
            fs = [F(self.name(), S(rnd.choice(["uint8", "uint16", "int32"])))]
            if rnd.random() < 0.5:
                fs.insert(rnd.choice([0, 1]), F(self.name(), ("ptr", S(rnd.choice(TARGETS)))))
            return ("struct", fs)
        return S("uint16")

    def pointer_member(self, depth):
        rnd = self.rnd
        k = rnd.choice(["ptr", "ptr", "ptr", "arr", "arr", "arr1", "arr2d", "pp", "cptr", "sparr"])
        n = self.name()
        if k == "ptr":
            return F(n, ("ptr", self.target(depth)))
        if k == "arr":
            return F(n, ("arr", ("ptr", self.target(depth)), ("fixed", rnd.choice([2, 2, 3, 4]))))
        if k == "arr1":
            return F(n, ("arr", ("ptr", S(rnd.choice(TARGETS))), ("fixed", 1)))
        if k == "arr2d":
            return F(n, ("arr", ("arr", ("ptr", S(rnd.choice(TARGETS))), ("fixed", 2)), ("fixed", rnd.choice([1, 2]))))
        if k == "pp":
            return F(n, ("ptr", ("ptr", S(rnd.choice(TARGETS)))))
        if k == "cptr":
            return F(n, rnd.choice([("ptr", S("char")), ("arr", ("ptr", S("char")), ("fixed", 2))]))
        ent = ("struct", [F(self.name(), S("uint16")), F(self.name(), S("uint8"))])
        return F(n, ("arr", ("ptr", ent), ("fixed", rnd.choice([2, 3]))))

    def breaker(self):
        rnd = self.rnd
        k = rnd.choice(["int", "bits", "dyn", "wchar", "void", "carr", "zero"])
        n = self.name()
        if k == "int":
            return [F(n, S(rnd.choice(["int24", "uint24", "uint48", "int128"])))]
        if k == "bits":
            bt, w = rnd.choice([("uint8", 8), ("uint16", 16), ("uint32", 32)])
            a = rnd.randint(1, w - 1)
            return [F(n + "a", S(bt), a), F(n + "b", S(bt), rnd.randint(1, w - a))]
        if k == "dyn":
            return [F(n, ("arr", S(rnd.choice(["uint8", "uint16", "char"])), ("null",)))]
        if k == "wchar":
            return [F(n, rnd.choice([S("wchar"), ("arr", S("wchar"), ("fixed", 2))]))]
        if k == "void":
            return [F(n, S("void"))]
        if k == "carr":
            return [F(n, ("arr", S("char"), ("fixed", rnd.choice([1, 3]))))]
        return [F(n, ("arr", S("uint32"), ("fixed", 0)))]

    def fields(self, depth, n=None, p_break=0.12):
        rnd = self.rnd
        n = n or rnd.randint(1, 5)
        out = []
        have = False
        for _ in range(n):
            r = rnd.random()
            if r < p_break:
                out += self.breaker()
            elif r < 0.5:
                out.append(self.pointer_member(depth))
                have = True
            elif r < 0.62 and depth > 0:
                inner = ("struct", self.fields(depth - 1, rnd.randint(1, 3), p_break=0.08))
                out.append(F(self.name(), inner if rnd.random() < 0.6 else ("arr", inner, ("fixed", 2))))
                have = True
            else:
                t = S(rnd.choice(SCALARS))
                out.append(F(self.name(), t if rnd.random() < 0.85 else ("arr", t, ("fixed", rnd.choice([1, 2, 3])))))
        if not have:
            out.insert(rnd.randint(0, len(out)), self.pointer_member(depth))
        return out

    def struct(self):
        return ("struct", self.fields(self.rnd.choice([1, 1, 2])))


# ------------------------------------------------------------------------------------------------ slots and edge values

def _base_array():
    return s2_ptr._base_array()


def slot_paths(T, base=0, path="", out=None):
    """[(path, offset)] of every pointer stored at a statically known offset below class T, in the path notation of
    s2_ptr.deref_observations (members, array elements)"""
    m = impl.dc()
    out = [] if out is None else out
    if isinstance(T, type) and issubclass(T, m.Pointer):
        out.append((path, base))
    elif isinstance(T, type) and issubclass(T, _base_array()):
        n, esz = T.num_entries, s2_ptr.static_size(T.type)
        if isinstance(n, int) and not T.null_terminated and esz is not None:
            for i in range(max(0, n)):
                slot_paths(T.type, base + i * esz, f"{path}[{i}]", out)
    elif isinstance(T, type) and issubclass(T, m.Structure) and not issubclass(T, m.Union):
        for f in T.__fields__:
            if f.offset is not None and not f.bits:
                slot_paths(f.type, base + f.offset, f"{path}.{f._name}", out)
    return out


def edge_patterns(psz, n):
    """unsigned bit patterns at the edges of a psz-byte representation and addresses around a buffer of n bytes"""
    bits = 8 * psz
    top = (1 << bits) - 1
    hi = 1 << (bits - 1)
    edges = [0, top, hi, hi + 1, hi - 1, top - 1, hi | 0x7F, int("80" + "ff" * (psz - 1), 16), int("ff" * (psz - 1) + "80", 16) if psz > 1 else 0x80,
             hi | (n // 2 if n // 2 < hi else 1), 1]
    inside = [x for x in (0, 1, n // 2, max(0, n - 1), n, n + 1, n + 17) if x <= top]
    return [e & top for e in edges], inside


def plant(rnd, data, slots, psz, endian):
    """overwrite the pointer slots that lie inside `data`: 45 % an edge of the representation, 40 % an address in / around the
    buffer, 15 % what the random bytes were; -> (bytes, how many slots got a pattern with the top bit set)"""
    order = "little" if endian == "<" else "big"
    buf = bytearray(data)
    edges, inside = edge_patterns(psz, len(buf))
    ntop = 0
    for off in slots:
        if off + psz > len(buf):
            continue
        r = rnd.random()
        if r < 0.45:
            v = rnd.choice(edges)
        elif r < 0.85:
            v = rnd.choice(inside) if rnd.random() < 0.5 else rnd.randrange(0, max(1, len(buf)))
            v &= (1 << (8 * psz)) - 1
        else:
            v = int.from_bytes(buf[off:off + psz], order)
        buf[off:off + psz] = v.to_bytes(psz, order)
        ntop += v >> (8 * psz - 1)
    return bytes(buf), ntop


# ------------------------------------------------------------------------------------------------ loading under a history

def _assign_script(spelling, how):
    if how == "getattr" and spelling.isidentifier():
        return f"cs.pointer = cs.{spelling}"
    return f"cs.pointer = cs.resolve({spelling!r})"


def _assign(cs, spelling, how):
    cs.pointer = getattr(cs, spelling) if (how == "getattr" and spelling.isidentifier()) else cs.resolve(spelling)


def load_view(tree, spelling, mode, other, again, endian, align, compiled, loader, tmpdir):
    """-> (Loaded view, script); raises whatever the library raises.  `other`: the pointer type the object is constructed with in the
    attr-* modes; `again`: another spelling of the same type (same-type-after-load)"""
    m = impl.dc()
    L = object.__new__(impl.Loaded)
    L.tree, L.endian, L.align, L.compiled, L.pointer = tree, endian, align, compiled, base_of(spelling)
    L.text = defs.PREAMBLE + "#define K2 2\n#define K0 0\n" + defs.render_struct("T", tree)
    steps = ["from dissect.cstruct import cstruct"]
    if mode in ("ctor-keyword", "same-type-after-load"):
        steps.append(f"cs = cstruct(endian={endian!r}, pointer={spelling!r})")
        L.cs = m.cstruct(endian=endian, pointer=spelling)
    elif mode == "ctor-positional":
        steps.append(f"cs = cstruct({endian!r}, {spelling!r})")
        L.cs = m.cstruct(endian, spelling)
    else:
        steps.append(f"cs = cstruct(endian={endian!r}, pointer={other!r})")
        L.cs = m.cstruct(endian=endian, pointer=other)
        if mode == "attr-typedef":
            td = f"typedef {spelling} PTR_T;"
            steps.append(f"cs.load({td!r}); cs.pointer = cs.PTR_T")
            L.cs.load(td)
            L.cs.pointer = L.cs.PTR_T
        else:
            how = "getattr" if mode == "attr-getattr" else "resolve"
            steps.append(_assign_script(spelling, how))
            _assign(L.cs, spelling, how)
    if loader == "loadfile":
        path = os.path.join(tmpdir, "def.h")
        with open(path, "w") as fh:
            fh.write(L.text)
        steps.append(f"open('/tmp/def.h', 'w').write({L.text!r}); cs.loadfile('/tmp/def.h', compiled={compiled}, align={align})")
        L.cs.loadfile(path, compiled=compiled, align=align)
    else:
        steps.append(f"cs.load({L.text!r}, compiled={compiled}, align={align})")
        L.cs.load(L.text, compiled=compiled, align=align)
    if mode == "same-type-after-load":
        steps.append(_assign_script(again, "getattr"))
        _assign(L.cs, again, "getattr")
    L.T = L.cs.T
    steps.append("T = cs.T")
    return L, "\n".join(steps)


def direct_pointer_classes(tree, T):
    """[(path, class)] of the structure classes of the definition (top included) that have a direct member which is a pointer or an
    array (of arrays) of pointers - decided on the GENERATOR TREE, the class is only looked up"""
    out = []
    for path, sub, cls in impl.aggregates(tree, T):
        if sub[0] != "struct":
            continue
        for f in sub[1]:
            t = f["ty"]
            while t[0] == "arr":
                t = t[1]
            if t[0] == "ptr":
                out.append((path, cls))
                break
    return out


# ------------------------------------------------------------------------------------------------ the family

def run(env, res, eng, ptr_kinds):
    """ptr_kinds: (pointer field makers, neighbour makers) of family (c) of the check"""
    rnd = mkrng(env["seed"], "c03-v10-pointer-types")
    quick = env["tier"] == "quick"
    files = v9_c03.Files()
    tmpdir = tempfile.mkdtemp(prefix="v10c03-")
    made = []

    def safe_parse(T, data):
        try:
            return real_parse(T, data)
        except Exception as e:  # noqa: BLE001 - the parse returned something the harness cannot observe (canon / _sizes raise)
            return ("err", "observing the result raises " + type(e).__name__ + ": " + str(e)[:100]), None

    def safe_deref(o):
        try:
            return s2_ptr.deref_observations(o)
        except Exception as e:  # noqa: BLE001
            return [("<walk>", -1, ("err", "walking the pointers raises " + type(e).__name__))]

    def probe_(tree, spelling, mode, endian, align, loader, kind):
        base = base_of(spelling)
        psz, signed = BASE[base]
        other = rnd.choice([b for b in BASE if b != base])
        again = rnd.choice([s for s in spellings_of(base) if s != spelling] or [spelling])
        views = []
        for compiled in (False, True):
            try:
                views.append(load_view(tree, spelling, mode, other, again, endian, align, compiled, loader, tmpdir))
            except Exception as e:  # noqa: BLE001
                views.append((None, e))
        (Li, si), (Lc, sc_) = views
        made.extend(L for L in (Li, Lc) if L is not None)
        text = defs.render_struct("T", tree)

        def cd_of(L, script, **kw):
            d = eng.case_data(L, **kw)
            d.update(pointer_spelling=spelling, pointer_stands_for=base, configured=mode, loader=loader, family="f:" + kind)
            d["repro"] = script
            return d

        tag = f"pointer type {spelling!r} ({mode}, {endian}, {'aligned' if align else 'packed'})"
        if Li is None or Lc is None:
            if Li is None and Lc is not None:
                eng.report(f"{tag}: the definition loads compiled but not interpreted ({type(si).__name__}: {si})", cd_of(Lc, sc_), [])
            elif Lc is None and Li is not None:
                eng.report(f"{tag}: the definition loads interpreted but fails compiled instead of falling back: {type(sc_).__name__}: {sc_}",
                           cd_of(Li, si), [])
            else:
                # an integer type of the table that the constructor / the assignment / the load rejects in both modes
                eng.report(f"{tag}: the definition cannot be loaded with either reader: {type(si).__name__}: {str(si)[:200]}",
                           {"definition": text, "endian": endian, "align": align, "pointer": spelling, "configured": mode, "loader": loader}, [])
            return
        Ti, Tc = Li.T, Lc.T
        res.feat("family-f:pointer-type:" + base)
        res.feat("family-f:" + ("signed" if signed else "unsigned") + (":packable" if packable(base) else ":arbitrary-width"))
        res.feat("family-f:spelled:" + ("base-name" if spelling == base else "alias"))
        res.feat("family-f:configured:" + mode)
        res.feat("family-f:loader:" + loader)
        res.feat("family-f:definitions:" + kind)
        res.feat("family-f:compiled-flag:" + str(getattr(Tc, "__compiled__", None)))
        for k, v in defs.features(tree).items():
            res.feat(k, v)
        cd0 = cd_of(Lc, sc_)
        # ---- layout
        lay_i = (Ti.size, Ti.alignment, [f.offset for f in Ti.__fields__])
        lay_c = (Tc.size, Tc.alignment, [f.offset for f in Tc.__fields__])
        if getattr(Ti, "__compiled__", False):
            eng.report(f"{tag}: a definition loaded with compiled=False has a generated reader installed", cd_of(Li, si), [])
        if lay_i != lay_c:
            eng.report(f"{tag}: compiled and interpreted classes differ in size/alignment/offsets: {lay_c} vs {lay_i}", cd0, [])
        eng.model_layout(Lc, ("ok", lay_c), [])
        # ---- fallback exactly where the generator cannot handle the class (by the harness table)
        for path, cls in direct_pointer_classes(tree, Tc):
            flag = getattr(cls, "__compiled__", None)
            if not packable(base):
                res.feat("family-f:fallback-required:arbitrary-width-pointer")
                if flag:
                    eng.report(f"{tag}: {path} has pointer members and a {psz}-byte pointer type is not struct-packable, but the class did not fall "
                               f"back to the interpreted reader (__compiled__ is True)", cd0, [])

        def cb_cmp(s, raw, meta, flag=bool(getattr(Tc, "__compiled__", False))):
            if (s[0] == "fallback") == flag:
                eng.disagree(f"{tag}: the real class has __compiled__ = {flag}, the Lean model of the compiler answers {raw[:160]}", meta, [])
        eng.ask(sx([A("compile"), Lc.cfg_sexp(), Lc.ty_sexp()]), cb_cmp, cd0)
        # ---- the pointer slots
        paths = slot_paths(Ti)
        slots = [o for _, o in paths]
        for T_, who in ((Ti, "interpreted"), (Tc, "compiled")):
            got = getattr(T_.cs.pointer, "size", None)
            if got != psz:
                eng.report(f"{tag}: cs.pointer.size of the {who} object is {got}, the type is {psz} bytes wide", cd0, [])
        size = Ti.size if Ti.size is not None else 40
        order = "little" if endian == "<" else "big"
        bufs = []
        for _ in range(3):
            d = rand_bytes(rnd, size + rnd.choice([0, 3, 9]))
            if len(d) >= size:
                d += rand_bytes(rnd, rnd.choice([0, 6, 24]))
            d, ntop = plant(rnd, d, slots, psz, endian)
            if ntop:
                res.feat("family-f:slot-with-top-bit-set" + (":signed" if signed else ":unsigned"), ntop)
            bufs.append(d)
        accepted = None
        for data in bufs:
            wi, oi = safe_parse(Ti, data)
            wc, oc = safe_parse(Tc, data)
            res.count(("f", text, spelling, mode, endian, align, data), len(tree[1]) >= 2)
            cd = cd_of(Lc, sc_ + f"\nT(bytes.fromhex({data.hex()!r}))", data=data)
            complete = Ti.size is not None and len(data) >= Ti.size
            if wi[0] == "ok" and wc[0] == "ok":
                di, dcm = safe_deref(oi), safe_deref(oc)
                if not impl.same_val(wi[1], wc[1]) or wi[2] != wc[2] or wi[3] != wc[3]:
                    # name the member when it is a pointer
                    where = next((f"; member {pa[1:]}: compiled {ab}, interpreted {aa}" for (pa, aa, _), (_, ab, _) in zip(di, dcm) if aa != ab), "")
                    eng.report(f"{tag}: compiled gives {str(wc)[:260]}, interpreted gives {str(wi)[:260]}{where}", cd, [])
                else:
                    if di or dcm:
                        res.feat("family-f:deref-compared", len(di))
                    if len(di) != len(dcm):
                        eng.report(f"{tag}: the compiled result holds {len(dcm)} pointers, the interpreted one {len(di)}", cd, [])
                    for (pa, aa, oa), (pb, ab, ob) in zip(di, dcm):
                        res.feat("family-f:deref-outcome:" + oa[0])
                        if (pa, aa) != (pb, ab) or not s2_ptr.same_outcome(oa, ob):
                            eng.report(f"{tag}: dereferencing {pa[1:]} (address {aa}): the compiled reader's pointer gives {s2_ptr.show(ob)}, the "
                                       f"interpreted reader's gives {s2_ptr.show(oa)}", dict(cd, member=pa[1:], address=aa), [])
                            break
                # independent value of every pointer at a static offset: the slot bytes under the byte order and the signedness of the type
                for who, obs in (("compiled", dcm), ("interpreted", di)):
                    seen = {p: a for p, a, _ in obs}
                    for p, off in paths:
                        if off + psz > len(data):
                            continue
                        want = int.from_bytes(data[off:off + psz], order, signed=signed)
                        if p not in seen:
                            eng.report(f"{tag}: the {who} result has no pointer at {p[1:]} (offset {off})", dict(cd, member=p[1:]), [])
                            break
                        if seen[p] != want:
                            eng.report(f"{tag}: member {p[1:]} holds the bytes {data[off:off + psz].hex()}, which is {want} as {base} ({order} endian); "
                                       f"the {who} reader returns {seen[p]}", dict(cd, member=p[1:], expected=want, got=seen[p]), [])
                            break
                        res.feat("family-f:slot-value-checked")
                accepted = accepted or data
            elif wi[0] != wc[0]:
                bad = [w for w in (wi, wc) if w[0] == "err" and w[1] != "EOFError"]
                if complete or bad:
                    eng.report(f"{tag}: compiled gives {str(wc)[:200]}, interpreted gives {str(wi)[:200]} on {'a complete' if complete else 'an'} "
                               f"input of {len(data)} bytes", cd, [])
                else:
                    res.feat("family-f:short-input:one-reader-raises")
            elif complete and wi[1] != wc[1]:
                eng.report(f"{tag}: on a complete input the compiled reader raises {wc[1]}, the interpreted one {wi[1]}", cd, [])
            if wc[0] == wi[0] and (wc[0] == "ok" or wc[1] in impl.ERRMAP.values()):
                eng.model_read(Lc, data, 0, wc, f"{tag}: compiled reader vs model of the interpreted reader", [])
        if accepted is None:
            return
        # ---- every cut point of one accepted buffer
        full, _ = safe_parse(Ti, accepted)
        for k in range(min(len(accepted), (full[2] if full[0] == "ok" else 0) + 1)):
            cut = accepted[:k]
            wi, _ = safe_parse(Ti, cut)
            wc, _ = safe_parse(Tc, cut)
            res.count(("f", text, spelling, mode, endian, align, cut), False)
            cdk = cd_of(Lc, sc_ + f"\nT(bytes.fromhex({cut.hex()!r}))", data=cut)
            if wi[0] == "ok" and wc[0] == "ok" and (not impl.same_val(wi[1], wc[1]) or wi[2] != wc[2] or wi[3] != wc[3]):
                eng.report(f"{tag}, cut at {k}: compiled gives {str(wc)[:200]}, interpreted gives {str(wi)[:200]}", cdk, [])
            for who, w in (("interpreted", wi), ("compiled", wc)):
                if w[0] == "err" and w[1] != "EOFError" and not has_eof(tree):
                    eng.report(f"{tag}, cut at {k}: the {who} reader raises {w[1]} instead of EOFError", cdk, [])
        # ---- the accepted buffer once more through other public entry points
        for entry in rnd.sample(v9_c03.ENTRIES, 1 if quick else 2):
            if entry == "member-of-struct" and Ti.size is None:
                entry = "array-of-2"
            if entry == "array-of-2" and (Ti.size is None or Ti.size == 0):
                entry = "call-bytes"
            body = accepted if entry not in ("array-of-2", "member-of-struct") else accepted[:Ti.size]
            base_i, _ = safe_parse(Ti, body)
            base_c, _ = safe_parse(Tc, body)
            ei, ec = v9_c03.via_entry(Li, entry, body, files), v9_c03.via_entry(Lc, entry, body, files)
            res.feat("family-f:entry:" + entry)
            res.count(("f-entry", text, spelling, mode, endian, align, entry, body), len(tree[1]) >= 2)
            cde = cd_of(Lc, sc_ + "\n" + v9_c03.entry_script(entry, body), data=body, entry=entry)
            if ei[0] != ec[0]:
                eng.report(f"{tag}, {entry}: compiled gives {str(ec)[:200]}, interpreted gives {str(ei)[:200]}", cde, [])
            elif ei[0] == "ok":
                if len(ei[1]) != len(ec[1]) or not all(impl.same_val(a, b) for a, b in zip(ei[1], ec[1])) or ei[2] != ec[2]:
                    eng.report(f"{tag}, {entry}: compiled gives {str(ec)[:260]}, interpreted gives {str(ei)[:260]}", cde, [])
                for who, b0, got in (("interpreted", base_i, ei), ("compiled", base_c, ec)):
                    if b0[0] == "ok" and not all(impl.same_val(b0[1], v) and b0[3] == s for v, s in zip(got[1], got[2])):
                        eng.report(f"{tag}, {entry}: the {who} reader returns {str(got)[:200]} through this entry point, {str(b0)[:200]} from a stream",
                                   cde, [])
            elif entry in ("call-bytes", "reads-bytearray", "read-memoryview", "read-stream", "read-file") and base_c[0] == "ok":
                eng.report(f"{tag}, {entry}: both readers raise ({ec[1]}: {ec[2]}) on a buffer the stream parse accepts", cde, [])

    def probe(tree, spelling, mode, endian, align, loader, kind):
        try:
            probe_(tree, spelling, mode, endian, align, loader, kind)
        except Infra:
            raise
        except Exception as e:  # noqa: BLE001 - the library handed out something the observation code cannot walk
            eng.report(f"pointer type {spelling!r} ({mode}): observing the loaded classes / parsed values raised {type(e).__name__}: {str(e)[:200]}",
                       {"definition": defs.render_struct("T", tree), "endian": endian, "align": align, "pointer": spelling, "configured": mode,
                        "traceback": traceback.format_exc()[-1500:]}, [])
        finally:
            # memory hygiene (as in the main probe of the check): the library never frees a cstruct object on which a structure was defined
            for L in made:
                try:
                    L.cs.typedefs.clear()
                except Exception:  # noqa: BLE001 - housekeeping only
                    pass
            made.clear()
            if len(eng.lines) > 4000:
                eng.flush()

    def cfg():
        return rnd.choice("<>"), rnd.random() < 0.5, rnd.choice(LOADERS)

    bases = list(BASE)
    aliases = list(ALIASES)
    try:
        # ---- generated pointer-bearing definitions under every base type (signed and unsigned, every width)
        for _ in range(14 if quick else 150):
            for base in bases:
                tree = PtrDefs(rnd).struct()
                if quick:
                    probe(tree, base, rnd.choice(MODES), *cfg(), "generated")
                else:
                    loader = rnd.choice(LOADERS)
                    for endian in "<>":
                        for align in (False, True):
                            probe(tree, base, rnd.choice(MODES), endian, align, loader, "generated")
        # ---- ... under the alias spellings
        for spelling in (rnd.sample(aliases, 40) if quick else aliases * 4):
            probe(PtrDefs(rnd).struct(), spelling, rnd.choice(MODES), *cfg(), "generated")
        # ---- the pointer-bearing kinds of family (c), alone / next to a neighbour / in pairs
        ptrs, near = ptr_kinds
        pk, nk = list(ptrs), list(near)
        for _ in range(5 if quick else 40):
            for base in bases:
                seq = [ptrs[rnd.choice(pk)]]
                if rnd.random() < 0.7:
                    seq.insert(rnd.choice([0, 1]), near[rnd.choice(nk)] if rnd.random() < 0.7 else ptrs[rnd.choice(pk)])
                fields = []
                for i, mk in enumerate(seq):
                    fields += mk(f"f{i}")
                spelling = base if rnd.random() < 0.7 else rnd.choice(spellings_of(base))
                probe(("struct", fields), spelling, rnd.choice(MODES), *cfg(), "c")
    finally:
        files.close()
        try:
            for n in os.listdir(tmpdir):
                os.unlink(os.path.join(tmpdir, n))
            os.rmdir(tmpdir)
        except OSError:
            pass
    res.sample({"definition": defs.render_struct("T", PtrDefs(mkrng(env["seed"], "c03-v10-sample")).struct()), "pointer": "int32",
                "note": "family (f): pointer types of every kind"}, cap=8)
