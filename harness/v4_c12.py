"""C12 shadowing probes (round 4): "members without an explicit value continue from the previous one ... and explicit values may be
expressions over earlier members" - on a cstruct object that ALREADY HOLDS CONSTANTS OF THE SAME NAMES.

One cstruct instance usually lives through several `load()` calls (one per header).  The constants of the earlier headers
(`#define NAME value`, `#define NAME (expr)`, members of an anonymous `enum { ... };` / `flag { ... };`, `cs.consts[NAME] = v` set by
hand) stay registered on the object.  A later enum/flag may well declare a member called like one of them (BASE, LIMIT, MASK, len ...)
and refer to it in the initialiser of a following member (`NEXT = BASE + 1`, `ALL = LIMIT | X`) or simply continue from it
implicitly.  Inside the braces the members declared so far are what those names mean - exactly as in C, where the enumerator is in
scope from its own declarator on - so the numbering must be the C rule computed with the enum's own members in scope, whatever
unrelated constants the object holds.

Per case (all choices from the module's seeded PRNG):
  * a history of 1-3 `load()` calls (interpreted or compiled) plus assignments to `cs.consts` that registers constants: some whose
    names COLLIDE with member names of the declaration that follows (values chosen different from the member's value, sometimes
    equal as a control), some free ones (KA, KB, STEP, SHIFT) that the declaration legitimately refers to; the constants come
    before the declaration in an earlier `load()` or in the same text;
  * an enum or flag over one of 11 underlying integer types (or the default type), 2-7 members named from a pool of ordinary
    names, with literals, implicit members, expressions over one or two EARLIER MEMBERS, expressions mixing an earlier member and
    a free constant; written on one line or one member per line; either endianness;
  * a structure with the type as scalar, `[2]` array and two bit-fields (3 and 5 bits), interpreted or compiled, optionally
    aligned behind a one-byte member.
Oracles (property as stated, on observable behaviour):
  * the member table equals the C numbering computed by the props module's independent `oracle_numbering` (members so far shadow
    the constants; names that are not members resolve to the constants);
  * the same declaration loaded on a fresh object that only holds the free constants gives the same table (the unrelated
    constants make no difference);
  * for every member value v: the underlying bytes of v parse to an object with integer value v that equals (both directions) every
    member declared with v and no other member, carries one of their names (enum; flag when v is named), and dumps back to the
    bytes; `E(v)` likewise; inside the structure the scalar, both array elements and (when v fits) the bit-fields give the member,
    and the structure dumps back to its bytes;
  * the Lean numbering fold gets the same declaration with ALL constants of the object (correspondence, via the caller's lists).
Domain notes: member values are kept within 0..0x7f so that every underlying type holds them and F22 (negative flag values) is not
met; the member names `size`, `alignment`, `dynamic`, `cs`, `type` are not used (the library rejects them as member names, see POOL); an
initialiser only refers to members declared before it or to constants whose names are not members of the declaration (what
a name means BEFORE its own enumerator is declared is not stated by C12); alignment is only combined with underlying types of
1, 2, 4, 8 bytes (alignment = size, layout computed here).
"""
from __future__ import annotations

from .common import A, sx

BASES = {"uint8": (1, False), "int8": (1, True), "uint16": (2, False), "int16": (2, True), "uint32": (4, False), "int32": (4, True),
         "uint64": (8, False), "int64": (8, True), "uint24": (3, False), "int24": (3, True), "uint128": (16, False)}
# EXCLUDED from the member names (reported, not judged here): `size`, `alignment`, `dynamic`, `cs`, `type`.  The unmodified library
# rejects an enum/flag with a member of one of these names - `cstruct().load("enum E { size = 1 };")` raises
# `AttributeError: cannot reassign member 'size'` (the names are attributes of the type classes) - whatever constants the object
# holds, so it is not the shadowing this family is about; every other ordinary identifier is accepted.
POOL = ["BASE", "LIMIT", "NEXT", "LAST", "MASK", "LOW", "HIGH", "ALL", "READ", "WRITE", "len", "length", "count", "X", "Y", "MAX",
        "MIN", "NONE", "FIRST", "STEP2", "K1", "off"]
FREE = ["KA", "KB", "STEP", "SHIFT"]
CONST_VALUES = [0x100, 0x101, 0x40, 0x80, 1000, 77, 3, 0, 1, 2, 0xFFFF, 16, 9, 0x7F, 5, 32, 0x200, 12]
FREE_VALUES = {"KA": [1, 2, 4], "KB": [3, 5, 8], "STEP": [1, 2, 16], "SHIFT": [1, 2, 3]}


def _lit(rnd, v):
    return rnd.choice([str(v), hex(v), str(v)] + (["0b" + bin(v)[2:]] if v < 16 else []))


def gen_decl(rnd, is_flag, oracle, free):
    """-> (members [(name, expr | None)], referenced: names of members that a LATER member's initialiser refers to,
           followed: names of members that are followed by an implicit member, used_free: free constants referred to)"""
    n = rnd.randint(2, 7)
    names = rnd.sample(POOL, n)
    out, referenced, followed, used_free = [], set(), set(), set()

    def ok(cand):
        try:
            vals = oracle(is_flag, out + [cand], free)
        except Exception:  # noqa: BLE001
            return False
        return all(isinstance(v, int) and 0 <= v <= 0x7F for v in vals.values())

    for i, nm in enumerate(names):
        for _attempt in range(8):
            r = rnd.random()
            refs, fr = [], None
            if i == 0:
                if r < 0.7:
                    ex = _lit(rnd, rnd.choice([1, 2, 4, 8, 0x10] if is_flag else [0, 1, 2, 3, 5, 7, 10, 20]))
                elif r < 0.85:
                    ex = None
                else:
                    fr = rnd.choice(FREE)
                    ex = rnd.choice([fr, f"{fr} + 1", f"{fr} << 1"])
            elif r < 0.22:
                ex = None
            elif r < 0.32:
                ex = _lit(rnd, rnd.choice([1, 2, 4, 8, 0x10, 0x20, 0x40, 3] if is_flag else [0, 1, 2, 5, 7, 10, 20, 50, 100]))
            elif r < 0.80:
                a = rnd.choice(names[:i])
                b = rnd.choice(names[:i])
                if is_flag:
                    ex, refs = rnd.choice([(f"{a} | {b}", [a, b]), (f"{a} << 1", [a]), (f"{a} | 0x40", [a]), (f"({a} | {b}) & 0x7f", [a, b]),
                                           (f"{a} * 2", [a]), (f"{a}", [a]), (f"{a} << 2", [a]), (f"{a} | {b} | 1", [a, b])])
                else:
                    ex, refs = rnd.choice([(f"{a} + 1", [a]), (f"{a} + {b}", [a, b]), (f"{a} * 2", [a]), (f"({a} + 3) & 0x3f", [a]),
                                           (f"{a} << 1", [a]), (f"{a} | {b}", [a, b]), (f"{a}", [a]), (f"{a} + 10", [a]),
                                           (f"{a} * {b} + 1", [a, b]), (f"{a}+2", [a])])
            else:
                a = rnd.choice(names[:i])
                fr = rnd.choice(FREE)
                ex, refs = rnd.choice([(f"{fr} + {a}", [a]), (f"{a} | {fr}", [a]), (f"{a} << {fr}", [a]), (f"({a} + {fr}) * 2", [a])])
            if ok((nm, ex)):
                break
        else:
            ex, refs, fr = None, [], None
            if not ok((nm, ex)):
                break  # the implicit continuation leaves 0..0x7f: the declaration ends here
        if ex is None and out:
            followed.add(out[-1][0])
        referenced.update(refs)
        if fr:
            used_free.add(fr)
        out.append((nm, ex))
    return out, referenced, followed, used_free


def _define_text(rnd, name, v):
    """one `#define` line whose value is v, as a literal or as an expression"""
    forms = [str(v), hex(v)]
    if v > 1 and v & (v - 1) == 0:
        forms.append(f"(1 << {v.bit_length() - 1})")
    if v > 0:
        forms += [f"({v - 1} + 1)", f"{hex(v)} | 0"]
    return f"#define {name} {rnd.choice(forms)}\n"


def build_history(rnd, consts, same_load):
    """distribute the constants {name: value} over the ways to register them -> (steps, ways)
    steps: [("load", text) | ("set", name, value)] in order; ways: {name: way}"""
    ways = {}
    groups = {"define": [], "anon-enum": [], "anon-flag": [], "by-hand": []}
    for name, v in consts.items():
        w = rnd.choice(["define", "define", "anon-enum", "anon-enum", "anon-flag", "by-hand"])
        ways[name] = w
        groups[w].append((name, v))
    texts = []
    if groups["define"]:
        texts.append("".join(_define_text(rnd, k, v) for k, v in groups["define"]))
    for kw, key in (("enum", "anon-enum"), ("flag", "anon-flag")):
        if groups[key]:
            ty = rnd.choice(["", " : uint16", " : uint32", " : int32"])
            body, prev = [], None
            for k, v in groups[key]:
                implicit = kw == "enum" and prev is not None and v == prev + 1 and rnd.random() < 0.5
                body.append(k if implicit else f"{k} = {rnd.choice([str(v), hex(v)])}")
                prev = v
            texts.append(f"{kw}{ty} {{ {', '.join(body)} }};\n")
    rnd.shuffle(texts)
    steps = [("set", k, v) for k, v in groups["by-hand"]]
    pre = ""
    if same_load:
        pre = "".join(texts)          # the constants stand in the text of the declaration itself, before it
    elif texts:
        if len(texts) > 1 and rnd.random() < 0.5:
            cut = rnd.randint(1, len(texts) - 1)
            steps += [("load", "".join(texts[:cut])), ("load", "".join(texts[cut:]))]
        else:
            steps.append(("load", "".join(texts)))
        rnd.shuffle(steps)
    return steps, ways, pre


def _eqlaws(x, y, same):
    """`==` in both directions says `same`, `!=` in both directions says the opposite"""
    return bool(x == y) == same and bool(y == x) == same and bool(x != y) != same and bool(y != x) != same


def shadow_probes(rnd, res, viol, dc, tier, oracle, lines, metas):
    for i in range(140 if tier == "quick" else 2500):
        is_flag = rnd.random() < 0.45
        kw = "flag" if is_flag else "enum"
        base = rnd.choice(list(BASES))
        size, signed = BASES[base]
        default_type = rnd.random() < 0.08
        if default_type:
            base, size, signed = "uint32", 4, False
        endian = rnd.choice("<>")
        compiled = rnd.random() < 0.5
        aligned = size in (1, 2, 4, 8) and rnd.random() < 0.4
        lead = aligned or rnd.random() < 0.3
        free = {k: rnd.choice(v) for k, v in FREE_VALUES.items()}
        members, referenced, followed, used_free = gen_decl(rnd, is_flag, oracle, free)
        if len(members) < 2:
            continue
        want = oracle(is_flag, members, free)
        # ---- the constants the object holds before the declaration
        names = [n for n, _ in members]
        control = rnd.random() < 0.1                      # no collision at all: the same machinery, nothing shadowed
        coll = set()
        if not control:
            hot = [n for n in names if n in referenced] or [n for n in names if n in followed] or names[:-1]
            if rnd.random() < 0.25:
                hot = [n for n in names if n in followed] or hot
            coll.add(rnd.choice(hot))
            coll |= {n for n in names if rnd.random() < 0.3}
        consts = {}
        for n in names:
            if n in coll:
                v = rnd.choice(CONST_VALUES)
                if v == want[n] and rnd.random() < 0.9:
                    v = want[n] + rnd.choice([1, 0x100, 7])
                consts[n] = v
        for k in FREE:
            if k in used_free or rnd.random() < 0.3:
                consts[k] = free[k]
        if rnd.random() < 0.3:
            consts[f"OTHER{i}"] = rnd.choice(CONST_VALUES)
        korder = list(consts)
        rnd.shuffle(korder)
        consts = {k: consts[k] for k in korder}
        same_load = rnd.random() < 0.25
        steps, ways, pre = build_history(rnd, consts, same_load)
        # ---- the declaration and a structure around it
        sep = rnd.choice([", ", ", ", ",\n    ", " ,  "])
        body = sep.join(n if e is None else f"{n} = {e}" for n, e in members)
        head = f"{kw} E{i}" + ("" if default_type else rnd.choice([f" : {base}", f": {base}", f" :{base} "]))
        text = (f"{pre}{head} {{ {body} }};\n"
                f"struct S{i} {{ {'uint8 lead; ' if lead else ''}E{i} one; E{i} arr[2]; E{i} lo : 3; E{i} hi : 5; }};")
        script = [f"from dissect.cstruct import cstruct; cs = cstruct(endian={endian!r})"]
        hist_compiled = rnd.random() < 0.5
        for st in steps:
            script.append(f"cs.consts[{st[1]!r}] = {st[2]}" if st[0] == "set" else f"cs.load({st[1]!r}, compiled={hist_compiled})")
        script.append(f"cs.load({text!r}, compiled={compiled}, align={aligned}); E = cs.E{i}; S = cs.S{i}")
        script.append("print({k: int(m.value) for k, m in E.__members__.items()})")
        data = {"history": [list(s) for s in steps], "declaration": text, "constants_on_the_object": dict(consts), "registered_via": ways,
                "endian": endian, "compiled": compiled, "align": aligned, "c_numbering": want, "repro": "\n".join(script)}
        try:
            cs = dc.cstruct(endian=endian)
            for st in steps:
                if st[0] == "set":
                    cs.consts[st[1]] = st[2]
                else:
                    cs.load(st[1], compiled=hist_compiled)
            held = {k: int(cs.consts[k]) for k in consts if not same_load or ways[k] == "by-hand"}
        except Exception as e:  # noqa: BLE001 - the constants are the setting, not the claim: but they are plain definitions
            viol(f"registering plain constants (#define / anonymous enum / cs.consts) raises {type(e).__name__}: {e}", data)
            continue
        if held != {k: v for k, v in consts.items() if k in held}:
            # (not C12) the setting could not be established: the object does not hold the constants that were defined; counted, not judged
            res.feat("shadow:setting-not-established (constants of the history not held by the object)")
            continue
        try:
            cs.load(text, compiled=compiled, align=aligned)
            E, S = getattr(cs, f"E{i}"), getattr(cs, f"S{i}")
            mem = dict(E.__members__)
            got = {k: int(m.value) for k, m in mem.items()}
        except Exception as e:  # noqa: BLE001
            viol(f"declaration whose member names coincide with constants of the object rejected: {type(e).__name__}: {e}", data)
            continue
        hot_ref = sorted(n for n in coll if n in referenced)
        res.count((data["repro"], "shadow-members"), True)
        res.feat(f"shadow:{kw}:" + ("no-collision (control)" if not coll else "colliding-member-referenced-by-later-initialiser" if hot_ref
                                    else "colliding-member-followed-by-implicit" if coll & followed else "colliding-member-not-used-later"))
        for k in coll:
            res.feat(f"shadow:constant-via:{ways[k]}:" + ("same-load" if same_load and ways[k] != "by-hand" else "earlier-load"))
        res.feat(f"shadow:{kw}:{'default-type' if default_type else base}")
        res.feat("shadow:struct:" + ("compiled" if compiled else "interpreted") + (":aligned" if aligned else ""))
        lines.append(sx([A("enumvals"), int(is_flag), [[A(k), v] for k, v in consts.items()], [[n, A("none")] if e is None else [n, e] for n, e in members]]))
        metas.append(("enumvals", data, got))
        if got != want:
            wrong = [k for k in want if got.get(k) != want[k]]
            viol(f"member values {got}; the C numbering with the declaration's own members in scope gives {want} "
                 f"(first wrong member {wrong[0] if wrong else '?'}; the object holds constants {consts})", data)
            continue
        # the unrelated constants make no difference: a fresh object that only knows the free constants
        try:
            cs2 = dc.cstruct(endian=endian)
            for k in FREE:
                cs2.consts[k] = free[k]
            cs2.load(f"{head} {{ {body} }};", compiled=compiled)
            got2 = {k: int(m.value) for k, m in getattr(cs2, f"E{i}").__members__.items()}
        except Exception as e:  # noqa: BLE001
            viol(f"the same declaration on a fresh object raises {type(e).__name__}: {e}", data)
            continue
        if got2 != got:
            viol(f"member values {got} on the object with constants, {got2} on a fresh object", data)
            continue
        # ---- parsing the underlying values gives the right members
        order = "little" if endian == "<" else "big"
        bits = 8 * size
        mv = sorted(set(want.values()))
        if tier == "quick" and len(mv) > 5:
            mv = sorted(rnd.sample(mv, 5))
        lo_max, hi_max = (4, 16) if signed else (8, 32)
        small = [v for v in sorted(set(want.values())) if v < lo_max] or [1]
        for v in mv:
            named = [k for k in want if want[k] == v]
            raw = v.to_bytes(size, order, signed=signed)
            v2 = rnd.choice(sorted(set(want.values())))
            blo = v if v < lo_max else rnd.choice(small)
            bhi = v if v < hi_max else rnd.choice(small)
            unit = (blo | bhi << 3) if endian == "<" else (blo << (bits - 3) | bhi << (bits - 8))
            leadb = (bytes([rnd.randrange(256)]) + bytes(size - 1 if aligned else 0)) if lead else b""
            sraw = leadb + raw + v2.to_bytes(size, order, signed=signed) + raw + unit.to_bytes(size, order)
            d2 = dict(data, value=v, members_with_that_value=named, bytes=raw.hex(), struct_bytes=sraw.hex())
            d2["repro"] += (f"\nx = E(bytes.fromhex({raw.hex()!r})); s = S(bytes.fromhex({sraw.hex()!r}))\n"
                            f"print(repr(x), 'expected one of', {named!r}, s)")
            res.count((data["repro"], "shadow-value", v), True)
            try:
                x = E(raw)
                objs = [("E(bytes)", x, v), ("E(int)", E(v), v)]
                s = S(sraw)
                objs += [("struct field", s.one, v), ("struct array element [0]", s.arr[0], v2), ("struct array element [1]", s.arr[1], v),
                         ("bit-field lo:3", s.lo, blo), ("bit-field hi:5", s.hi, bhi)]
                back, sback = x.dumps(), s.dumps()
            except Exception as e:  # noqa: BLE001
                viol(f"obtaining member value {v} ({named}) from data raises {type(e).__name__}: {e}", d2)
                continue
            bad = None
            for how, o, ov in objs:
                try:
                    if int(o.value) != ov or int(o) != ov:
                        bad = f"{how}: the object has value {int(o.value)}, the underlying integer is {ov}"
                        break
                    for k, m in mem.items():
                        same = want[k] == ov
                        if not _eqlaws(o, m, same):
                            bad = f"{how} for value {ov} gives {o!r}; member {k} = {want[k]}: == / != do not follow the values"
                            break
                    if bad:
                        break
                    onamed = [k for k in want if want[k] == ov]
                    if onamed and o.name not in onamed:
                        bad = f"{how} for value {ov} gives {o!r} (name {o.name!r}); the value is declared as {onamed}"
                        break
                except Exception as e:  # noqa: BLE001
                    bad = f"{how} for value {ov}: examining the object raises {type(e).__name__}: {e}"
                    break
            if bad:
                viol(bad, d2)
                continue
            if back != raw:
                viol(f"member value {v} dumps to {back.hex()}, the underlying bytes are {raw.hex()}", d2)
            elif sback != sraw:
                viol(f"structure with the members dumps to {sback.hex()}, its data bytes are {sraw.hex()}", d2)
