"""Definition *sets* for C07: several structures loaded into ONE cstruct instance whose array element types are
distinct but share their `__name__`.

Ways in which two different element types get the same name (all legal, all seen in real definition files):
  * every structure declares its own locally tagged nested structure/union with the same tag and another body
        struct S0 { uint8 n; struct entry { uint8 a; } a[n]; uint8 tail; };
        struct S1 { uint8 n; struct entry { uint16 a; uint16 b; } a[n]; uint8 tail; };
  * a registered type is re-registered with another body (`cs.add_type(name, other, replace=True)`) and later
    structures refer to it by name,
  * the built-in pair int48 / uint48 (both classes are called `int48` in the type table).
The set is described as a history of steps (load text / add_type) so that a replay can rebuild the instance, and every
member comes with the generator tree the reference parser understands.
"""
from __future__ import annotations

import random

from . import defs, impl
from .common import A

S = lambda n: ("sc", n)  # noqa: E731


def F(name, ty, bits=None):
    return {"name": name, "ty": ty, "bits": bits}


# bodies of `entry`; sizes 1, 4, 2, 2, 3 (4 aligned), 4, 4, 6, 2 — several share a size so that fixed-size arrays meet too
BODIES = {
    "u8": ("struct", [F("a", S("uint8"))]),
    "u16u16": ("struct", [F("a", S("uint16")), F("b", S("uint16"))]),
    "u8u8": ("struct", [F("a", S("uint8")), F("b", S("uint8"))]),
    "u16": ("struct", [F("a", S("uint16"))]),
    "u8u16": ("struct", [F("a", S("uint8")), F("b", S("uint16"))]),
    "u32": ("struct", [F("v", S("uint32"))]),
    "i8i8i16": ("struct", [F("a", S("int8")), F("b", S("int8")), F("c", S("int16"))]),
    "u24i24": ("struct", [F("a", S("uint24")), F("b", S("int24"))]),
    "e8u8": ("struct", [F("a", ("enum", "E8")), F("b", S("uint8"))]),
    # not usable as null-terminated element (variable size / union)
    "dyn": ("struct", [F("k", S("uint8")), F("d", ("arr", S("uint8"), ("expr", "k & 1")))]),
    "union": ("union", [F("a", S("uint16")), F("b", S("uint8"))]),
}
NULL_OK = ["u8", "u16u16", "u8u8", "u16", "u8u16", "u32", "i8i8i16", "u24i24", "e8u8"]
EXPR_TEXTS = ["n", "n & 3", "(n & 1) + K2", "n % 3", "K2"]
FORMS = ["expr", "null", "eof", "fixed"]


def length_of(form, rnd):
    if form == "expr":
        return ("expr", rnd.choice(EXPR_TEXTS))
    if form == "null":
        return ("null",)
    if form == "eof":
        return ("eof",)
    return ("fixed", rnd.randint(1, 3))


def len_text(ln):
    return {"fixed": lambda: str(ln[1]), "expr": lambda: ln[1], "null": lambda: "", "eof": lambda: "EOF"}[ln[0]]()


def render_member(name, elem, dims, how, tag="entry"):
    """`how`: 'tagged' (struct <tag> { body } a[..];), 'byname' (<tag> a[..];), 'scalar'"""
    suffix = "".join(f"[{len_text(d)}]" for d in dims)
    if how == "scalar":
        decl = f"{elem[1]} a{suffix};"
    elif how == "byname":
        decl = f"{tag} a{suffix};"
    else:
        body = " ".join(defs.render_field(g, None) for g in elem[1])
        decl = f"{elem[0]} {tag} {{ {body} }} a{suffix};"
    tail = "" if dims[-1][0] == "eof" or dims[0][0] == "eof" else " uint8 tail;"
    return f"struct {name} {{ uint8 n; {decl}{tail} }};\n"


def member_tree(elem, dims):
    t = elem
    for d in reversed(dims):  # dims are in C order (outermost first)
        t = ("arr", t, d)
    fs = [F("n", S("uint8")), F("a", t)]
    if not any(d[0] == "eof" for d in dims):
        fs.append(F("tail", S("uint8")))
    return ("struct", fs)


class Member:
    """one structure of a loaded set, with the attributes structprops.Engine expects of an impl.Loaded"""

    def __init__(self, owner, name, tree, form, en):
        self.owner, self.name, self.tree, self.form, self.en = owner, name, tree, form, en
        self.endian, self.align, self.compiled, self.pointer = owner.endian, owner.align, owner.compiled, owner.pointer
        self.cs = owner.cs
        self.T = getattr(owner.cs, name)
        self.text = owner.text

    def cfg_sexp(self):
        return [A("cfg"), A("le" if self.endian == "<" else "be"), self.pointer, [[A(k), v] for k, v in impl.CONSTS.items()]]

    def ty_sexp(self):
        return impl.real_ty_sexp(self.tree, self.T, self.align)


class LoadedSet:
    """runs a history of steps on one fresh cstruct instance"""

    def __init__(self, plan, *, endian="<", align=False, compiled=False, pointer="uint64"):
        m = impl.dc()
        self.plan, self.endian, self.align, self.compiled, self.pointer = plan, endian, align, compiled, pointer
        self.cs = m.cstruct(endian=endian, pointer=pointer)
        self.cs.load(defs.PREAMBLE + "#define K2 2\n#define K0 0\n")
        lines = [f"cs = cstruct(endian={endian!r}, pointer={pointer!r}); cs.load({defs.PREAMBLE + '#define K2 2' + chr(10) + '#define K0 0' + chr(10)!r})"]
        for step in plan["steps"]:
            if step[0] == "load":
                self.cs.load(step[1], compiled=compiled, align=align)
                lines.append(f"cs.load({step[1]!r}, compiled={compiled}, align={align})")
            elif step[0] == "reregister":  # ("reregister", type name, structure whose member `a` has the new element type)
                t = getattr(self.cs, step[2]).fields["a"].type
                while hasattr(t, "num_entries"):
                    t = t.type
                self.cs.add_type(step[1], t, replace=True)
                lines.append(f"t = cs.{step[2]}.fields['a'].type\nwhile hasattr(t, 'num_entries'): t = t.type\ncs.add_type({step[1]!r}, t, replace=True)")
        self.text = "\n".join(lines)
        self.members = [Member(self, nm, tree, form, en) for nm, tree, form, en in plan["members"]]


def make_plan(rnd: random.Random):
    """-> {"kind", "steps": [...], "members": [(struct name, tree, form, element label)]}"""
    kind = rnd.choices(["tagged", "reregister", "int48"], [0.6, 0.2, 0.2])[0]
    shared_form = rnd.choice(FORMS + ["mixed"])
    shared_len = {f: length_of(f, rnd) for f in FORMS}
    nmem = rnd.randint(2, 4)

    def pick_dims(body_key=None):
        form = rnd.choice(FORMS) if shared_form == "mixed" else shared_form
        if body_key in ("dyn", "union") and form == "null":
            form = "expr"
        ln = shared_len[form] if rnd.random() < 0.8 else length_of(form, rnd)
        dims = [ln]
        if form in ("expr", "fixed") and rnd.random() < 0.2:
            dims = [("fixed", rnd.randint(1, 2)), ln]  # a[2][n]: 2 rows of n
        return form, dims

    steps, members = [], []
    if kind == "int48":
        names = ["uint48", "int48"]
        rnd.shuffle(names)
        names += [rnd.choice(["uint48", "int48"]) for _ in range(nmem - 2)]
        text = ""
        for i, sc in enumerate(names):
            form, dims = pick_dims()
            text += render_member(f"S{i}", S(sc), dims, "scalar")
            members.append((f"S{i}", member_tree(S(sc), dims), form, sc))
        steps.append(("load", text))
    else:
        keys = rnd.sample(list(BODIES), nmem)
        if rnd.random() < 0.3:
            keys[-1] = keys[0]  # the same body again after another one: reuse of the right type must still work
        if kind == "tagged":
            text = ""
            for i, k in enumerate(keys):
                form, dims = pick_dims(k)
                text += render_member(f"S{i}", BODIES[k], dims, "tagged")
                members.append((f"S{i}", member_tree(BODIES[k], dims), form, "entry:" + k))
            if rnd.random() < 0.5:
                steps.append(("load", text))
            else:  # one load call per structure
                steps += [("load", t + "\n") for t in text.strip().split("\n")]
        else:
            # struct entry registered with body 0 and used by name; a second structure brings its own entry; entry is re-registered
            # with that body; a third structure uses the name again
            k0, k1 = keys[0], keys[1]
            body0 = " ".join(defs.render_field(g, None) for g in BODIES[k0][1])
            form, dims = pick_dims(k0)
            steps.append(("load", f"{BODIES[k0][0]} entry {{ {body0} }};\n" + render_member("S0", BODIES[k0], dims, "byname")))
            members.append(("S0", member_tree(BODIES[k0], dims), form, "entry:" + k0))
            form, dims = pick_dims(k1)
            steps.append(("load", render_member("S1", BODIES[k1], dims, "tagged")))
            members.append(("S1", member_tree(BODIES[k1], dims), form, "entry:" + k1))
            steps.append(("reregister", "entry", "S1"))
            form, dims = pick_dims(k1)
            steps.append(("load", render_member("S2", BODIES[k1], dims, "byname")))
            members.append(("S2", member_tree(BODIES[k1], dims), form, "entry:" + k1))
    return {"kind": kind, "steps": steps, "members": members}
