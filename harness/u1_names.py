"""u1: C08 probe family "array lengths that are evaluated through the field context, under unusual-but-legal names".

An array length expression is looked up at read time: first among the members of the same structure parsed before the array,
then among the constants of the instance; the single identifier `EOF` additionally means "to the end of the stream" - but only
when no member / constant of that name exists.  Whether an array has a definite extent is therefore decided by NAMES, and the
code that decides it (try / except around the evaluation) sits right next to the element read.  The random definition
generator only ever calls its count members f1, f2, ...; this module builds definitions in which the count is

  * a member with an unusual name: EOF and its look-alikes, names of constants / enum members / types, Python keywords and
    names the generated readers use for their own locals (stream, context, r, buf, ...);
  * a constant of such a name, defined before or after the structure; a constant AND a member of the same name (the member wins);
  * in every position: array last / followed by more members / two arrays over one name / inside a nested structure (itself last,
    followed, or the element of an array) / a name that lives in the OUTER structure only (the inner structure does not see it:
    constant or, for `EOF`, a genuine to-end-of-stream array) / either dimension of a two dimensional array / a bit-field count /
    an element structure with a count member of the same name of its own;
  * behind every shape of expression that evaluates to the count:  NAME, NAME * 1, (NAME), NAME & 7, K2 * NAME - NAME, ...

and emits valid-by-construction inputs (all bytes up to the end carry data) together with the reference value and data mask of
harness/refimpl.py.  The caller (props/c08.py) cuts the input at every point and faults every read call.
"""
from __future__ import annotations

import random

from . import defs, impl, refimpl
from .common import A

S = lambda n: ("sc", n)  # noqa: E731


def F(name, ty, bits=None):
    return {"name": name, "ty": ty, "bits": bits}


# names that break the structure object itself (known finding F19 of C17) are left out: self, cls, __class__, _values, _sizes, dumps, write
NAMES_EOF = ["EOF"]
NAMES_NEAR = ["eof", "_EOF", "EOF_", "EOF2", "Eof", "NULL", "EOFError"]
NAMES_KNOWN = ["A", "Z", "E8", "uint8", "char", "sizeof", "len", "size", "count", "struct", "d", "e", "K1"]   # enum members / types / look-alikes
NAMES_PY = ["if", "in", "is", "or", "not", "and", "class", "def", "None", "True", "lambda", "from", "stream", "context", "r", "s", "o", "buf",
            "data", "lengths", "sizes", "type", "fields", "value", "name", "result", "endian", "cs", "i", "_", "__", "x1", "N"]

ELEMS = {
    "char": S("char"), "wchar": S("wchar"), "uint8": S("uint8"), "int8": S("int8"), "uint16": S("uint16"), "int16": S("int16"), "uint24": S("uint24"),
    "int32": S("int32"), "uint64": S("uint64"), "E8": ("enum", "E8"), "F16": ("enum", "F16"), "E32": ("enum", "E32"), "float": S("float"),
    "uleb128": S("uleb128"), "struct": ("struct", [F("x", S("uint8")), F("y", S("uint16"))]),
}
EXPRS = ["{n}", "{n}", "{n}", "{n}", "{n} * 1", "{n}+0", "({n})", "{n} & 7", "{n} | 0", "{n} - K0", "K2 * {n} - {n}", "{n} << 0", "{n}*K2/2"]
COUNT_TYPES = [S("uint8"), S("uint8"), S("uint8"), S("uint16"), S("int8"), S("uint32"), ("enum", "E8")]
SHAPES = ["member-last", "member-last", "member-mid", "two", "nested-last", "nested-mid", "nested-array", "outer-const", "outer-eof", "const",
          "const+member", "2d-outer", "2d-inner", "bits", "dyn-elem"]


def pick_name(rnd: random.Random) -> str:
    r = rnd.random()
    if r < 0.4:
        return "EOF"
    if r < 0.55:
        return rnd.choice(NAMES_NEAR)
    if r < 0.7:
        return rnd.choice(NAMES_KNOWN)
    return rnd.choice(NAMES_PY)


def plan(rnd: random.Random, shape: str | None = None, *, name: str | None = None, bare: bool = False):
    """-> {tree, name, shape, consts (name -> value), early (constants defined before the structure), real_eof};
    bare: every length expression is the bare name"""
    shape = shape or rnd.choice(SHAPES)
    nm = name or pick_name(rnd)
    if shape == "outer-eof":
        nm = "EOF"
    en = rnd.choice(list(ELEMS))
    elem = ELEMS[en]
    ct = rnd.choice(COUNT_TYPES)
    exprs = ["{n}"] if bare else EXPRS
    ex = rnd.choice(exprs).format(n=nm)
    consts, early, real_eof = {}, False, False
    used = {"pre", "mid", "tail", "nest", "k", "x", "y", "fill", nm}

    def other(cands):
        return next(c for c in cands if c not in used)

    dn = other(["d", "dd"])
    used.add(dn)
    pre = [F("pre", S(rnd.choice(["uint8", "uint16", "uint8"])))] if rnd.random() < 0.6 else []
    mid = [F("mid", S(rnd.choice(["uint8", "uint16"])))] if rnd.random() < 0.3 else []
    tail = [F("tail", S(rnd.choice(["uint8", "uint16", "uint32"])))]
    arr = ("arr", elem, ("expr", ex))
    if shape == "member-last":
        fields = pre + [F(nm, ct)] + mid + [F(dn, arr)]
    elif shape == "member-mid":
        fields = pre + [F(nm, ct)] + mid + [F(dn, arr)] + tail
    elif shape == "two":
        en2 = rnd.choice(list(ELEMS))
        e2 = other(["e", "ee"])
        fields = pre + [F(nm, ct), F(dn, arr), F(e2, ("arr", ELEMS[en2], ("expr", rnd.choice(exprs + EXPRS).format(n=nm))))] + (tail if rnd.random() < 0.4 else [])
    elif shape in ("nested-last", "nested-mid", "nested-array"):
        inner = ("struct", mid + [F(nm, ct), F(dn, arr)])
        if shape == "nested-array":
            inner = ("arr", inner, ("fixed", 2))
        fields = pre + [F("nest", inner)] + (tail if shape == "nested-mid" or rnd.random() < 0.3 else [])
    elif shape == "outer-const":
        # the member of the OUTER structure is not visible to the inner one: the inner length comes from the constant
        consts[nm] = rnd.randint(1, 3)
        early = rnd.random() < 0.5
        fields = pre + [F(nm, ct), F("nest", ("struct", [F("k", S("uint8")), F(dn, arr)]))] + (tail if rnd.random() < 0.5 else [])
    elif shape == "outer-eof":
        # ... and without a constant the inner `d[EOF]` is a genuine to-end-of-stream array (set aside by the property)
        real_eof = True
        fields = pre + [F(nm, ct), F("nest", ("struct", [F("k", S("uint8")), F(dn, ("arr", elem, ("eof",)))]))]
    elif shape == "const":
        consts[nm] = rnd.randint(1, 4)
        early = rnd.random() < 0.5
        fields = (pre or [F("pre", S("uint8"))]) + [F(dn, arr)] + (tail if rnd.random() < 0.5 else [])
    elif shape == "const+member":
        consts[nm] = rnd.randint(5, 9)   # defined AFTER the structure (before it: known finding F45 of C07); the member wins
        fields = pre + [F(nm, ct)] + mid + [F(dn, arr)] + (tail if rnd.random() < 0.5 else [])
    elif shape == "2d-outer":
        fields = pre + [F(nm, ct), F(dn, ("arr", ("arr", elem, ("fixed", 2)), ("expr", ex)))] + (tail if rnd.random() < 0.5 else [])
    elif shape == "2d-inner":
        fields = pre + [F(nm, ct), F(dn, ("arr", ("arr", elem, ("expr", ex)), ("fixed", 2)))] + (tail if rnd.random() < 0.5 else [])
    elif shape == "bits":
        fields = pre + [F(nm, S("uint8"), 4), F("fill", S("uint8"), 4), F(dn, arr)] + (tail if rnd.random() < 0.5 else [])
    elif shape == "dyn-elem":
        el = ("struct", [F(nm, S("uint8")), F("x", ("arr", S(rnd.choice(["uint8", "uint16", "char"])), ("expr", rnd.choice(exprs).format(n=nm))))])
        fields = pre + [F(nm, ct), F(dn, ("arr", el, ("expr", ex)))] + (tail if rnd.random() < 0.5 else [])
    else:
        raise ValueError(shape)
    return {"tree": ("struct", fields), "name": nm, "shape": shape, "consts": consts, "early": early, "real_eof": real_eof, "en": en, "expr": ex}


class View:
    """one structure `T` on its own cstruct instance with extra constants defined before / after it; has the attributes
    structprops.Engine expects of an impl.Loaded"""

    def __init__(self, pl, *, endian="<", align=False, compiled=False, pointer="uint64"):
        m = impl.dc()
        self.plan, self.tree = pl, pl["tree"]
        self.endian, self.align, self.compiled, self.pointer = endian, align, compiled, pointer
        self.consts = dict(impl.CONSTS)
        self.consts.update(pl["consts"])
        pre = defs.PREAMBLE + "#define K2 2\n#define K0 0\n"
        cdefs = "".join(f"#define {k} {v}\n" for k, v in pl["consts"].items())
        stext = defs.render_struct("T", pl["tree"])
        self.cs = m.cstruct(endian=endian, pointer=pointer)
        steps = [(pre + cdefs, False), (stext, True)] if pl["early"] else [(pre, False), (stext, True), (cdefs, False)]
        lines = [f"from dissect.cstruct import cstruct; cs = cstruct(endian={endian!r}, pointer={pointer!r})"]
        for text, is_struct in steps:
            if not text:
                continue
            if is_struct:
                self.cs.load(text, compiled=compiled, align=align)
                lines.append(f"cs.load({text!r}, compiled={compiled}, align={align})")
            else:
                self.cs.load(text)
                lines.append(f"cs.load({text!r})")
        self.steps = lines          # structprops.Engine.case_data takes the reproduction from `session.steps` / `session.script`
        self.session = self
        self.text = stext + (("(constants, defined " + ("before" if pl["early"] else "after") + " the structure) " + cdefs) if cdefs else "")
        self.T = self.cs.T

    def script(self, extra=()) -> str:
        return "\n".join([*self.steps, *extra])

    def cfg_sexp(self):
        return [A("cfg"), A("le" if self.endian == "<" else "be"), self.pointer, [[A(k), v] for k, v in self.consts.items()]]

    def ty_sexp(self):
        return impl.real_ty_sexp(self.tree, self.T, self.align)

    def cfg(self):
        return refimpl.Cfg(self.endian, self.align, self.pointer, self.consts)


# ------------------------------------------------------------------------------------------------ input

NZ = [1, 2, 0x41, 0x7F, 0x80, 0xFF, 0xFE]


def _scalar_bytes(rnd, name, cfg):
    kind, size, signed, _ = refimpl.sc(name)
    if kind == "leb":
        return bytes(0x80 | rnd.randrange(128) for _ in range(rnd.choice([0, 0, 1, 2]))) + bytes([rnd.randrange(1, 128)])
    if kind == "wchar":
        b = bytes([rnd.choice([0x41, 0x61, 0xAC, 0x20]), rnd.choice([0x00, 0x20, 0x4E, 0xFF])])
        return b if cfg.endian == "little" else b[::-1]
    if kind == "flt":
        b = bytes(rnd.choice(NZ) for _ in range(size - 1)) + bytes([rnd.choice([0x3F, 0x40, 0xBF, 0xC0])])
        return b if cfg.endian == "little" else b[::-1]
    return bytes(rnd.choice(NZ) for _ in range(size))


def _align_of(ty, cfg):
    k = ty[0]
    if k == "arr":
        return _align_of(ty[1], cfg)
    if k == "struct":
        return max([_align_of(f["ty"], cfg) for f in ty[1]] or [1])
    return refimpl.size_align(ty, cfg)[1]


def _emit(rnd, ty, cfg, out: bytearray, ctx, name, counts):
    k = ty[0]
    if k == "struct":
        sal = _align_of(ty, cfg)
        if cfg.align:
            out += bytes(-len(out) % sal)
        inner = {}
        fs = ty[1]
        i = 0
        while i < len(fs):
            f = fs[i]
            if f["bits"]:
                # the only bit-field run this module makes: two 4-bit fields on one uint8
                v, fill = rnd.choice(counts), rnd.randrange(16)
                out.append((v | (fill << 4)) if cfg.endian == "little" else ((v << 4) | fill))
                inner[f["name"]] = v
                inner[fs[i + 1]["name"]] = fill
                i += 2
                continue
            if cfg.align:
                out += bytes(rnd.choice([0, 0xCC]) for _ in range(-len(out) % _align_of(f["ty"], cfg)))
            _emit(rnd, f["ty"], cfg, out, inner, f["name"], counts)
            i += 1
        if cfg.align:
            out += bytes(-len(out) % sal)
        return
    if k == "arr":
        ln = ty[2]
        if ln[0] == "fixed":
            n = ln[1]
        elif ln[0] == "expr":
            n = max(0, refimpl.eval_expr(ln[1], {key: [A("int"), v] for key, v in ctx.items()}, cfg.consts))
        else:  # a genuine to-end-of-stream array (always the last thing emitted)
            n = rnd.choice([0, 1, 2, 3, 5])
        for _ in range(n):
            _emit(rnd, ty[1], cfg, out, ctx, None, counts)
        return
    base = ty[1] if k == "sc" else defs.ENUMS[ty[1]][1]
    _, size, _, _ = refimpl.sc(base)
    if name is not None and size is not None and refimpl.sc(base)[0] == "int":
        # an integer member: a small value (it may be a count); recorded for the expressions that follow
        v = rnd.choice(counts)
        ctx[name] = v
        out += (v % (1 << (8 * size))).to_bytes(size, cfg.endian)
        return
    out += _scalar_bytes(rnd, base, cfg)


def make_input(rnd: random.Random, pl, cfg: refimpl.Cfg) -> bytes:
    """bytes for the plan's structure in which every byte up to the end belongs to the value; counts are small (1..4, now and
    then 0)"""
    out = bytearray()
    counts = rnd.choice([[1, 2, 3, 4], [1, 2, 3, 4], [2, 3], [0, 1, 2], [1]])
    _emit(rnd, pl["tree"], cfg, out, {}, None, counts)
    return bytes(out)


def reference(pl, data: bytes, cfg: refimpl.Cfg):
    """-> (value, end, index of the last data-carrying byte) by the independent reference parser, or None"""
    try:
        v, end, mask = refimpl.parse(pl["tree"], data, 0, cfg)
    except Exception:  # noqa: BLE001
        return None
    last = max((i for i, m in enumerate(mask) if m), default=-1)
    return v, end, last
