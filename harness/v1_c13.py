"""C13, definition parser correspondence (helpers of harness/props/c13.py).

The Lean model `CstructModel/DefParser.lean` mirrors the scanner (`TokenParser._tokencollection` + `re.Scanner`) and the declaration
handlers of parser.py up to type resolution; its answer to `(parsedecls "text")` is a declaration list.  This module extracts the same
abstraction from the REAL parser without touching /repo: a subclass of `TokenParser` whose handler methods call the original ones and
record what these computed —

  * `_identifier`: the joined identifier text; `_names`: the returned names;
  * `_parse_field_type(type_, name)`: the returned name and bit width; pointer depth and array nesting are read off the RESULTING type
    (peeled down to the very type object that was passed in); the count texts are the strings the handler handed to `Expression(...)`
    (the module-level name `parser.Expression` is rebound to a recording subclass while the probe runs), compared without the
    white space around them; an array without `num_entries` is the empty count;
  * `_parse_field`: the resulting `Field` (name, bits; None name = anonymous member);
  * `_struct`: the resulting type (`Union` or not, `__name__` / `__anonymous__`), the members recorded above, the declared names; the
    `struct tag name;` member form is recognised by the `cs.resolve(tag)` call the handler makes itself;
  * `_enum`: the arguments of the `_make_enum` / `_make_flag` call (name, member names in order), the base name passed to `resolve`, the
    value texts handed to `Expression(...)`;
  * `_constant`: the key stored into `cs.consts` and the text handed to `ast.literal_eval`;
  * `_config_flag`: the flags appended;

and the exception class that ended the parse.  Both sides are brought into one nested-tuple form and compared (`compare`).  A parse that
ends in an exception of the resolution layer (ResolveError, ValueError of add_type, expression errors, ...) is compared on the
declarations completed before it.
"""
from __future__ import annotations

import re
import sys
import warnings

from .common import A, parse_sexp, sx

# the regex table the model was written against: an edit of _tokencollection is reported as a disagreement (model out of date)
TABLE = [
    (r"#\[(?P<values>[^\]]+)\](?=\s*)", "CONFIG_FLAG"),
    (r"#define\s+(?P<name>[^\s]+)\s+(?P<value>[^\r\n]+)\s*", "DEFINE"),
    (r"typedef(?=\s)", "TYPEDEF"),
    (r"(?:struct|union)(?=\s|{)", "STRUCT"),
    (r"(?P<enumtype>enum|flag)\s+(?P<name>[^\s:{]+)?\s*(:\s*(?P<type>[^{]+?)\s*)?\{(?P<values>[^}]+)\}\s*(?=;)", "ENUM"),
    (r"(?<=})\s*(?P<defs>(?:[a-zA-Z0-9_]+\s*,\s*)+[a-zA-Z0-9_]+)\s*(?=;)", "DEFS"),
    (r"(?P<name>(?:\*\s*)*[a-zA-Z0-9_]+)(?:\s*:\s*(?P<bits>\d+))?(?:\[(?P<count>[^;\n]*)\])?\s*(?=;)", "NAME"),
    (r"[a-zA-Z_][a-zA-Z0-9_]*", "IDENTIFIER"),
    (r"[{}]", "BLOCK"),
    (r"\$(?P<name>[^\s]+) = (?P<value>{[^}]+})\w*[\r\n]+", "LOOKUP"),
    (r";", "EOL"),
    (r"\s+", None),
    (r".", None),
]


# hand-written texts: scanner quirks and every error path of the handlers
EDGE_TEXTS = [
    "", ";", "\n", "x", "x;", "uint8 x;", "struct", "struct S", "struct S {", "struct S { uint8 a;", "struct S { uint8 a; }", "struct S { uint8 a; } ;",
    "struct { uint8 a; };", "struct S { uint8 a; } x , y ;", "struct { uint8 a; } x;", "typedef struct { uint8 a; } x , y ;",
    "typedef struct _S { uint8 a; } S, *PS;", "typedef struct { uint8 a; } * x;", "typedef uint8 * * x;", "typedef uint8 *\n*\t* x ;",
    "typedef uint8 A, B;", "struct S { uint8 a, b; };", "struct S { x; };", "typedef ;", "typedef x;", "typedef *x;", "typedef", "typedef uint8",
    "typedef uint8 x", "typedef uint8 x:3;", "typedef uint8 x[2], y;", "typedef uint8 x[][2];", "typedef uint8 x[2][];", "struct S { uint8 x[][3]; };",
    "struct S { uint8 x[]; uint8 y[ ]; uint8 z[2][3][4]; uint8 w[a][b + 1]; uint8 v[2] [3]; };", "struct S { uint8 x [2]; };",
    "struct S { uint8 a[ ]; };", "struct S { uint8 a[\t ]; uint8 b; };", "struct S { uint8 a[ 2 ]; uint8 b[\t2\t][ 3 ]; };", "struct S { uint8 n; uint8 a[ n & 3 ]; };",
    "struct S { uint8 a[2][ ]; };", "struct S { uint8 a[ ][2]; };", "struct S { uint8 a[ EOF ]; };", "struct S { uint8 a[EOF]; };", "typedef uint8 A[ ];",
    "typedef uint8 A[ 4 ]; typedef A B;", "struct S { uint8 a[\u00a0]; };", "struct S { uint8 a[ \x0c ][\x0b]; };", "struct S { char *a[ ]; uint16 b[  0x2  ]; };",
    "struct S { uint8 x : 3 [2]; };", "struct S { uint8 x:3[2]; uint8 y : 12 ; uint8 z:007; };", "struct S { uint8 x[2]:3; };",
    "struct S { uint8 x[a;b]; };", "struct S { uint8 x[a]b]; uint8 y[[2]]; };", "struct S { uint8 x[2\n]; };", "struct S { uint8 x[2]\n; };",
    "struct S { struct { uint8 a; }; union { uint8 b; uint16 c; } u; struct T t; struct T *pt; struct T { uint8 q; } tt[2]; };",
    "struct S { struct T; };", "struct S { struct ; };", "struct S { struct { uint8 a; } };", "struct S { struct T { uint8 a; } x y; };",
    "struct S { uint8 a; } uint8 b;", "struct S } uint8 a; };", "struct S uint8 a;", "struct S x;", "struct x;", "struct {", "struct { }", "struct { };",
    "union U { uint8 a; uint16 b; };", "unionx U { uint8 a; };", "struct{uint8 a;}x;", "typedef struct{uint8 a;}x;", "structS { uint8 a; };",
    "struct S { unsigned  long\nlong a; unsigned int *b; };", "struct S { uint8 a } ;", "struct S { uint8 a; uint8 }", "struct S { { uint8 a; } };",
    "struct S { uint8 a; ; };", "struct S { enum E { A }; };", "struct S { typedef uint8 x; };", "struct S { #define A 1\n uint8 x[A]; };",
    "enum E { A };", "enum E { A, B = 3, C, };", "enum E : uint8 { A = 1 << 2, B = A | 1 };", "enum E:uint8{A};", "enum E :uint8 {A} ;", "enum{A};", "enum {A};",
    "enum E{A};", "enum E :{A};", "enum E : {A};", "enum E :  {A};", "enum E : unsigned int { A };", "enum E : unsigned  int { A };", "enum E : unsigned\nint { A };",
    "enum E : unsigned /* c */ long\nlong { A };", "flag F :unsigned\tshort{ A };", "enum E : unsigned\u00a0int { A };", "enum E : unsigned\x1cint { A };",
    "enum E :  unsigned   long   long  { A = 1 };", "enum : signed\r\nchar { A };", "enum E : unsigned int x { A };",
    "enum E { };", "enum E {};", "enum E { A }", "enum E { A } x;", "enum E F { A };", "flag F { A, B, C = 8, D };", "flag F : uint16 { A = 1, B = A };",
    "enum E { A = 1, B, C\n = 7 };", "enum E { A = 1, B, C =\n 7 };", "enum E { A = 1\r\n, B\r, C = 2 = 3, = 4, D };", "enum E { A,\n\n B,, C };",
    "enum E { A = 1, A = 2, B };", "enum E { A\x0b = 1, B\x0c, C\x1c = 3, D\x1f = 4 };", "enum E : uint8; struct { uint8 a; };", "enum : uint8 { A };", "enum E { A }; enum { B };",
    "enum E { A = { };", "xenum E { A };", "*enum E { A };", "typedef enum E { A } F;", "struct S { flag x; };",
    "#define A 1", "#define A 1\n", "#define A", "#define A  ", "#define A \t", "#define A \n", "#define A\n\n", "#define A\n uint8 x\nstruct S {uint8 a;};",
    "#define A 1 // c\nstruct S { uint8 a; };", "#define A (1 + 2)   \n\n\n#define B A\r\n#define C 'x'\n#define D \"s\"\n", "#defineA 1\n", "# define A 1\n",
    "#define A 1\n#define A 2\n", "#define  A\t1\x0c\n", "x #define A 1\n",
    "#[nocompile]\nstruct S { uint8 a; };", "#[a,b, c]struct S { uint8 a; };", "#[]struct S { uint8 a; };", "#[x", "#[x\n]typedef uint8 y;",
    "$a = {'A': 1}\n", "$a = {}\n", "$a = {'A': 1}", "uint8 $a = {'A': 1}x\n\n;",
    "typedef unsigned int U; typedef U *PU; typedef struct T { U u; } T1; typedef struct T T2; typedef union T T3;",
    "struct S { uint8 a; }; garbage", "struct S { uint8 a; }; ; struct T { uint8 b; };", "struct S { uint8 a; };}", "{", "}", "} a, b;", "struct S { uint8 a; } a, b c;",
    "struct S { uint8 a; } a,, b;", "struct S { uint8 a; } a, b,;", "struct S { uint8 a; } a b;", "struct S { uint8 a; }a,b;struct T { uint8 a; }\n c\n,\nd\n;",
    "struct S { uint8 a; } *a, b;", "struct S { uint8 a; } a[2];", "struct S { uint8 a; } a:3;", "typedef struct S { uint8 a; } a[2], b;",
    "struct S { uint8 *a, b; };", "struct S { uint8 * * * a; uint8 ** b; uint8 * *c[2]; };", "struct S { uint8 *; };", "struct S { * a; };", "struct S { uint8 1a; uint8 _; uint8 9; };",
    "struct S { uint8 a\u00a0; uint8\u2003b; };", "struct S { uint8 \u00e9; };", "struct S { char a[2]; wchar b[3]; } ; typedef S T ;",
]


# random token soup: the pieces the thirteen regexes react to, glued without any grammar (scanner and handler error paths)
SOUP = ["a", "b1", "_", "7", "x", "*", "*", ":", "[", "]", ";", ";", ",", "{", "}", " ", " ", "\n", "\t", "\r", "=", "#", "$", "(", "+", "/", "'",
        "enum", "flag", "struct", "union", "typedef", "#define", "#[", "uint8", "unsigned int", "char", "[2]", "[]", "[2][3]", ":3", "a;", "b;", " a, b;",
        "enum E {A, B = 2};", "struct S { uint8 a; }", "#define K 2\n", "{ uint8 a; }", "} x, y;", "$l = {'a': 1}\n", "\x0c", "\x0b", "\xa0", "\u2028", "\x1c", "\u0663"]


def soup(rnd, n):
    return "".join(rnd.choice(SOUP) for _ in range(n))


# comment stripper soup (driver command `stripcomments` against TokenParser._remove_comments): the characters the comment regex reacts
# to — slashes, stars, both quotes, LF and CARRIAGE RETURN (alone, doubled, as CR LF: a `//` comment may end in `\r?$`, fix F73; a lone
# CR inside the text is no line end) — glued without any grammar, plus some ready-made comments with every kind of line end
STRIP_SOUP = ["/", "/", "/", "*", "*", "\r", "\r", "\n", "\n", "\r\n", "\r\n", '"', "'", " ", "a", "b;", "//", "//", "/*", "*/", "// c", "// c\r\n", "//\r\n",
              "// c\r", "//\r", "// c\n", "/* c */", "/*\r\n*/", "/**/", "\r\r\n", "\n\r", "\t", "\x0c", "\x85", "\u2028", "uint8 x;"]
STRIP_EDGE = [
    "uint8 x; // c\r\n uint8 y;", "a // c\rb", "a // c\r", "a // c\r\r\n", "a // c\r\r", "//\r\n", "//\r", "//\r\r", "//", "//\n", "a//\r\nb", "a//\rb",
    "a/**///\r\nb", "a//x\r\n/**/b", "a/**/\r\n", "a/**/\rb", "\"//\"\r\n", "'//\r\n'", "\"a\r\n// c\r\n\"", "// \" \r\n \" //\r\n", "/* // c\r\n */", "// /* c\r\n */",
    "x // a\r\n// b\r\n// c\r", "x // a\r// b\r\ny", "x /// c\r\n", "x // c \r\n", "x // c\r \n", "x // c\r\x0c\n", "x // c\x85", "x // c\u2028y",
    "#define A 1 // c\r\nstruct S { uint8 a; // m\r\n};\r\n", "struct S {\r\n  uint8 a; // first\r\n  uint8 b; /* second */\r\n};\r\n",
]


def strip_soup(rnd, n):
    return "".join(rnd.choice(STRIP_SOUP) for _ in range(n))


INSERTS = [" ", "\n", "\t", ";", ",", "*", ":", "[", "]", "{", "}", "=", "1", "a", "\r", "#", "/*x*/", "//y\n", "\xa0", "\x0c", "struct ", "enum ", " : 3", "[2]", "[]"]


def char_mutant(rnd, t: str) -> str:
    """0..3 character-level edits of a definition text (delete a character / a short run, insert a separator or a piece of syntax):
    mostly texts the real parser rejects — the error paths of scanner and handlers next to valid input"""
    for _ in range(rnd.randint(0, 3)):
        i = rnd.randrange(len(t) + 1)
        r = rnd.random()
        if r < 0.4:
            t = t[:i] + t[i + 1:]
        elif r < 0.9:
            t = t[:i] + rnd.choice(INSERTS) + t[i:]
        else:
            t = t[:i] + t[i + rnd.randint(1, 8):]
    return t


PADS = ["", " ", " ", "  ", "\t", " \t", "/**/", " /* n */ "]
# (baseline, mutant): the same definition with blanks inside array brackets (hand-written: also the to-end-of-stream array)
BRACKET_PAIRS = [
    ("struct B { uint8 n; uint8 a[EOF]; };", "struct B { uint8 n; uint8 a[ EOF ]; };"),
    ("struct B { uint8 n; uint8 a[EOF]; };", "struct B { uint8 n; uint8 a[\tEOF  ]; };"),
    ("struct B { uint8 a[]; uint8 t; };", "struct B { uint8 a[ ]; uint8 t; };"),
    ("struct B { uint8 a[]; uint8 t; };", "struct B { uint8 a[\t \t]; uint8 t; };"),
    ("struct B { uint8 a[2][]; };", "struct B { uint8 a[ 2 ][ ]; };"),
    ("struct B { uint8 n; uint16 a[n & 3]; char s[]; };", "struct B { uint8 n; uint16 a[ n & 3 ]; char s[  ]; };"),
    ("struct B { uint8 a[2][3]; wchar w[]; };", "struct B { uint8 a[\t2 ][ 3\t]; wchar w[/**/ ]; };"),
    ("typedef uint8 A[]; struct B { A x; uint8 y[0x2]; };", "typedef uint8 A[ ]; struct B { A x; uint8 y[ 0x2 ]; };"),
]


COMMENT_BODIES = ["", "", " c ", "x", "* *", "//", " struct T { ", "'", '"', " a; ", "-"]


def comment_only_sep(rnd, need: bool, nonl: bool) -> str:
    """a separator without any white space: one or two block comments (sometimes with a line break inside, unless nonl); where the
    tokens need no separator, sometimes nothing"""
    if not need and rnd.random() < 0.3:
        return ""
    out = []
    for _ in range(rnd.choice([1, 1, 1, 2])):
        body = rnd.choice(COMMENT_BODIES)
        if not nonl and rnd.random() < 0.15:
            body += "\n"
        out.append("/*" + body + "*/")
    return "".join(out)


def pad_brackets(rnd, text: str):
    """put a pad (blanks, tabs, a comment without newline) behind every `[` and in front of every `]` of a bracket pair that holds neither
    `;` nor a newline -> (text, features)"""
    feats = set()

    def sub(m):
        a, b = rnd.choice(PADS), rnd.choice(PADS)
        inner = m.group(1)
        if a or b:
            feats.add("empty-count" if not inner.strip() else "member-count" if re.search(r"[A-Za-z_]", inner) and "0x" not in inner else "constant-count")
        return "[" + a + inner + b + "]"

    return re.sub(r"\[([^\[\];\n]*)\]", sub, text), sorted(feats)


def live_table(dc) -> list:
    """(regex, token name) of the live `_tokencollection()`, in table order"""
    tok = dc.parser.TokenParser._tokencollection()
    names = {rx.pattern: n for n, rx in tok.patterns.items()}
    return [(rx, names.get(rx) if fn is not None else None) for rx, fn in tok.tokens]


_SCANNERS: dict = {}


def real_tokens(dc, text: str) -> list:
    """the tokens re.Scanner produces for the comment-stripped text: [(name, value)]"""
    key = id(dc.parser)
    if key not in _SCANNERS:
        _SCANNERS[key] = re.Scanner(dc.parser.TokenParser._tokencollection().tokens)
    stripped = dc.parser.TokenParser._remove_comments(text)
    toks, remaining = _SCANNERS[key].scan(stripped)
    out = [(t.token, t.value) for t in toks]
    if remaining:
        out.append(("REMAINING", remaining))
    return out


# --------------------------------------------------------------------------------------------------------------------
# recording parser
# --------------------------------------------------------------------------------------------------------------------
class _RecDict(dict):
    def __init__(self, base, log):
        super().__init__(base)
        self._log = log

    def __setitem__(self, k, v):
        self._log(("setconst", k))
        super().__setitem__(k, v)


def extract(dc, text: str):
    """-> (events, outcome): the declarations the real parser completed, (None | (exception class, message))"""
    P = dc.parser
    from dissect.cstruct.types.base import BaseArray

    cs = dc.cstruct()
    frames: list[list] = []
    events: list = []
    problems: list[str] = []

    def log(item):
        (frames[-1] if frames else events).append(item)

    orig_expression, orig_ast = P.Expression, P.ast

    class RecExpression(orig_expression):
        def __init__(self, cstruct, expression):
            log(("expr", expression))
            super().__init__(cstruct, expression)

    class RecAst:
        @staticmethod
        def literal_eval(value):
            log(("literal", value))
            return orig_ast.literal_eval(value)

    orig_resolve, orig_enum, orig_flag = cs.resolve, cs._make_enum, cs._make_flag

    def rec_resolve(name):
        if sys._getframe(1).f_code.co_filename.endswith("parser.py"):
            log(("resolve", name))
        return orig_resolve(name)

    def rec_enum(name, type_, values):
        log(("factory", False, name, list(values)))
        return orig_enum(name, type_, values)

    def rec_flag(name, type_, values):
        log(("factory", True, name, list(values)))
        return orig_flag(name, type_, values)

    cs.resolve, cs._make_enum, cs._make_flag = rec_resolve, rec_enum, rec_flag
    cs.consts = _RecDict(cs.consts, log)

    def framed(fn):
        frames.append([])
        try:
            res = fn()
        except BaseException:
            frames.pop()
            raise
        return res, frames.pop()

    def tref_of(items):
        for it in items:
            if it[0] == "ident":
                return ("name", it[1])
            if it[0] == "struct":
                return it[1]
        return ("none",)

    class Rec(P.TokenParser):
        def _config_flag(self, tokens):
            n = len(tokens.flags)
            super()._config_flag(tokens)
            log(("config", tuple(tokens.flags[n:])))

        def _constant(self, tokens):
            _, items = framed(lambda: super(Rec, self)._constant(tokens))
            keys = [it[1] for it in items if it[0] == "setconst"]
            lits = [it[1] for it in items if it[0] == "literal"]
            if len(keys) != 1 or len(lits) != 1:
                problems.append(f"_constant: unexpected trace {items!r}")
            log(("const", keys[0] if keys else None, lits[0] if lits else None))

        def _lookup(self, tokens):
            value = tokens.next.value
            framed(lambda: super(Rec, self)._lookup(tokens))
            log(("lookup-token", value))

        def _enum(self, tokens):
            _, items = framed(lambda: super(Rec, self)._enum(tokens))
            fac = [it for it in items if it[0] == "factory"]
            res = [it[1] for it in items if it[0] == "resolve"]
            if len(fac) != 1 or len(res) != 1:
                problems.append(f"_enum: unexpected trace {items!r}")
                return
            log(("enum", fac[0][1], fac[0][2], res[0], tuple(fac[0][3]), tuple(it[1] for it in items if it[0] == "expr")))

        def _identifier(self, tokens):
            r = super()._identifier(tokens)
            log(("ident", r))
            return r

        def _names(self, tokens):
            r = super()._names(tokens)
            log(("names", tuple(r)))
            return r

        def _parse_field_type(self, type_, name):
            (rt, rname, bits), items = framed(lambda: super(Rec, self)._parse_field_type(type_, name))
            texts = [it[1] for it in items if it[0] == "expr"]
            dims = []
            t = rt
            while t is not type_ and isinstance(t, type) and issubclass(t, BaseArray):
                # canonical form of a dimension: the count text without the white space around it (the handler hands the raw text to
                # Expression, whose tokenizer skips blanks; a blank-only count is the null-terminated dimension)
                dims.append("" if t.num_entries is None else (texts.pop().strip() if texts else "<missing>"))
                t = t.type
            ptr = 0
            while t is not type_ and isinstance(t, type) and issubclass(t, dc.Pointer):
                ptr += 1
                t = t.type
            if t is not type_ or texts:
                problems.append(f"_parse_field_type({name!r}): the resulting type does not peel down to the argument")
            log(("declr", ptr, rname, tuple(dims), bits))
            return rt, rname, bits

        def _parse_field(self, tokens):
            f, items = framed(lambda: super(Rec, self)._parse_field(tokens))
            tref = tref_of(items)
            ds = [it for it in items if it[0] == "declr"]
            if f.name is None and f.bits is None and not ds:
                log(("field", ("anon", tref)))
            elif len(ds) == 1 and ds[0][2] == f.name and ds[0][4] == f.bits:
                log(("field", ("field", tref, ds[0][1:])))
            else:
                problems.append(f"_parse_field: Field({f.name!r}, bits={f.bits!r}) vs trace {items!r}")
            return f

        def _struct(self, tokens, register=False):
            is_union_kw = None
            st, items = framed(lambda: super(Rec, self)._struct(tokens, register))
            refs = [it[1] for it in items if it[0] == "resolve"]
            if refs:
                log(("struct", ("ref", refs[0])))
                return st
            fields = tuple(it[1] for it in items if it[0] == "field")
            names = [it[1] for it in items if it[0] == "names"]
            agg = (issubclass(st, dc.Union), None if st.__anonymous__ else st.__name__, fields, names[0] if names else ())
            if len(fields) != len(st.__fields__):
                problems.append("_struct: the number of recorded members differs from the structure's")
            if register and not frames:
                log(("aggr", agg))
            else:
                log(("struct", ("inline", agg)))
            return st

        def _typedef(self, tokens):
            _, items = framed(lambda: super(Rec, self)._typedef(tokens))
            names = [it[1] for it in items if it[0] == "names"]
            n = len(names[0]) if names else 0
            ds = [it[1:] for it in items if it[0] == "declr"]
            log(("typedef", tref_of(items), tuple(ds[len(ds) - n:]) if n else ()))

    P.Expression, P.ast = RecExpression, RecAst
    outcome = None
    try:
        with warnings.catch_warnings():
            # ast.literal_eval of an odd #define value ("0x", "7up") makes the compiler print a SyntaxWarning
            warnings.simplefilter("ignore")
            Rec(cs, compiled=False).parse(text)
    except Exception as e:  # noqa: BLE001
        outcome = (type(e).__name__, str(e))
    finally:
        P.Expression, P.ast = orig_expression, orig_ast
    if problems:
        outcome = ("RecorderProblem", "; ".join(problems[:3]))
    return events, outcome


# --------------------------------------------------------------------------------------------------------------------
# the model's answer in the same form
# --------------------------------------------------------------------------------------------------------------------
def _opt(x):
    return None if isinstance(x, A) and x == "none" else x


def _declr(s):
    return (int(s[1]), s[2], tuple(s[3]), None if s[4] == "none" else int(s[4]))


def _tref(s, top=False):
    k = s[0]
    if k == "none":
        return ("none",)
    if k == "name":
        return ("name", s[1])
    if k == "ref":
        return ("ref", s[1])
    return ("inline", _aggr(s[1], top))


def _aggr(s, top):
    tag = _opt(s[1])
    names = tuple(s[3])
    # the structure's name: the tag, else (top level only) the first declared name, else anonymous
    name = tag if tag is not None else (names[0] if top and names else None)
    return (s[0] == "union", name, tuple(_field(f) for f in s[2]), names)


def _field(s):
    if s[0] == "anon":
        return ("anon", _tref(s[1]))
    return ("field", _tref(s[1]), _declr(s[2]))


def model_events(ans: str):
    """the driver's answer to (parsedecls ...) -> (events, None | (class, tag))"""
    s = parse_sexp(ans)
    if not s or s[0] != "res":
        raise ValueError(f"unexpected driver answer {ans[:200]!r}")
    out = []
    for d in s[1]:
        k = d[0]
        if k == "config":
            out.append(("config", tuple(d[1:])))
        elif k == "const":
            out.append(("const", d[1], d[2]))
        elif k in ("enum", "flag"):
            keys = []
            for m in d[3]:
                if m[0] not in keys:
                    keys.append(m[0])
            out.append(("enum", k == "flag", d[1], d[2], tuple(keys), tuple(m[1] for m in d[3] if _opt(m[1]) is not None)))
        elif k == "typedef":
            out.append(("typedef", _tref(d[1]), tuple(_declr(x) for x in d[2])))
        elif k == "aggr":
            out.append(("aggr", _aggr(d[1], True)))
        elif k == "lookup":
            out.append(("lookup", d[1], d[2]))
    err = None if s[2] == "none" else (str(s[2][1]), str(s[2][2]))
    return out, err


def real_events(events):
    out = []
    for e in events:
        if e[0] == "lookup-token":
            m = re.match(TABLE[9][0], e[1] + ";")
            out.append(("lookup", m.group(1), m.group(2)) if m else e)
        else:
            out.append(e)
    return out


RESOLUTION_DEPENDENT = "Depth required"


def compare(model, real):
    """model = (events, err), real = (events, outcome) -> None or a description of the difference"""
    mev, merr = model
    rev, rout = real_events(real[0]), real[1]
    if rout is not None and rout[0] == "RecorderProblem":
        return f"the recorder could not interpret the real parser's trace: {rout[1]}"
    k = len(rev)
    for i in range(min(k, len(mev))):
        if mev[i] != rev[i]:
            return f"declaration #{i + 1}: model {mev[i]!r}, implementation {rev[i]!r}"
    if rout is None:
        if merr is not None:
            return f"the implementation accepts the text ({k} declarations), the model stops with {merr} after {len(mev)}"
        if len(mev) != k:
            return f"the implementation completes {k} declarations, the model {len(mev)}"
        return None
    if len(mev) < k:
        return f"the implementation completes {k} declarations before {rout[0]}, the model only {len(mev)} ({merr})"
    cls = rout[0]
    if cls == "ParserError" and RESOLUTION_DEPENDENT not in rout[1]:
        if merr is None or merr[0] != "ParserError" or len(mev) != k:
            return f"the implementation raises ParserError ({rout[1]}) after {k} declarations, the model gives {merr} after {len(mev)}"
        return None
    if merr is not None and len(mev) == k and merr[0] not in (cls, "ParserError") and cls in ("AttributeError", "IndexError", "TypeError"):
        return f"the implementation raises {cls} ({rout[1]}) after {k} declarations, the model predicts {merr}"
    return None


def request(text: str) -> str:
    return sx([A("parsedecls"), text])


def token_request(dc, text: str) -> str:
    return sx([A("scandef"), dc.parser.TokenParser._remove_comments(text)])


def model_tokens(ans: str) -> list:
    s = parse_sexp(ans)
    return [(str(t[0]), t[1]) for t in s[1:]]
