"""Development tool: random differential run model vs implementation over layout/read/write."""
import sys, random, collections, traceback
from . import common, defs, impl
from .common import A, sx, parse_sexp, run_driver

def rand_bytes(rnd, n):
    mode = rnd.random()
    if mode < 0.4:
        return bytes(rnd.randrange(256) for _ in range(n))
    if mode < 0.7:
        return bytes(rnd.choice([0, 1, 2, 3, 0x7f, 0x80, 0xff, 0x41]) for _ in range(n))
    return bytes(rnd.choice([0, 0, 0, 1, 2, 5, 0x80]) for _ in range(n))

def main():
    seed = int(sys.argv[1]) if len(sys.argv) > 1 else 0
    n = int(sys.argv[2]) if len(sys.argv) > 2 else 200
    compiled = (sys.argv[3] == "c") if len(sys.argv) > 3 else False
    rnd = random.Random(seed)
    lines, metas = [], []
    stats = collections.Counter()
    for i in range(n):
        g = defs.Gen(rnd)
        tree = g.struct()
        endian = rnd.choice("<>"); align = rnd.random() < 0.5; ptr = rnd.choice(["uint64", "uint32", "uint16", "uint8"])
        try:
            L = impl.Loaded(tree, endian=endian, align=align, compiled=compiled, pointer=ptr)
        except Exception as e:
            stats["load:" + type(e).__name__] += 1
            L = None
            err = impl.err_class(e)
            text = defs.PREAMBLE + defs.render_struct("T", tree)
        if L is None:
            # still ask the model for the layout: it should fail too
            try:
                tys = defs.ty_sexp(tree, align, [f"__anonymous_{k}__" for k in range(50)])
            except Exception:
                continue
            lines.append(sx([A("layout"), [A("cfg"), A("le" if endian == "<" else "be"), ptr, []], tys]))
            metas.append(("layout-err", err, text, None))
            continue
        T = L.T
        cfg, tys = L.cfg_sexp(), L.ty_sexp()
        lines.append(sx([A("layout"), cfg, tys]))
        metas.append(("layout", (T.size, T.alignment, [f.offset for f in T.__fields__]), L.text, None))
        for _ in range(4):
            data = rand_bytes(rnd, rnd.choice([8, 16, 40, 90, 200]))
            r = impl.parse(T, data)
            lines.append(sx([A("read"), cfg, tys, data, 0]))
            if r[0] == "ok":
                obj = r[1]
                want = ("ok", impl.canon(obj), r[2], sorted((k, v) for k, v in obj._sizes.items() if v))
            else:
                want = r
            metas.append(("read", want, L.text, (data, endian, align, ptr)))
            if r[0] == "ok" and not impl.contains_nan(impl.canon(r[1])):
                d = impl.dump(T, r[1])
                lines.append(sx([A("write"), cfg, tys, impl.canon(r[1])]))
                metas.append(("write", d, L.text, (data, endian, align, ptr)))
    ans = run_driver(lines)
    bad = collections.Counter(); shown = 0
    for (kind, want, text, extra), a in zip(metas, ans):
        s = parse_sexp(a)
        stats[kind] += 1
        ok = True
        if kind == "layout":
            if s[0] != "ok": ok = False
            else:
                got = (None if s[1] == "none" else int(s[1]), int(s[2]), [None if x == "none" else int(x) for x in s[3]])
                ok = got == want
        elif kind == "layout-err":
            ok = s[0] == "err"
        elif kind == "read":
            if want[0] == "err":
                ok = s[0] == "err" and str(s[1]) == want[1]
                stats["read-err:" + want[1]] += 1
            else:
                ok = s[0] == "ok" and impl.same_val(want[1], s[1]) and int(s[2]) == want[2] and sorted((str(k), int(v)) for k, v in s[3] if int(v)) == want[3]
        elif kind == "write":
            if want[0] == "err":
                ok = s[0] == "err" and str(s[1]) == want[1]
                stats["write-err:" + want[1]] += 1
            else:
                ok = s[0] == "ok" and common.hx(want[1]) == str(s[1])
        if not ok:
            bad[kind] += 1
            if shown < int(sys.argv[4]) if len(sys.argv) > 4 else shown < 6:
                shown += 1
                print("=== MISMATCH", kind, extra[1:] if extra else "")
                print(text)
                if extra: print("data:", extra[0].hex())
                print("want:", want)
                print("got: ", a[:600])
    print("stats", dict(stats)); print("bad", dict(bad))

main()
