"""C13 name collisions across unrelated definitions (round 7): the order-independence differential on definition sets in which a member
of a NAMED enum / flag carries the same name as a constant that is otherwise unrelated to it.

One cstruct object keeps every constant it has seen (`#define NAME value`, the members of an anonymous `enum { ... };` / `flag { ... };`)
in one table, `cs.consts`.  A named enum or flag does not put its members there - they live in the type - but inside its braces the
members declared so far are in scope (`GREEN = RED + 1`, `W = R << 1`), exactly as in C where an enumerator is in scope from its own
declarator on.  A header set may well contain `#define RED 10` (or an anonymous `enum { RED = 10, ... };`) next to `enum Color { RED = 1,
GREEN = RED + 1 }`: the two definitions do not refer to each other, so C13 says that their order, the number of load() calls they are
spread over and the comments / blanks between their tokens make no difference to `Color`, to the constant `RED`, and to anything that
is computed from either of them.

Per case (every choice from the module's seeded PRNG):
  * SUBJECTS: 1-3 (quick tier: 1-2) named enums / flags over one of 13 underlying integer types (1, 2, 3, 4, 8 bytes, signed and unsigned, multi-word
    spellings such as `unsigned short`, or the default type), 2-6 members from a pool of ordinary names (two subjects may share member
    names), values given as literals, implicitly, as expressions over one or two EARLIER MEMBERS of the same enum, and as expressions
    mixing an earlier member with a free constant (KA, KB, STEP, SHIFT: a real dependency, respected by the orders);
  * COLLIDERS: for (mostly) the members that later initialisers refer to, and some others, a constant of the SAME NAME and another
    value (sometimes the same value, sometimes no collision at all: controls), defined by `#define NAME literal|expression`, or as a
    member of an anonymous enum / anonymous flag (own underlying type, further members of its own, some of them computed from the
    colliding member: `Q0 = RED + 1`); every constant name is defined once;
  * DERIVED definitions computed from the colliders (`#define D0 (RED + 2)`, `struct P0 { uint8 pad[RED]; E0 e; }`) and CONSUMERS of the
    subjects (a structure or union with the enum as scalar, `[2]` / `[3]` / `[KA]` array and 3+5 bit-fields, optionally behind a one-byte member;
    `typedef E0 A0;`); either endianness; load() options compiled=True/False, align=True/False;
  * ORDERS: every case is loaded colliders-first, colliders-last and in random dependency-respecting orders (thorough: more of them);
    PRESENTATIONS of every order: one text, one load() call per definition, the text split over 2-3 load() calls, and layout mutants
    (plain separators, the rich comment family of s5_c13, comment-only separators of v1_c13; as one text and as one load() per
    definition); expression tokens are separate tokens, so comments / blanks also go between the operands of `RED + 1`.
Oracles (the property as stated, on observable behaviour of the real library):
  * every variant is accepted, and its observation equals the observation of the reference presentation (generated order, one compact
    text): per defined name the description of the resolved type (kind, exact `__name__`, size, alignment, fields with types, offsets and
    bit widths, underlying type and member table of an enum), what a fixed random probe parses to, for every subject and every member
    value what the value and its underlying bytes parse to (member name, value, dump) alone and inside every consumer structure; per
    constant its integer value and kind; which names are the very same type object; the registered names exactly as spelt;
  * the subjects and their consumers loaded WITHOUT the colliders (only the free constants they refer to) give the same observations
    for those names: definitions that are unrelated make no difference, present or not;
  * "the enum's own members are in scope first": the member table of every subject equals the C numbering the generator computed
    with the members declared so far in scope, and every collider constant has the value its own definition gives it.
Domain notes (exclusions, with reasons):
  * member values stay within 0..0x7f so that every underlying type holds them (F22: negative flag values, is another property's finding);
    the member names `size`, `alignment`, `dynamic`, `cs`, `type` are not used (F51: rejected loudly, whatever the constants);
  * an initialiser only refers to members declared BEFORE it or to free constants that are no member of that enum (what a name means
    before its own enumerator is declared is a reference to the constant, i.e. a dependency, not an unrelated definition);
  * every constant NAME is defined by one definition only (two definitions of one constant are not unrelated: the later one wins);
    anonymous enums / flags are therefore colliders only, never subjects of a collision themselves;
  * no array count names a member of the SAME structure that is also a constant (F45, C07/C10: the count is evaluated once at
    definition time) - counts only name constants;
  * the keyword of an anonymous enum / flag is always followed by at least one blank: `enum{A};` / `enum:uint8{A};` are rejected by
    the unmodified scanner while `enum {A};` is accepted (one of the blank-sensitive spellings recorded in DESIGN.md, C13 section, and
    proved as counter-examples in Proofs/C13Parse.lean); the token "enum " carries its blank, the mutants add to it;
  * a newline inside one enum member is F20 (c13.join keeps them out, as everywhere in this module).
"""
from __future__ import annotations

import enum as _enum
import itertools

from . import impl
from . import v1_c13 as v1

# ordinary member names (see the domain notes for the five names left out)
POOL = ["RED", "GREEN", "BLUE", "R", "W", "X", "BASE", "LIMIT", "NEXT", "LAST", "MASK", "LOW", "HIGH", "ALL", "READ", "WRITE", "len", "length",
        "count", "Y", "MAX", "MIN", "NONE", "FIRST", "K1", "off"]
FREE_VALUES = {"KA": [1, 2, 4], "KB": [3, 5, 8], "STEP": [1, 2, 16], "SHIFT": [1, 2, 3]}
# underlying types of the subjects: spelling -> (size, signed)
BASES = {"uint8": (1, False), "int8": (1, True), "uint16": (2, False), "int16": (2, True), "uint32": (4, False), "int32": (4, True),
         "uint64": (8, False), "int64": (8, True), "uint24": (3, False), "int24": (3, True), "unsigned short": (2, False),
         "unsigned int": (4, False), "long long": (8, True)}
COLL_VALUES = [0x100, 0x101, 0x40, 0x80, 1000, 77, 3, 0, 1, 2, 0xFFFF, 16, 9, 0x7F, 5, 32, 0x200, 12, 10]
LOAD_OPTS = [{}, {}, {"compiled": True}, {"compiled": False}, {"align": True}, {"compiled": True, "align": True}]
ROLE_RANK_FIRST = {"free": 0, "collider": 0, "derived": 1, "subject": 2, "consumer": 3}
ROLE_RANK_LAST = {"free": 0, "subject": 1, "consumer": 1, "collider": 2, "derived": 3}


def _lit(rnd, v):
    return rnd.choice([str(v), hex(v), str(v)] + (["0b" + bin(v)[2:]] if v < 16 else []))


def _value(tokens, scope):
    """the generator's own evaluation of an initialiser (C / Python agree on the operators used here)"""
    return eval(" ".join(tokens), {"__builtins__": {}}, dict(scope))  # noqa: S307 - tokens from the tables of this module


def gen_members(rnd, is_flag, free, names):
    """-> members [(name, tokens | None)], values {name: int}, referenced (members named by a later initialiser), used_free"""
    out, vals, referenced, used_free = [], {}, set(), set()
    nextval = 1 if is_flag else 0
    for i, nm in enumerate(names):
        picked = None
        for _attempt in range(8):
            r = rnd.random()
            refs, fr = [], None
            if i == 0:
                if r < 0.7:
                    ex = [_lit(rnd, rnd.choice([1, 2, 4, 8, 0x10] if is_flag else [0, 1, 2, 3, 5, 7, 10, 20]))]
                elif r < 0.85:
                    ex = None
                else:
                    fr = rnd.choice(sorted(FREE_VALUES))
                    ex = rnd.choice([[fr], [fr, "+", "1"], [fr, "<<", "1"]])
            elif r < 0.15:
                ex = None
            elif r < 0.25:
                ex = [_lit(rnd, rnd.choice([1, 2, 4, 8, 0x10, 0x20, 0x40, 3] if is_flag else [0, 1, 2, 5, 7, 10, 20, 50, 100]))]
            elif r < 0.82:
                a, b = rnd.choice(names[:i]), rnd.choice(names[:i])
                if is_flag:
                    ex, refs = rnd.choice([([a, "|", b], [a, b]), ([a, "<<", "1"], [a]), ([a, "|", "0x40"], [a]),
                                           (["(", a, "|", b, ")", "&", "0x7f"], [a, b]), ([a, "*", "2"], [a]), ([a], [a]),
                                           ([a, "<<", "2"], [a]), ([a, "|", b, "|", "1"], [a, b])])
                else:
                    ex, refs = rnd.choice([([a, "+", "1"], [a]), ([a, "+", b], [a, b]), ([a, "*", "2"], [a]), (["(", a, "+", "3", ")", "&", "0x3f"], [a]),
                                           ([a, "<<", "1"], [a]), ([a, "|", b], [a, b]), ([a], [a]), ([a, "+", "10"], [a]),
                                           ([a, "*", b, "+", "1"], [a, b]), ([a + "+2"], [a])])
            else:
                a = rnd.choice(names[:i])
                fr = rnd.choice(sorted(FREE_VALUES))
                ex, refs = rnd.choice([([fr, "+", a], [a]), ([a, "|", fr], [a]), ([a, "<<", fr], [a]), (["(", a, "+", fr, ")", "*", "2"], [a])])
            v = nextval if ex is None else _value(ex, {**free, **vals})
            if 0 <= v <= 0x7F:
                picked = (ex, refs, fr, v)
                break
        if picked is None:
            if not 0 <= nextval <= 0x7F:
                break       # the implicit continuation leaves 0..0x7f: the declaration ends here
            picked = (None, [], None, nextval)
        ex, refs, fr, v = picked
        referenced.update(refs)
        if fr:
            used_free.add(fr)
        out.append((nm, ex))
        vals[nm] = v
        nextval = 2 ** v.bit_length() if is_flag else v + 1
    return out, vals, referenced, used_free


def _define_value(rnd, v):
    forms = [str(v), hex(v)]
    if v > 1 and v & (v - 1) == 0:
        forms.append(f"(1 << {v.bit_length() - 1})")
    if v > 0:
        forms += [f"({v - 1} + 1)", f"{hex(v)} | 0"]
    return rnd.choice(forms)


def gen_case(rnd, m, idx, tier):
    """one definition set -> dict(items, subjects, consts, names, alone_names, features); m is the props module (Item, render, ...)"""
    Item = m.Item
    free = {k: rnd.choice(v) for k, v in FREE_VALUES.items()}
    items, subjects, feats = [], {}, set()
    used_free_all = set()
    nsub = rnd.choice([1, 1, 2] if tier == "quick" else [1, 1, 2, 2, 3])
    shared = rnd.sample(POOL, 8)        # subjects draw from a small pool, so that they often share member names
    for si in range(nsub):
        is_flag = rnd.random() < 0.45
        ename = rnd.choice(["Color", "Perm", "Mode", "Kind", "State", "E"]) + f"{idx}_{si}"
        base = rnd.choice(list(BASES))
        default_type = rnd.random() < 0.1
        size, signed = (4, False) if default_type else BASES[base]
        names = rnd.sample(shared if rnd.random() < 0.7 else POOL, rnd.randint(2, 6))
        members, vals, referenced, used_free = gen_members(rnd, is_flag, free, names)
        if len(members) < 2:
            continue
        toks = ["flag" if is_flag else "enum", ename] + ([] if default_type else [":"] + base.split(" ")) + ["{"]
        for n, ex in members:
            toks += [n] + (["="] + ex if ex is not None else []) + [","]
        if rnd.random() < 0.5:
            toks.pop()
        toks += ["}", ";"]
        it = Item(toks, {ename}, set(used_free), enum=True)
        it.role = "subject"
        items.append(it)
        used_free_all |= used_free
        followed = {members[i][0] for i in range(len(members) - 1) if members[i + 1][1] is None}
        subjects[ename] = {"flag": is_flag, "base": "uint32 (default)" if default_type else base, "size": size, "signed": signed,
                           "members": vals, "referenced": sorted(referenced), "followed": sorted(followed)}
        feats.add(("flag" if is_flag else "enum") + ":" + ("default-type" if default_type else base))
    if not subjects:
        return None
    # ---- consumers of the subjects
    consumers = []
    for ci, ename in enumerate(list(subjects)):
        if rnd.random() < 0.85:
            lead = rnd.random() < 0.5
            other = rnd.choice(list(subjects))
            cnt = rnd.choice(["2", "2", "3", "KA"])
            body = (["uint8", "lead", ";"] if lead else []) + [ename, "one", ";", other, (f"arr[{cnt}]",), ";", ename, "lo", ":", "3", ";", ename, "hi", ":", "5", ";"]
            if rnd.random() < 0.3:
                body += ["uint16", rnd.choice(sorted(subjects[ename]["members"])), ";"]     # a field named like a member (no count refers to it)
            sname = f"S{idx}_{ci}"
            uses = {ename, other} | ({"KA"} if cnt == "KA" else set())
            if cnt == "KA":
                used_free_all.add("KA")
            it = Item([rnd.choice(["struct", "struct", "struct", "union"]), sname, "{"] + body + ["}", ";"], {sname}, uses)
            it.role = "consumer"
            consumers.append(it)
        if rnd.random() < 0.4:
            aname = f"A{idx}_{ci}"
            it = Item(["typedef", ename, aname, ";"], {aname}, {ename})
            it.role = "consumer"
            consumers.append(it)
    items += consumers
    # ---- the constants: colliders and free ones
    control = rnd.random() < 0.1
    coll = {}
    if not control:
        for ename, s in subjects.items():
            names = list(s["members"])
            hot = s["referenced"] or s["followed"] or names[:-1]
            picks = {rnd.choice(hot)} | {n for n in names if rnd.random() < 0.25}
            for n in sorted(picks):
                if n in coll:
                    continue
                v = rnd.choice(COLL_VALUES)
                if v == s["members"][n] and rnd.random() < 0.9:
                    v = s["members"][n] + rnd.choice([1, 0x100, 7])
                coll[n] = v
    consts = dict(coll)
    for k in sorted(used_free_all):
        consts[k] = free[k]
    if rnd.random() < 0.3:
        consts[f"OTHER{idx}"] = rnd.choice(COLL_VALUES)
    ways = {}
    groups = {(w, r): [] for w in ("anon-enum", "anon-flag") for r in ("free", "collider")}
    korder = list(consts)
    rnd.shuffle(korder)
    for k in korder:
        w = rnd.choice(["define", "define", "define", "anon-enum", "anon-enum", "anon-flag"])
        if w == "anon-flag" and consts[k] == 0:
            w = "anon-enum"
        ways[k] = w
        role = "collider" if k in coll or k.startswith("OTHER") else "free"
        if w == "define":
            it = Item([(f"#define {k} {_define_value(rnd, consts[k])}\n",)], {k}, set(), line=True)
            it.role = role
            items.append(it)
        else:
            groups[w, role].append(k)      # (free constants and colliders never share an anonymous enum: the orders can then move the colliders freely)
        if k in coll:
            feats.add("constant-via:" + w)
    extra = 0
    for (w, role), ks in groups.items():
        # the constants of one kind go into one or several anonymous enums / flags (1..3 of them each); further members of their own,
        # some computed from the colliding member
        while ks:
            cut = rnd.randint(1, 3)
            part, ks = ks[:cut], ks[cut:]
            toks = ["enum " if w == "anon-enum" else "flag "] + rnd.choice([[], [], [":", "uint16"], [":", "uint32"], [":", "int32"], [":", "unsigned", "short"]]) + ["{"]
            defines = set()
            prev = None
            for k in part:
                v = consts[k]
                implicit = w == "anon-enum" and prev is not None and v == prev + 1 and rnd.random() < 0.5
                toks += [k] + ([] if implicit else ["=", rnd.choice([str(v), hex(v)])]) + [","]
                defines.add(k)
                prev = v
                if rnd.random() < 0.35:
                    q = f"Q{idx}_{extra}"
                    extra += 1
                    ex = rnd.choice([[k, "+", "1"], [k, "|", "1"], [k, "<<", "1"], ["(", k, "+", "2", ")", "*", "2"]])
                    toks += [q, "=", *ex, ","]
                    consts[q] = _value(ex, consts)
                    ways[q] = w
                    defines.add(q)
                    prev = consts[q]
                    feats.add("anonymous-enum-member-computed-from-" + ("colliding-member" if k in coll else "other-member"))
            if rnd.random() < 0.5:
                toks.pop()
            it = Item(toks + ["}", ";"], defines, set(), enum=True)
            it.role = role
            items.append(it)
    # ---- definitions computed from the collider constants
    for di, k in enumerate(sorted(coll)):
        r = rnd.random()
        if r < 0.25:
            dn = f"D{idx}_{di}"
            ex = rnd.choice([[k, "+", "2"], [k, "*", "2"], ["(", k, "|", "1", ")", "+", "1"], [k]])
            text = " ".join(ex)
            if len(ex) == 1 or rnd.random() < 0.5:
                text = "(" + text + ")"
            it = Item([(f"#define {dn} {text}\n",)], {dn}, {k}, line=True)
            it.role = "derived"
            items.append(it)
            consts[dn] = _value(ex, consts)
            ways[dn] = "define"
            feats.add("derived:define-computed-from-collider")
        elif r < 0.4 and coll[k] <= 0x200:
            pn = f"P{idx}_{di}"
            ename = rnd.choice(list(subjects))
            it = Item(["struct", pn, "{", "uint8", (f"pad[{k}]",), ";", ename, "e", ";", "}", ";"], {pn}, {k, ename})
            it.role = "derived"
            items.append(it)
            feats.add("derived:array-count-names-collider")
    rnd.shuffle(items)
    items = ranked_order(items, rnd, None)      # the generated order: some dependency-respecting one
    names = sorted(set().union(*[it.defines for it in items]))
    # the run without the unrelated definitions: the subjects, their consumers and the free constants they refer to
    alone_items = [it for it in items if it.role in ("subject", "consumer", "free")]
    alone_names = sorted(n for n in set().union(*[it.defines for it in alone_items]) if n not in consts)
    feats.add("control:no-collision" if control else "collision:member-referenced-by-later-initialiser"
              if any(n in s["referenced"] for s in subjects.values() for n in coll if n in s["members"]) else
              "collision:member-followed-by-implicit" if any(n in s["followed"] for s in subjects.values() for n in coll if n in s["members"])
              else "collision:member-not-used-later")
    if len({n for s in subjects.values() for n in s["members"]}) < sum(len(s["members"]) for s in subjects.values()):
        feats.add("subjects-share-member-names")
    return {"items": items, "subjects": subjects, "consts": {k: consts[k] for k in sorted(consts)}, "colliding": sorted(coll), "ways": ways,
            "names": names, "alone_items": alone_items, "alone_names": alone_names, "features": sorted(feats)}


def ranked_order(items, rnd, rank):
    """a dependency-respecting order that takes, among the definitions whose uses are all defined, one of the lowest rank"""
    remaining, defined, order = list(items), set(), []
    while remaining:
        ready = [it for it in remaining if all(u in defined for u in it.uses)] or remaining[:1]
        if rank is not None:
            lo = min(rank[it.role] for it in ready)
            ready = [it for it in ready if rank[it.role] == lo]
        it = rnd.choice(ready)
        order.append(it)
        defined |= it.defines
        remaining.remove(it)
    return order


# ------------------------------------------------------------------------------------------------ observation

def _member_obs(x):
    return (type(x).__name__, getattr(x, "name", None), int(x.value), x.dumps().hex())


def observe(dc, m, cs, case):
    """what the property talks about, per defined name -> (dict name -> observation, identity pairs, registered names)"""
    probe = bytes.fromhex(case["probe"])
    order = "little" if case["endian"] == "<" else "big"
    obs, objs = {}, {}
    for n in case["names"]:
        if n in cs.consts:
            v = cs.consts[n]
            try:
                iv = int(v)
            except Exception:  # noqa: BLE001
                iv = repr(v)
            kind = "member of an anonymous enum/flag" if isinstance(v, _enum.Enum) else type(v).__name__
            try:
                cls = m.normalise(m.describe_type(type(v), dc)) if isinstance(v, _enum.Enum) else None
            except Exception as e:  # noqa: BLE001
                cls = "describing raises " + type(e).__name__
            obs[n] = ("const", kind, iv, cls)
            continue
        try:
            T = cs.resolve(n)
        except Exception as e:  # noqa: BLE001
            obs[n] = ("unresolved", type(e).__name__)
            continue
        objs[n] = T
        try:
            d = m.normalise(m.describe_type(T, dc))
        except Exception as e:  # noqa: BLE001
            d = "describing raises " + type(e).__name__
        try:
            x = T(probe)
            pv = ("ok", repr(impl.canon(x)), repr(x))
        except Exception as e:  # noqa: BLE001
            pv = ("err", type(e).__name__)
        more = []
        if n in case["subjects"]:
            s = case["subjects"][n]
            for v in sorted(set(s["members"].values())):
                raw = v.to_bytes(s["size"], order, signed=s["signed"])
                try:
                    more.append((v, _member_obs(T(v)), _member_obs(T(raw))))
                except Exception as e:  # noqa: BLE001
                    more.append((v, "raises", type(e).__name__))
        elif isinstance(T, type) and issubclass(T, dc.Structure):
            # the member values of every subject, repeated, through the structure
            for en, s in sorted(case["subjects"].items()):
                for v in sorted(set(s["members"].values()))[:4]:
                    data = (v.to_bytes(s["size"], order, signed=s["signed"]) * 600)[:600]
                    try:
                        x = T(data)
                        more.append((en, v, repr(x), x.dumps().hex()[:160]))
                    except Exception as e:  # noqa: BLE001
                        more.append((en, v, "raises", type(e).__name__))
        try:
            table = tuple((k, int(v.value)) for k, v in T.__members__.items()) if n in case["subjects"] else None
        except Exception as e:  # noqa: BLE001
            table = "reading the members raises " + type(e).__name__
        obs[n] = ("type", d, pv, tuple(more), table)
    same = tuple(sorted((a, b) for a, b in itertools.combinations(sorted(objs), 2) if objs[a] is objs[b]))
    try:
        reg = m.user_names(cs, dc)
    except Exception as e:  # noqa: BLE001
        reg = "reading the tables raises " + type(e).__name__
    return obs, same, reg


def run_loads(dc, m, case, loads):
    """-> ("ok", observation) | ("rejected", message)"""
    try:
        cs = dc.cstruct(endian=case["endian"])
        for t in loads:
            cs.load(t, **case["options"])
    except Exception as e:  # noqa: BLE001
        return ("rejected", f"{type(e).__name__}: {e}")
    try:
        return ("ok", observe(dc, m, cs, case))
    except Exception as e:  # noqa: BLE001 - a library that breaks the observation itself
        return ("rejected", f"observing the loaded definitions raises {type(e).__name__}: {e}")


def _first_diff(a, b, first=()):
    for n in [*[k for k in first if k in a or k in b], *sorted(set(a) | set(b))]:
        if a.get(n) != b.get(n):
            return n
    return None


def _short(x, n=420):
    s = repr(x)
    if len(s) <= n:
        return s
    return s[:n] + "..."


def _diff_text(a, b):
    """the first place where two observations (nested tuples) part"""
    if isinstance(a, tuple) and isinstance(b, tuple) and len(a) == len(b):
        for x, y in zip(a, b):
            if x != y:
                return _diff_text(x, y)
    if isinstance(a, str) and isinstance(b, str):
        i = next((j for j in range(min(len(a), len(b))) if a[j] != b[j]), min(len(a), len(b)))
        return f"{a[max(0, i - 120): i + 120]!r} vs {b[max(0, i - 120): i + 120]!r}"
    return f"{_short(a)} vs {_short(b)}"


def absolute_problems(case, ref):
    """the enum's own members are in scope first: C numbering of the subjects, own values of the constants"""
    out = []
    obs = ref[0]
    for en, s in case["subjects"].items():
        o = obs.get(en)
        want = tuple(s["members"].items())
        got = o[4] if o and o[0] == "type" else o
        if got != want:
            out.append(f"{en}: the C numbering with the enum's own members in scope is {dict(want)}, the type has {_short(got)}")
    for k, v in case["consts"].items():
        o = obs.get(k)
        if not o or o[0] != "const" or o[2] != v:
            out.append(f"constant {k}: its own definition gives {v}, the object holds {_short(o)}")
    return out


def compare(case, ref, got, label):
    out = []
    n = _first_diff(ref[0], got[0], sorted(case["subjects"]))
    if n is not None:
        out.append(f"{label}: {n} differs: {_diff_text(ref[0].get(n), got[0].get(n))}")
    elif ref[1] != got[1]:
        out.append(f"{label}: which names denote the very same type differs: {_short(ref[1])} vs {_short(got[1])}")
    elif ref[2] != got[2]:
        out.append(f"{label}: the registered names differ: {_short(ref[2])} vs {_short(got[2])}")
    return out


def compare_alone(case, ref, alone):
    a = {n: ref[0].get(n) for n in case["alone_names"]}
    b = {n: alone[0].get(n) for n in case["alone_names"]}
    n = _first_diff(a, b, sorted(case["subjects"]))
    if n is not None:
        return [f"{n} with the unrelated constants present differs from {n} without them: {_diff_text(a.get(n), b.get(n))}"]
    return []


def eval_case(dc, m, case):
    """all oracles on one recorded case (reference presentation, run without colliders, one variant) -> list of problems"""
    ref = run_loads(dc, m, case, case["reference_loads"])
    if ref[0] != "ok":
        return [f"the reference text is rejected ({ref[1]})"]
    out = absolute_problems(case, ref[1])
    alone = run_loads(dc, m, dict(case, names=case["alone_names"]), case["alone_loads"])
    if alone[0] != "ok":
        out.append(f"the subjects without the unrelated constants are rejected ({alone[1]})")
    else:
        out += compare_alone(case, ref[1], alone[1])
    if case.get("variant_loads"):
        got = run_loads(dc, m, case, case["variant_loads"])
        if got[0] != "ok":
            out.append(f"{case['variant']}: rejected ({got[1]}) although it only differs in order / layout / number of load() calls")
        else:
            out += compare(case, ref[1], got[1], case["variant"])
    return out


def repro(case, loads):
    lines = [f"from dissect.cstruct import cstruct; cs = cstruct(endian={case['endian']!r})"]
    opts = "".join(f", {k}={v}" for k, v in sorted(case["options"].items()))
    lines += [f"cs.load({t!r}{opts})" for t in loads]
    for en in case["subjects"]:
        lines.append(f"print({en!r}, {{k: int(v.value) for k, v in cs.{en}.__members__.items()}})")
    lines.append("print({k: int(v) for k, v in cs.consts.items()})")
    return "\n".join(lines)


LAYOUTS = ["layout", "layout-rich", "comment-only"]


def present(m, rnd, its, how):
    """-> list of load() texts for one order"""
    if how == "one-text":
        return [m.render(its)]
    if how == "per-definition":
        return [m.render([it]) for it in its]
    if how == "split":
        cuts = sorted({rnd.randint(1, max(1, len(its) - 1)) for _ in range(rnd.randint(1, 2))})
        return [m.render(its[a:b]) for a, b in zip([0] + cuts, cuts + [len(its)]) if its[a:b]]
    kind, _, per = how.partition("/")
    kw = {"rich": True} if kind == "layout-rich" else {"sepgen": v1.comment_only_sep} if kind == "comment-only" else {}
    if per:
        return [m.render([it], rnd, **kw) for it in its]
    return [m.render(its, rnd, **kw)]


def collision_probes(res, viol, dc, rnd, n, tier, probe_parser=None):
    """the family described in the module docstring; `viol(what, data)` reports, `probe_parser(text)` (optional) sends a text to the
    definition-parser correspondence of the props module"""
    from .props import c13 as m     # (at call time the props module is complete; it imports this module at its top)

    from .structprops import rand_bytes
    for idx in range(n):
        g = gen_case(rnd, m, idx, tier)
        if g is None:
            continue
        items = g["items"]
        case = {"family": "collision", "endian": rnd.choice("<>"), "options": dict(rnd.choice(LOAD_OPTS)), "probe": rand_bytes(rnd, 96).hex(),
                "names": g["names"], "subjects": g["subjects"], "consts": g["consts"], "colliding_names": g["colliding"], "constants_via": g["ways"],
                "alone_names": g["alone_names"], "alone_loads": [m.render(g["alone_items"])],
                "reference_loads": [m.render(items)]}
        case["repro"] = repro(case, case["reference_loads"])
        res.count(("collision", case["reference_loads"][0], case["endian"], tuple(sorted(case["options"].items()))), True)
        for ft in g["features"]:
            res.feat("collision:" + ft)
        res.feat("collision:options:" + (",".join(f"{k}={v}" for k, v in sorted(case["options"].items())) or "default") + ":" + ("little" if case["endian"] == "<" else "big"))
        if probe_parser is not None:
            probe_parser(case["reference_loads"][0])
        ref = run_loads(dc, m, case, case["reference_loads"])
        if ref[0] != "ok":
            viol(f"a definition set whose enum members are named like unrelated constants is rejected ({ref[1]})", case)
            continue
        bad = absolute_problems(case, ref[1])
        alone = run_loads(dc, m, dict(case, names=case["alone_names"]), case["alone_loads"])
        if alone[0] != "ok":
            bad.append(f"the subjects without the unrelated constants are rejected ({alone[1]})")
        else:
            bad += compare_alone(case, ref[1], alone[1])
        if bad:
            viol("a constant that is unrelated to an enum changes it: " + bad[0], dict(case, problems=bad))
            continue
        # ---- orders x presentations
        mutant = lambda: rnd.choice(LAYOUTS) + rnd.choice(["", "/per-definition"])  # noqa: E731
        orders = [("colliders-first", ranked_order(items, rnd, ROLE_RANK_FIRST)), ("colliders-last", ranked_order(items, rnd, ROLE_RANK_LAST))]
        orders += [("random-order", ranked_order(items, rnd, None)) for _ in range(1 if tier == "quick" else 5)]
        orders.append(("generated-order", items))
        done = False
        for oname, its in orders:
            if tier != "quick":
                hows = ["one-text", "per-definition", "split", mutant(), mutant()]
            elif oname == "colliders-first":
                # (every load() builds the scanner anew, ~2 ms: the quick tier gives most of its presentations to the order in which the
                # constants come before the enums that have members of their names)
                hows = ["one-text", "per-definition", mutant()]
            elif oname == "colliders-last":
                hows = ["one-text", rnd.choice(["per-definition", "split", mutant()])]
            else:
                hows = [rnd.choice(["per-definition", "split", mutant(), mutant()])]
            if oname == "generated-order" and hows[0] == "one-text":
                hows = hows[1:]     # (the compact text in generated order is the reference itself)
            for how in hows:
                loads = present(m, rnd, its, how)
                label = f"{oname}, {how}"
                c2 = dict(case, variant=label, variant_loads=loads, order=[sorted(it.defines) for it in its], repro=repro(case, loads))
                res.count(("collision-variant", case["reference_loads"][0], tuple(loads), case["endian"], tuple(sorted(case["options"].items()))), True)
                res.feat("collision:variant:" + oname)
                res.feat("collision:presentation:" + how)
                if probe_parser is not None and len(loads) == 1 and how != "one-text" and rnd.random() < 0.5:
                    probe_parser(loads[0])
                got = run_loads(dc, m, case, loads)
                if got[0] != "ok":
                    viol(f"{label}: the definitions are rejected ({got[1]}) although the variant only differs from the accepted reference text in the "
                         "order of unrelated definitions / layout / number of load() calls", c2)
                    done = True
                    break
                bad = compare(case, ref[1], got[1], label)
                if bad:
                    viol("reordering definitions that do not refer to each other (an enum and a constant named like one of its members) changed "
                         "the result: " + bad[0], dict(c2, problems=bad))
                    done = True
                    break
            if done:
                break
