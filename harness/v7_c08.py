"""C08, round 7 follow-up: dynamically sized unions (a member of variable length: null-terminated, counted, LEB128) alone and inside
structures, under a stream that ends early or raises at every read call in turn, and at every cut point.  A parse that returns must
return the value of the complete input AND stand where the complete parse stands; a premature end must be EOFError.  (The reader of a
dynamically sized union reads its members and then reads their extent once more for its buffer: that second read used to be unchecked -
fixed F70.)"""
from __future__ import annotations

import io


class ShortOnce(io.BytesIO):
    """BytesIO whose read call number `at` delivers `drop` bytes fewer than asked (the stream stands behind what it delivered) and
    that behaves normally afterwards - a short read as pipes and sockets produce them."""

    def __init__(self, data, at, drop):
        super().__init__(data)
        self.at, self.drop, self.calls = at, drop, 0

    def read(self, n=-1):
        i = self.calls
        self.calls += 1
        if i == self.at and n is not None and n > 0:
            return super().read(max(0, n - self.drop))
        return super().read(n)


DEFS = [
    ("union du { uint8 n; char s[]; uint16 w; }; struct T { uint8 k; union du u; uint8 after; uint16 z; };", b"\x09ABC\x00\x07\x11\x22"),
    ("union du { uint8 n; uint8 d[n]; uint32 w; }; struct T { union du u; uint8 after; };", b"\x05\x01\x02\x03\x04\x05\x99"),
    ("union du { uleb128 v; uint8 b; }; struct T { uint16 h; union du u[2]; uint8 after; };", b"\x01\x02\x85\x81\x01\x7f\x33"),
    ("union du { wchar s[]; uint8 n; }; struct T { union du u; uint8 after; uint8 more; };", b"a\x00b\x00\x00\x00\x44\x55"),
    ("struct I { uint8 n; uint16 d[n]; }; union du { struct I i; uint8 first; }; struct T { uint8 k; union du u; uint32 after; };",
     b"\x07\x02\x01\x00\x02\x00\xaa\xbb\xcc\xdd"),
]


def run(env, res, viol, Faulty, count_reads, dc):
    for text, data in DEFS:
        for endian in "<>":
            for compiled in (False, True):
                cs = dc.cstruct(endian=endian)
                try:
                    cs.load(text, compiled=compiled)
                    fh = io.BytesIO(data + b"\xee\xee")
                    full = cs.T(fh)
                    end = fh.tell()
                    want = repr(full)
                except Exception as e:  # noqa: BLE001
                    viol(f"a structure with a dynamically sized union cannot be defined / parsed: {type(e).__name__}: {e}", {"definition": text, "endian": endian})
                    continue
                case = {"definition": text, "endian": endian, "compiled": compiled, "data": data.hex()}
                res.feat("dynamic-union")
                for cut in range(end):
                    res.count(("dynunion-cut", text, endian, compiled, cut), True)
                    try:
                        got = repr(cs.T(io.BytesIO(data[:cut])))
                    except EOFError:
                        continue
                    except Exception as e:  # noqa: BLE001
                        viol(f"input cut at {cut} of {end} raises {type(e).__name__}, not EOFError", dict(case, cut=cut))
                        continue
                    if got != want:
                        viol(f"input cut at {cut} of {end} returns {got[:160]}; the complete input gives {want[:160]}", dict(case, cut=cut))
                n = count_reads(cs.T, data + b"\xee\xee")
                for at in range(n):
                    for drop in (1, 2):
                        res.count(("dynunion-short-once", text, endian, compiled, at, drop), True)
                        s = ShortOnce(data + b"\xee\xee", at, drop)
                        try:
                            got = repr(cs.T(s))
                        except EOFError:
                            continue
                        except Exception as e:  # noqa: BLE001
                            viol(f"a short read at call #{at} raises {type(e).__name__}, not EOFError", dict(case, fault=f"short-once@{at} drop={drop}"))
                            continue
                        if got != want or s.tell() != end:
                            viol(f"read call #{at} delivered {drop} byte(s) fewer than asked, yet parsing returned {got[:160]} standing at {s.tell()}; the "
                                 f"complete input gives {want[:160]} standing at {end}", dict(case, fault=f"short-once@{at} drop={drop}"))
                    for mode, keep in (("short", 0), ("short", 1), ("raise", 0)):
                        res.count(("dynunion-fault", text, endian, compiled, at, mode, keep), True)
                        s = Faulty(data + b"\xee\xee", at, mode, keep)
                        try:
                            got = repr(cs.T(s))
                        except EOFError:
                            continue
                        except OSError:
                            if mode == "raise":
                                continue
                            viol(f"premature end at read #{at} raises OSError", dict(case, fault=f"{mode}@{at} keep={keep}"))
                            continue
                        except Exception as e:  # noqa: BLE001
                            viol(f"fault {mode} at read #{at} raises {type(e).__name__}, not EOFError", dict(case, fault=f"{mode}@{at} keep={keep}"))
                            continue
                        if mode == "raise":
                            viol("the stream raised but parsing returned a value", dict(case, fault=f"{mode}@{at}"))
                        elif got != want or s.tell() != end:
                            viol(f"the stream ended early at read #{at} (keep {keep}) but parsing returned {got[:160]} standing at {s.tell()}; the complete "
                                 f"input gives {want[:160]} standing at {end}", dict(case, fault=f"{mode}@{at} keep={keep}"))
