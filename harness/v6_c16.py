"""C16 (v6): pointer-arithmetic CHAINS.

"Pointer arithmetic yields a pointer of the same type on the same stream" - for every operator the Pointer class defines
(+ - * // % ** << >> & ^ |, also written in place: `p -= k`), applied repeatedly, whatever addresses the intermediate results
take.  One generated definition per round: a target type (integers, floats, an enum, `char` strings, `wchar`, `void`, fixed and
dynamically sized structures, a structure with a NUL-terminated member, a self-referential node) and a record

    struct REC { [scalar] T *p; [scalar] T *q; T *arr[2]; T **pp; [scalar] };      (packed or aligned)

parsed from offset `lead` of a random image (from a BytesIO, a BytesIO subclass, a plain read/seek/tell object, or directly from
the bytes).  The stored addresses are null, small (1..8, so that `p - k` meets 0), inside the data, its last byte, just beyond it
or the top of the n-bit address space; `pp` points at a planted inner pointer.  Chains start from every pointer of the record,
from the pointer `pp` dereferences to, from a pointer type read on its own (`PT(stream)`) and from the pointer of a
default-constructed record (no stream).

A chain is planned on plain integers: way points (0, beyond the data, beyond / at the top of the address space, below zero,
back inside, the start address) each reached by an operator and operand chosen among ALL that get there from the current value
(`- value`, `^ value`, `& 0`, `* 0`, `% 1`, `% value`, `// (value + 1)`, `>> bits`, `& ~value` to reach 0; `| m`, `+ m`, `* m`,
`<< k`, `** 0` ... to leave it), with free steps (random operator, small operand) in between; operands are integers or - when the
value coincides - the running pointer itself (`r - r`) or another pointer of the record (`p - q`).

Oracle, after every chain (and after some of its prefixes): the result is an instance of the start pointer's class; its integer
value is what the same operators give on plain integers; dereferencing it gives - value or exception class - what parsing the
target type of a separately loaded interpreted copy of the definition at that absolute offset of a fresh stream of the same kind
gives (a NUL-terminated string for `char *`, nothing for `void *`, a pointer that is followed one more hop for `T **`); a null
RESULT raises NullPointerDereference, a non-null result reached THROUGH null dereferences like any other; the stream (parked at a
random position first) stays where it was; a second dereference gives the same; `dumps()` of a result that fits the pointer width
writes that address; the start pointer itself still holds its address and dereferences as before.  A chain from a pointer without
a stream raises NullPointerDereference at any address.  All seven pointer widths, both byte orders, both readers.
"""
from __future__ import annotations

import io
import operator

from . import impl
from .common import A, sx
from .s2_ptr import ALL_PTRS
from .v4_c16 import FaultBytesIO, PlainStream, read_target

OPS = {"+": (operator.add, operator.iadd), "-": (operator.sub, operator.isub), "*": (operator.mul, operator.imul),
       "//": (operator.floordiv, operator.ifloordiv), "%": (operator.mod, operator.imod), "**": (operator.pow, operator.ipow),
       "<<": (operator.lshift, operator.ilshift), ">>": (operator.rshift, operator.irshift), "&": (operator.and_, operator.iand),
       "^": (operator.xor, operator.ixor), "|": (operator.or_, operator.ior)}
SCALARS = ["uint8", "int8", "uint16", "int16", "uint32", "int32", "uint64", "int64", "uint24", "float", "double", "E8"]
SMALL = ["uint8", "uint16", "uint32", "int8", "int16"]


class PlainSeekStream(PlainStream):
    """the plain read/seek/tell object of v4, with a seek() that - like io.BytesIO - refuses a negative position BEFORE it moves
    (v4's class moves first and raises afterwards; a chain may ask for a dereference below zero, where the library's seek fails)"""

    def seek(self, pos, whence=0):
        pos = int(pos)
        new = pos if whence == 0 else self._pos + pos if whence == 1 else len(self._data) + pos
        if new < 0:
            raise ValueError(f"negative seek value {new}")
        self._pos = new
        return new


STREAMS = {"BytesIO": io.BytesIO, "BytesIO subclass": FaultBytesIO, "plain object (read/seek/tell)": PlainSeekStream, "bytes": None}
BIG = 1 << 150


# ------------------------------------------------------------------------------------------------ definitions and images

def gen_definition(rnd):
    """-> (text, target kind): the target type X (or a built-in one) and the record REC holding pointers to it"""
    kind = rnd.choice(["scalar", "scalar", "char", "wchar", "void", "struct", "dyn", "cstr", "node"])
    pre = "enum E8 : uint8 { A = 1, B = 2, C = 7 };\n"
    if kind == "scalar":
        t = rnd.choice(SCALARS)
        kind = f"scalar:{t}"
    elif kind in ("char", "wchar", "void"):
        t = kind
    else:
        t = "X"
        fs = [f"{rnd.choice(SMALL)} f{i};" for i in range(rnd.randint(1, 3))]
        if kind == "struct":
            fs.insert(rnd.randint(0, len(fs)), f"char s[{rnd.randint(1, 4)}];")
        elif kind == "dyn":
            fs = ["uint8 n;", f"{rnd.choice(['uint8', 'uint16', 'char'])} d[n & {rnd.choice([1, 3, 7])}];"] + fs[:1]
        elif kind == "cstr":
            fs.insert(rnd.randint(0, len(fs)), "char name[];")
        else:
            fs.insert(rnd.randint(0, len(fs)), "struct X *next;")
        pre += "struct X { " + " ".join(fs) + " };\n"
    body = []
    if rnd.random() < 0.6:
        body.append(f"{rnd.choice(SMALL)} a;")
    body.append(f"{t} *p;")
    if rnd.random() < 0.5:
        body.append(f"{rnd.choice(SMALL)} b;")
    body += [f"{t} *q;", f"{t} *arr[2];", f"{t} **pp;"]
    if rnd.random() < 0.5:
        body.append(f"{rnd.choice(SMALL)} z;")
    return pre + "struct REC { " + " ".join(body) + " };", kind


def pick_addr(rnd, N, top):
    r = rnd.random()
    if r < 0.28:
        return 0
    if r < 0.42:
        return rnd.randint(1, 8)
    if r < 0.80:
        return rnd.randint(1, min(N - 1, top))
    if r < 0.85:
        return min(N - 1, top)
    if r < 0.95:
        return min(N + rnd.randint(0, 8), top)
    return top - rnd.randint(0, 3)


# ------------------------------------------------------------------------------------------------ planning on plain integers

def reach(rnd, c, w):
    """one (operator, operand) with `c operator operand == w`, chosen among the ways to get from c to w"""
    generic = [("+", w - c), ("-", c - w), ("^", c ^ w)]
    sp = []
    if w == 0:
        sp += [("&", 0), ("*", 0), ("%", 1), ("&", ~c), ("-", c), ("^", c)]
        if c != 0:
            sp += [("%", c), ("%", -c)]
        if c >= 0:
            sp += [("//", c + 1 + rnd.randrange(4)), (">>", c.bit_length() + rnd.randrange(3))]
        if c == 0:
            sp += [("**", rnd.randint(1, 3)), ("<<", rnd.randrange(9)), ("|", 0), ("*", rnd.randrange(100))]
    if c == 0:
        sp += [("|", w), ("|", w), ("+", w)]
    if c == 1:
        sp.append(("*", w))
    if w == 1:
        sp.append(("**", 0))
        if c != 0:
            sp.append(("//", c))
    if c != 0 and w != 0 and w % c == 0:
        sp.append(("*", w // c))
    if c >= 0 and w >= 0:
        if c & ~w == 0:
            sp.append(("|", w & ~(c & rnd.getrandbits(16))))
        if w & ~c == 0:
            sp.append(("&", w | (rnd.getrandbits(12) & ~c)))
        for k in range(1, 9):
            if c >> k == w:
                sp.append((">>", k))
            if c << k == w:
                sp.append(("<<", k))
        if 0 < w <= c and c // (c // w) == w:
            sp.append(("//", c // w))
        if c > 2 * w:
            sp.append(("%", c - w))
    sp = [(s, k) for s, k in sp if not (s in ("//", "%") and k == 0) and not (s in ("<<", ">>", "**") and k < 0) and OPS[s][0](c, k) == w]
    return rnd.choice(sp) if sp and rnd.random() < 0.6 else rnd.choice(generic)


def free_step(rnd, c):
    """a random operator with a small operand; the result is whatever integer arithmetic gives"""
    syms = ["//", "%", "&", ">>", "-", "+"] if abs(c) > BIG else list(OPS)
    s = rnd.choice(syms)
    k = {"+": rnd.randint(1, 40), "-": rnd.randint(1, 40), "*": rnd.randint(0, 3), "//": rnd.randint(1, 5), "%": rnd.randint(1, 64),
         "&": rnd.choice([0xFF, 0x7F, 0xF0, 0x0F, 0, rnd.randrange(256)]), "|": rnd.randrange(64), "^": rnd.randrange(256),
         "<<": rnd.randrange(4), ">>": rnd.randrange(5), "**": rnd.randint(0, 2)}[s]
    return s, k


def plan_chain(rnd, a0, N, top):
    """-> (steps [(operator, operand)], values after each step)"""
    def through():
        r = rnd.random()
        if r < 0.45:
            return 0
        if r < 0.60:
            return N + rnd.randint(0, 40)
        if r < 0.70:
            return top + rnd.randint(-2, 300)
        if r < 0.80:
            return -rnd.randint(1, 300)
        if r < 0.90:
            return rnd.randint(1, N - 1)
        return a0

    def final():
        r = rnd.random()
        if r < 0.60:
            return rnd.randint(1, N - 1)
        if r < 0.70:
            return N - 1
        if r < 0.82:
            return 0
        if r < 0.90:
            return N + rnd.randint(0, 8)
        if r < 0.97:
            return a0
        return top

    ways = [through() for _ in range(rnd.choice([0, 1, 1, 1, 2, 2, 3]))] + [final()]
    steps, vals, c = [], [], a0
    for w in ways:
        if rnd.random() < 0.3:
            s, k = free_step(rnd, c)
            c = OPS[s][0](c, k)
            steps.append((s, k))
            vals.append(c)
        if c == w and rnd.random() < 0.5:
            continue
        s, k = reach(rnd, c, w)
        steps.append((s, k))
        vals.append(w)
        c = w
    if not steps:
        steps, vals = [("+", 0)], [a0]
    return steps, vals


# ------------------------------------------------------------------------------------------------ one round

def canonv(v):
    return [A("void")] if v is None else impl.canon(v)


def show(o):
    if o[0] == "ok":
        return "gives " + sx(canonv(o[1]))[:140]
    return "raises NullPointerDereference" if o[0] == "null" else f"raises {type(o[1]).__name__}: {str(o[1])[:60]}"


def arith_round(m, pname, endian, compiled, rnd, tier, res, viol):
    NullPointerDereference = m.NullPointerDereference
    psz = ALL_PTRS[pname]
    top = (1 << (8 * psz)) - 1
    order = "little" if endian == "<" else "big"
    align = rnd.random() < 0.3
    text, tkind = gen_definition(rnd)
    skind = rnd.choice(["BytesIO", "BytesIO", "BytesIO subclass", "plain object (read/seek/tell)", "bytes"])
    cd0 = {"definition": text, "endian": endian, "compiled": compiled, "pointer": pname, "align": align, "target": tkind, "stream": skind}
    try:
        cs = m.cstruct(endian=endian, pointer=pname)
        cs.load(text, compiled=compiled, align=align)
        ref = m.cstruct(endian=endian, pointer=pname)
        ref.load(text, compiled=False, align=align)
        T, R = cs.REC, ref.REC
        recsize = len(R)
        offs = {n: R.fields[n].offset for n in ("p", "q", "arr", "pp")}
        RP, RPP = R.fields["p"].type, R.fields["pp"].type          # reference classes: T* and T**
    except Exception as e:  # noqa: BLE001
        viol(f"a record with {pname} pointers to {tkind} is rejected: {type(e).__name__}: {e}", cd0)
        return
    lead = 0 if skind == "bytes" else rnd.choice([0, 0, rnd.randint(1, 9)])
    N = lead + recsize + rnd.randint(40, 100)
    if psz == 1:
        N = min(N, 250)
    data = bytearray(rnd.choice([0, 0, 1, 2, 3, 0x41, 0x42, 0x7F, 0x80, 0xFF, rnd.randrange(256)]) for _ in range(N))
    slots = {"o.p": lead + offs["p"], "o.q": lead + offs["q"], "o.arr[0]": lead + offs["arr"], "o.arr[1]": lead + offs["arr"] + psz,
             "o.pp": lead + offs["pp"]}
    addrs = {}
    for name, at in slots.items():
        addrs[name] = pick_addr(rnd, N, top)
    inner_at = rnd.randint(lead + recsize, N - psz - 1)
    if rnd.random() < 0.8:
        addrs["o.pp"] = inner_at
    inner = pick_addr(rnd, N, top)
    data[inner_at:inner_at + psz] = inner.to_bytes(psz, order)
    for name, at in slots.items():
        data[at:at + psz] = addrs[name].to_bytes(psz, order)
    data = bytes(data)
    mk = io.BytesIO if skind == "bytes" else STREAMS[skind]
    cd = dict(cd0, data=data.hex(), record_at=lead)
    setup = ["import io; from dissect.cstruct import cstruct",
             f"cs = cstruct(endian={endian!r}, pointer={pname!r}); cs.load({text!r}, compiled={compiled}, align={align})"]
    stream = None
    try:
        if skind == "bytes":
            o = T(data)
            setup.append(f"o = cs.REC(bytes.fromhex({data.hex()!r}))")
        else:
            stream = mk(data)
            stream.seek(lead)
            o = T(stream)
            setup.append(f"s = io.BytesIO(bytes.fromhex({data.hex()!r})); s.seek({lead}); o = cs.REC(s)"
                         + ("" if skind == "BytesIO" else f"    # the run used a {skind}"))
        pos1 = lead + recsize
        starts = [("o.p", o.p, RP), ("o.q", o.q, RP), ("o.arr[0]", o.arr[0], RP), ("o.arr[1]", o.arr[1], RP), ("o.pp", o.pp, RPP)]
    except Exception as e:  # noqa: BLE001
        viol(f"parsing a record with {pname} pointers raises {type(e).__name__}: {e}", cd)
        return
    for name, p, _ in starts:
        if not isinstance(p, m.Pointer) or int(p) != addrs[name]:
            viol(f"{name} reads as {p!r}, the unsigned integer stored there is {addrs[name]}", cd)
            return
    pool = {name: p for name, p, _ in starts}
    # the pointer pp dereferences to, and a pointer type read on its own
    if addrs["o.pp"] == inner_at:
        try:
            ip = o.pp.dereference()
            if isinstance(ip, m.Pointer) and int(ip) == inner:
                starts.append(("o.pp.dereference()", ip, RP))
            else:
                viol(f"o.pp dereferences to {ip!r}, the pointer stored at {inner_at} is {inner}", cd)
        except Exception as e:  # noqa: BLE001
            viol(f"dereferencing o.pp (address {inner_at}, inside the data) raises {type(e).__name__}: {e}", cd)
    if stream is not None:
        which = rnd.choice(["p", "q", "pp"])
        at = slots["o." + which]
        try:
            stream.seek(at)
            sp = T.fields[which].type(stream)
            stream.seek(pos1)
            if isinstance(sp, m.Pointer) and int(sp) == addrs["o." + which]:
                starts.append(("PT", sp, RPP if which == "pp" else RP))
                setup.append(f"s.seek({at}); PT = cs.REC.fields[{which!r}].type(s); s.seek({pos1})")
            else:
                viol(f"the pointer type of member {which} read at offset {at} gives {sp!r}, stored there is {addrs['o.' + which]}", cd)
        except Exception as e:  # noqa: BLE001
            viol(f"reading the pointer type of member {which} at offset {at} raises {type(e).__name__}: {e}", cd)
    res.feat(f"v6:arith-chain:target:{tkind.split(':')[0]}")
    res.feat(f"v6:arith-chain:stream:{skind}")
    res.feat(f"v6:arith-chain:{'aligned' if align else 'packed'}")
    expected = {}

    def expect(RT, addr):
        """what dereferencing a pointer of reference class RT at addr must give"""
        key = (RT.__name__, addr)
        if key not in expected:
            tt = RT.type
            if addr == 0:
                expected[key] = ("null",)
            elif issubclass(tt, m.Void):
                expected[key] = ("ok", None)
            else:
                expected[key] = read_target(tt, mk(data), addr)
        return expected[key]

    def deref_check(r, addr, RT, what, cdp, streamless=False, hop=0):
        """the dereference predicate on pointer r whose address must be addr; -> True when it held"""
        want = ("null",) if streamless else expect(RT, addr)
        if stream is not None:
            stream.seek(rnd.choice([pos1, pos1, 0, N, rnd.randint(0, N)]))
        before = stream.tell() if stream is not None else None
        v = None
        try:
            v = r.dereference()
            got = ("ok", v)
        except NullPointerDereference:
            got = ("null",)
        except Exception as e:  # noqa: BLE001
            got = ("err", e)
        after = stream.tell() if stream is not None else None
        good = True
        if after != before:
            good = False
            viol(f"{what}: dereferencing moved the stream {before} -> {after}", cdp)
        if want[0] == "ok":
            ok = got[0] == "ok" and impl.same_val(canonv(want[1]), canonv(got[1]))
        elif want[0] == "err":
            ok = got[0] == "err" and type(got[1]).__name__ == type(want[1]).__name__
        else:
            ok = got[0] == "null"
        if not ok:
            good = False
            wshow = "a pointer without a stream must raise NullPointerDereference" if streamless else \
                f"parsing {RT.type.__name__} at offset {addr} of the same stream {show(want)}"
            viol(f"{what}: dereferencing the pointer @ {addr} {show(got)}; {wshow}", cdp)
        if got[0] == "ok":
            try:
                v2 = r.dereference()
                if v2 is not v and (v is None or v2 is None or not impl.same_val(canonv(v), canonv(v2))):
                    good = False
                    viol(f"{what}: a repeated dereference of the pointer @ {addr} gives a different value", cdp)
            except Exception as e:  # noqa: BLE001
                good = False
                viol(f"{what}: a repeated dereference of the pointer @ {addr} raises {type(e).__name__}", cdp)
            if good and hop == 0 and isinstance(v, m.Pointer) and issubclass(RT.type, m.Pointer):
                # T **: the pointer found there is on the same stream as well
                good = deref_check(v, int(v), RT.type, what + " -> dereferenced once more", cdp, hop=1)
        return good

    nchains = 4 if tier == "quick" else 8
    # a default-constructed record: its pointer has no stream, and neither has anything computed from it
    try:
        starts.append(("cs.REC().p", T().p, RP))
    except Exception as e:  # noqa: BLE001
        viol(f"default-constructing the record raises {type(e).__name__}: {e}", cd)
    for sname, p0, RT in starts:
        streamless = sname == "cs.REC().p"
        try:
            a0 = int(p0)
        except Exception as e:  # noqa: BLE001
            viol(f"{sname} is not an integer: {type(e).__name__}", cd)
            continue
        for _ in range(1 if streamless else nchains):
            steps, vals = plan_chain(rnd, a0, N, top)
            script, r, c, done = [f"r = {sname}".ljust(28) + f"# address {a0}"], p0, a0, True
            tags = set()
            for i, ((s, k), w) in enumerate(zip(steps, vals)):
                via, operand = repr(k), k
                if k == c and rnd.random() < 0.6:
                    via, operand = "r", r
                else:
                    same = [n for n, q in pool.items() if addrs[n] == k and n != sname]
                    if same and rnd.random() < 0.6:
                        via = rnd.choice(same)
                        operand = pool[via]
                inplace = rnd.random() < 0.3
                script.append((f"r {s}= {via}" if inplace else f"r = r {s} {via}").ljust(28) + f"# address {w}")
                cdp = dict(cd, start=sname, start_address=a0, steps=[f"{x} {y}" for x, y in steps[:i + 1]], addresses=vals[:i + 1],
                           repro="\n".join(setup + script + ["print(repr(r), type(r)); print(r.dereference())"]))
                expr = f"{sname} (address {a0}) " + " ".join(f"{x} {y}" for x, y in steps[:i + 1])
                res.feat(f"v6:arith-chain:op:{s}")
                if operand is not k:
                    res.feat("v6:arith-chain:operand-is-a-pointer")
                if inplace:
                    res.feat("v6:arith-chain:in-place")
                try:
                    r2 = OPS[s][1 if inplace else 0](r, operand)
                except Exception as e:  # noqa: BLE001
                    viol(f"{expr}: pointer arithmetic raises {type(e).__name__}: {str(e)[:80]}", cdp)
                    done = False
                    break
                if type(r2) is not type(p0):
                    viol(f"{expr}: the result is a {type(r2).__name__} ({r2!r}), not a pointer of the type of {sname} ({type(p0).__name__})", cdp)
                    done = False
                    break
                if int(r2) != w:
                    viol(f"{expr}: the result is the address {int(r2)}, the same operators on the addresses give {w}", cdp)
                    done = False
                    break
                r, c = r2, w
                last = i == len(steps) - 1
                if not last:
                    tags |= {"through-null"} if w == 0 else {"through-beyond-the-data"} if w >= N else {"through-below-zero"} if w < 0 else set()
                if last or rnd.random() < 0.2:
                    lbl = expr if last else expr + " (intermediate result)"
                    if w != 0 and not streamless and (a0 == 0 or "through-null" in tags):
                        lbl += " (a non-null result reached through null)"
                    if not deref_check(r, w, RT, lbl, cdp, streamless) and not last:
                        done = False
                        break
            if not done:
                continue
            w = vals[-1]
            res.count(("v6-arith-chain", pname, endian, compiled, text, data, sname, tuple(steps)), w != 0 and not streamless)
            for t in tags:
                res.feat(f"v6:arith-chain:{t}")
            res.feat(f"v6:arith-chain:start:{'no stream' if streamless else 'null' if a0 == 0 else 'non-null'}")
            res.feat(f"v6:arith-chain:start-kind:{'member' if sname.startswith('o.') and not sname.endswith(')') else sname}")
            res.feat(f"v6:arith-chain:result:{'null' if w == 0 else 'below zero' if w < 0 else 'inside the data' if w < N else 'beyond the data'}")
            if w != 0 and not streamless and ("through-null" in tags or a0 == 0):
                res.feat("v6:arith-chain:non-null result reached through null")
            res.feat(f"v6:arith-chain:steps:{min(len(steps), 6)}")
            if 0 <= w <= top:
                try:
                    b = r.dumps()
                    if b != w.to_bytes(psz, order):
                        viol(f"{expr}: dumps() of the result writes {b.hex()}, its address {w} is {w.to_bytes(psz, order).hex()}", cdp)
                except Exception as e:  # noqa: BLE001
                    viol(f"{expr}: dumps() of the result (address {w}) raises {type(e).__name__}: {e}", cdp)
        # the start pointer is what it was
        cdp = dict(cd, start=sname, start_address=a0)
        if int(p0) != a0:
            viol(f"{sname}: arithmetic changed the pointer it started from ({a0} -> {int(p0)})", cdp)
        deref_check(p0, a0, RT, f"{sname} (address {a0}) after the arithmetic on it", cdp, streamless)
        res.count(("v6-arith-chain-start", pname, endian, compiled, text, data, sname), a0 != 0 and not streamless)


def arith_chains(m, env, res, viol, rnd):
    tier = env["tier"]
    for pname in ALL_PTRS:
        for endian in "<>":
            for compiled in (False, True):
                for _ in range(6 if tier == "quick" else 40):
                    arith_round(m, pname, endian, compiled, rnd, tier, res, viol)
