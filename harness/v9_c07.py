"""Generator and oracle of one probe family of C07 (array length semantics): *wrong-length values at every nesting level*.

The property: "multi-dimensional arrays nest in C order, element boundaries follow the element size, and dumping a fixed-size
array of non-character elements with a different number of elements is refused."  A fixed-size array is a fixed-size array
wherever it sits: as the field of a structure, as the ROW of a multi-dimensional array (a[2][3], a[n][3], a[2][2][2]), as a
typedef'd row type, as the member of a structure that is itself an array element, in a structure nested in another one - and
whichever public call writes the value out.  So, for every generated definition

    [typedef ELEM row_t[k]..;]  struct T { [m;] n; [m;] ELEM a[d1][d2]([d3][d4]); [tail;] };   [struct O { h; T t; z; } | { T ts[2]; z; }]

the family takes a WELL-FORMED value (independently decoded by the reference parser from a generated input) and derives
ill-formed ones by changing the number of elements of ONE fixed-size array node of the value tree - at ANY depth, not only the
outermost dimension - and then asks every enclosing value (the node itself, the rows/arrays/structures around it, the top-level
structure) to dump itself through each public call form.

What varies (all driven by the seeded PRNG):
  * element kind (34): packed and odd-width integers (8..128 bit, aliases), float16/float/double, enum/flag over 8/16/24/32 bit,
    uleb128/ileb128, pointer, char and wchar (their innermost dimension is exempt, the outer ones are not), structures (plain,
    with bit-fields, with a fixed row member `r[k]`, with a 2-dimensional member `g[2][2]`, with a nested structure that has an
    array, with a dynamic member `d[k & 3]`);
  * 2..4 dimensions, each with its own length form: fixed (0..4), expression over the count fields n / m and constants,
    null-terminated (innermost), EOF (outermost, last field); at least one fixed dimension, mostly an INNER one;
  * the spelling of the array type: declarator `ELEM a[2][3]`, typedef'd rows (`typedef ELEM row_t[3]; row_t a[2];`, also two
    typedefs deep), API construction (`cs.uint16[3][2]`, `cs._make_array`, `cs._make_struct([Field(...)])` + compiler.compile),
    `cs.loadfile`; structure elements inline (anonymous) or declared by name;
  * the container: structure T, T as a member of O, T as the element of `T ts[2]` in O, or no structure at all (the array type
    itself is the top-level type: `cs.uint16[3][2]`, the typedef, `cs.T.fields['a'].type`);
  * byte order, packed/aligned, interpreted/compiled;
  * the value class: freshly constructed Python lists (keyword / positional / attribute-by-attribute construction of the
    structures), tuples instead of lists, the library's own parsed value mutated in place with list methods, a parsed value one
    of whose array fields is re-assigned, a constructed value mutated in place; enum elements as members or as plain integers;
  * the ill-formed shape: one node shorter / longer / empty / doubled / cut to one element / grown from zero; elements SHIFTED
    from one row to its sibling (the total number of elements - and for fixed-size elements the total number of bytes - stays
    the declared one: [[1,2],[3,4,5,6]] for a[2][3]); TRANSPOSED (3 rows of 2 for a[2][3]); FLATTENED ([1..6] for a[2][3]); two
    independent nodes at once;
  * the call form: TYPE.dumps(v), v.dumps(), TYPE.write(stream, v), v.write(stream), with io.BytesIO and a real file object.

Oracle.  Well-formed value: every call form, on the top-level value and on every enclosing sub-value, yields exactly the bytes
of the generated input (C order, element boundaries by element size, terminators re-appended; padding bytes of aligned
structures as zeros) - the input was decoded by harness/refimpl.py, not by the library - and the library parses those bytes
back to the same value.  Ill-formed value: every call form on every enclosing value is refused with ArraySizeError (the library's
dedicated error; nothing else is wrong with the value, so nothing else may be reported) - never bytes.  Both results of the
top-level call are also put to the Lean model (write), as correspondence.

Excluded, with the reason:
  * the legacy definition parser (deftype=DEF_LEGACY): it has no multi-dimensional declarators at all (`a[2][3]` is an
    ExpressionTokenizerError there) and no typedef'd arrays - nothing of this family can be spelled in it;
  * EOF dimensions in aligned structures: dumps appends the tail padding, known finding F30 (exercised by c07.check_case);
  * null-terminated rows of floats (F75), pointers, 48/64/128-bit integers (rows would not end within the generated input) and of
    structures with array/char members (F58);  void elements (F64);  unions (F9/F10 territory of C11);
  * a wrong length of the INNERMOST dimension of char / wchar arrays (bytes / str values): the property exempts character
    elements; the outer dimensions of `char c[2][3]` are lists of non-character elements (char[3]) and are included;
  * sub-values of aligned structures that have no static size are not dumped ON THEIR OWN for the well-formed comparison (their
    padding depends on the absolute position, which a stand-alone dump does not have); they are still dumped as part of the
    top-level value, and the refusal of ill-formed values is checked for them like for all others.
"""
from __future__ import annotations

import copy
import io
import os
import random
import shutil
import struct as _struct
import tempfile

from . import defs, impl, refimpl
from .common import A, sx

S = lambda n: ("sc", n)  # noqa: E731


def F(name, ty, bits=None):
    return {"name": name, "ty": ty, "bits": bits}


INT_KINDS = ["uint8", "int8", "uint16", "int16", "uint32", "int32", "uint64", "int64", "uint24", "int24", "uint48", "int48", "int128", "uint128",
             "WORD", "long long"]
FLT_KINDS = ["float16", "float", "double"]
LEB_KINDS = ["uleb128", "ileb128"]
ENUM_KINDS = ["E8", "F16", "E32", "E24"]
STRUCT_KINDS = ["struct", "bitstruct", "rowstruct", "gridstruct", "nested", "dynstruct"]
KINDS = INT_KINDS + ["uint16", "uint16", "uint8", "int32"] + FLT_KINDS + LEB_KINDS + ENUM_KINDS + ENUM_KINDS + ["ptr", "char", "wchar"] + STRUCT_KINDS * 2
# rows that end within the generated input and whose terminator is within the property's quantifier
NULL_OK = ["uint8", "int8", "uint16", "int16", "uint24", "int24", "uint32", "int32", "WORD", "E8", "F16", "E24", "E32", "uleb128", "ileb128", "char",
           "wchar", "struct"]
NARROW = set(FLT_KINDS + LEB_KINDS + ["wchar"])  # element bytes < 0x7c (see _needs_narrow)
COUNT_EXPRS = ["n", "n", "n", "n", "n & 3", "n - 1", "(n & 1) + 1", "n % 3", "n >> 1", "K2", "K2 - (n & 1)", "{m}", "{m} & 3", "n + {m}", "n * K2 - {m}"]


def draw_elem(rnd: random.Random):
    en = rnd.choice(KINDS)
    if en in ENUM_KINDS:
        return en, ("enum", en)
    if en == "ptr":
        return en, ("ptr", S("uint8"))
    if en == "struct":
        return en, ("struct", [F("x", S("uint8")), F("y", S("uint16"))])
    if en == "bitstruct":
        return en, ("struct", [F("p", S("uint8"), 3), F("q", S("uint8"), 5), F("y", S("uint16"))])
    if en == "rowstruct":  # a fixed row inside the element: one more nesting level, through a structure
        rt = rnd.choice([S("uint16"), S("uint16"), S("uint8"), S("int32"), S("uint24"), ("enum", "E8"), S("uleb128")])
        return en, ("struct", [F("k", S("uint8")), F("r", ("arr", rt, ("fixed", rnd.randint(1, 3))))])
    if en == "gridstruct":  # a multi-dimensional array inside the element
        return en, ("struct", [F("g", ("arr", ("arr", rnd.choice([S("uint16"), S("int8"), S("uint32")]), ("fixed", 2)), ("fixed", 2))), F("z", S("uint8"))])
    if en == "nested":
        return en, ("struct", [F("inner", ("struct", [F("p", S("uint8")), F("q", ("arr", S("uint16"), ("fixed", 2)))])), F("z", S("uint8"))])
    if en == "dynstruct":
        return en, ("struct", [F("k", S("uint8")), F("d", ("arr", S("uint8"), ("expr", "k & 3")))])
    return en, S(en)


def shape_plan(rnd: random.Random):
    """-> plan dict (definition tree, how it is spelled and loaded, configuration)"""
    en, elem = draw_elem(rnd)
    charlike = en in ("char", "wchar")
    container = rnd.choice(["T"] * 6 + ["member", "member", "array", "bare", "bare"])
    spelling = rnd.choice(["decl"] * 4 + ["typedef", "typedef", "api", "api", "loadfile"])
    align = rnd.random() < 0.4
    allow_expr = container != "bare"
    allow_eof = container in ("T", "bare") and not align
    nd = rnd.choice([2, 2, 2, 2, 3, 3, 3, 4])
    forms = []
    for lvl in range(nd):
        r = rnd.random()
        if lvl == 0:
            f = "eof" if (allow_eof and r < 0.10) else ("expr" if (allow_expr and r < 0.32) else "fixed")
        elif lvl == nd - 1:
            f = "null" if (en in NULL_OK and r < 0.2) else ("expr" if (allow_expr and r < 0.27) else "fixed")
        else:
            f = "expr" if (allow_expr and r < 0.2) else "fixed"
        forms.append(f)
    # a fixed dimension BELOW the outermost one whose elements are no characters (rows of a[..][k]): wanted in most plans
    inner_ok = [l for l in range(1, nd) if not (charlike and l == nd - 1)]
    if inner_ok and not any(forms[l] == "fixed" for l in inner_ok) and rnd.random() < 0.85:
        forms[rnd.choice(inner_ok)] = "fixed"
    usable = [l for l in range(nd) if not (charlike and l == nd - 1)]
    if not any(forms[l] == "fixed" for l in usable):
        forms[usable[0]] = "fixed"
    has_m = allow_expr and rnd.random() < 0.4
    m = "m" if has_m else "K2"
    dims = []
    for f in forms:
        if f == "fixed":
            dims.append(("fixed", 0 if rnd.random() < 0.04 else rnd.choice([1, 2, 2, 3, 3, 4])))
        elif f == "expr":
            dims.append(("expr", rnd.choice(COUNT_EXPRS).format(m=m)))
        else:
            dims.append((f,))
    while True:  # keep the values small: at most ~48 elements if every variable dimension holds 3
        prod = 1
        for d in dims:
            prod *= max(1, d[1]) if d[0] == "fixed" else 3
        if prod <= 48:
            break
        i = max((i for i, d in enumerate(dims) if d[0] == "fixed"), key=lambda i: dims[i][1])
        dims[i] = ("fixed", dims[i][1] - 1)
    arr = elem
    for d in reversed(dims):  # C order: the first dimension is the outermost
        arr = ("arr", arr, d)
    eof = dims[0][0] == "eof"
    if container == "bare":
        pre, tail = [], []
        tree = arr
        ttree = None
    else:
        n = F("n", S(rnd.choice(["uint8", "uint8", "uint8", "uint16", "int8"])))
        pre = [n]
        if has_m:
            mf = F("m", S(rnd.choice(["uint8", "uint8", "uint16", "uint32"])))
            pre = [mf, n] if rnd.random() < 0.5 else [n, mf]
        tail = [] if (eof or rnd.random() < 0.35) else [F("tail", S(rnd.choice(["uint8", "uint8", "uint16", "uint32"])))]
        ttree = ("struct", pre + [F("a", arr)] + tail)
        tree = {"T": ttree,
                "member": ("struct", [F("h", S("uint8")), F("t", ttree), F("z", S("uint16"))]),
                "array": ("struct", [F("ts", ("arr", ttree, ("fixed", 2))), F("z", S("uint8"))])}[container]
    named_elem = elem[0] == "struct" and (spelling in ("typedef", "api") or rnd.random() < 0.5)
    # typedef'd rows: the trailing j dimensions (all fixed) become a type of their own, possibly in two steps
    tdims = 0
    if spelling == "typedef":
        k = 0
        while k < nd and dims[nd - 1 - k][0] == "fixed":
            k += 1
        if k == 0 or (container == "bare" and k < nd):
            spelling = "decl"  # (the top-level type of a bare plan has to be the typedef itself)
        else:
            tdims = nd if container == "bare" else rnd.randint(1, k)
    return {"en": en, "elem": elem, "dims": dims, "forms": forms, "arr": arr, "tree": tree, "ttree": ttree, "container": container,
            "spelling": spelling, "named_elem": named_elem, "tdims": tdims, "tsplit": rnd.random() < 0.4, "pre": pre, "tail": tail, "eof": eof,
            "endian": rnd.choice("<>"), "align": align, "compiled": rnd.random() < 0.5, "make_array": rnd.random() < 0.3}


# ------------------------------------------------------------------------------------------------ loading

def _with_elem(arr, elem, repl):
    """the array type with its innermost element type replaced"""
    if arr is elem:
        return repl
    return ("arr", _with_elem(arr[1], elem, repl), arr[2])


def setup_lines(plan):
    """-> the Python statements that build the types (they are executed by the harness AND printed as the reproduction);
    afterwards `cs` is the instance and `TOP` the top-level type"""
    en, elem, dims, arr = plan["en"], plan["elem"], plan["dims"], plan["arr"]
    C, AL = plan["compiled"], plan["align"]
    base = defs.PREAMBLE + "#define K2 2\n#define K0 0\n"
    ename = None
    if plan["named_elem"]:
        base += defs.render_struct("El", elem)
        ename = "El"
    eref = S(ename) if ename else elem  # what the array declarator names as its element
    nd = len(dims)
    lines = [f"cs = cstruct(endian={plan['endian']!r}, pointer='uint64')"]
    holder = {"member": "struct O {\n  uint8 h;\n  T t;\n  uint16 z;\n};\n", "array": "struct O {\n  T ts[2];\n  uint8 z;\n};\n"}.get(plan["container"], "")
    if plan["spelling"] == "api":
        lines.append(f"cs.load({base!r}, compiled={C}, align={AL})")
        if en == "ptr":
            ex = "cs._make_pointer(cs.uint8)"
        else:
            nm = ename or (elem[1])
            ex = f"cs.{nm}" if nm.isidentifier() else f"cs.resolve({nm!r})"
        for d in reversed(dims):
            cnt = {"fixed": lambda: str(d[1]), "expr": lambda: f"Expression(cs, {d[1]!r})", "null": lambda: "None", "eof": lambda: "Expression(cs, 'EOF')"}[d[0]]()
            ex = f"cs._make_array({ex}, {cnt})" if plan["make_array"] else f"{ex}[{cnt}]"
        lines.append(f"AT = {ex}")
        if plan["container"] == "bare":
            lines.append("TOP = AT")
            return lines
        fl = []
        for f in plan["pre"] + [None] + plan["tail"]:
            fl.append("Field('a', AT)" if f is None else f"Field({f['name']!r}, cs.{f['ty'][1]})")
        lines.append(f"T = cs._make_struct('T', [{', '.join(fl)}], align={AL})")
        if C:
            lines.append("T = compiler.compile(T)")
        lines.append("cs.add_type('T', T)")
        if holder:
            lines.append(f"cs.load({holder!r}, compiled={C}, align={AL})")
            lines.append("TOP = cs.O")
        else:
            lines.append("TOP = cs.T")
        return lines
    text = base
    atype = _with_elem(arr, elem, eref)
    if plan["tdims"]:
        j = plan["tdims"]
        inner = eref
        for d in reversed(dims[nd - j:]):
            inner = ("arr", inner, d)
        if j >= 2 and plan["tsplit"]:  # two typedefs deep: row_t = ELEM[k]; grid_t = row_t[..]
            text += "typedef " + defs.render_field(F("row_t", ("arr", eref, dims[nd - 1])), None) + "\n"
            g = S("row_t")
            for d in reversed(dims[nd - j:nd - 1]):
                g = ("arr", g, d)
            text += "typedef " + defs.render_field(F("grid_t", g), None) + "\n"
            tname = "grid_t"
        else:
            text += "typedef " + defs.render_field(F("row_t", inner), None) + "\n"
            tname = "row_t"
        atype = S(tname)
        for d in reversed(dims[:nd - j]):
            atype = ("arr", atype, d)
    if plan["container"] == "bare":
        if plan["tdims"]:
            top = f"cs.{tname}"
        else:
            text += "struct T {\n  " + defs.render_field(F("a", atype), None) + "\n};\n"
            top = "cs.T.fields['a'].type"
    else:
        body = [defs.render_field(f, None) for f in plan["pre"]] + [defs.render_field(F("a", atype), None)] + [defs.render_field(f, None) for f in plan["tail"]]
        text += "struct T {\n  " + "\n  ".join(body) + "\n};\n" + holder
        top = "cs.O" if holder else "cs.T"
    if plan["spelling"] == "loadfile":
        lines.append("d = tempfile.mkdtemp(); p = os.path.join(d, 'defs.h')")
        lines.append(f"open(p, 'w').write({text!r})")
        lines.append(f"cs.loadfile(p, compiled={C}, align={AL})")
    else:
        lines.append(f"cs.load({text!r}, compiled={C}, align={AL})")
    lines.append(f"TOP = {top}")
    return lines


HEADER = "import io, os, tempfile\nfrom dissect.cstruct import cstruct, Expression, compiler\nfrom dissect.cstruct.types.structure import Field"


class View:
    """the loaded definition: namespace of the executed set-up statements + what Engine.case_data / model_write need"""

    def __init__(self, plan):
        dc = impl.dc()
        from dissect.cstruct import compiler
        from dissect.cstruct.types.structure import Field

        self.plan = plan
        self.lines = setup_lines(plan)
        self.ns = {"cstruct": dc.cstruct, "Expression": dc.Expression, "compiler": compiler, "Field": Field, "io": io, "os": os, "tempfile": tempfile}
        try:
            exec("\n".join(self.lines), self.ns)  # noqa: S102 - statements generated by setup_lines above
        finally:
            d = self.ns.get("d")
            if isinstance(d, str) and d.startswith(tempfile.gettempdir()):
                shutil.rmtree(d, ignore_errors=True)
        self.tree, self.endian, self.align, self.compiled, self.pointer = plan["tree"], plan["endian"], plan["align"], plan["compiled"], "uint64"
        self.cs, self.T = self.ns["cs"], self.ns["TOP"]
        self.text = "\n".join(self.lines)

    cfg_sexp = impl.Loaded.cfg_sexp
    ty_sexp = impl.Loaded.ty_sexp

    def script(self, extra):
        return "\n".join([HEADER, *self.lines, *extra])


# ------------------------------------------------------------------------------------------------ inputs and reference values

class GenP(refimpl.P):
    """the reference parser, recording where every value starts and ends; as a GENERATOR it also writes the drawn count values
    into the input at the moment it reaches a count field (their positions depend on what was parsed before)"""

    def __init__(self, data, cfg, counts=None):
        super().__init__(data, cfg)
        self.spans = {}
        self.counts = counts  # {id(type node of a count field): (size, draw())} or None

    def value(self, ty, pos, ctx):
        if self.counts and id(ty) in self.counts:
            size, draw = self.counts[id(ty)]
            if pos + size <= len(self.data):
                self.data[pos:pos + size] = (draw() % (1 << (8 * size))).to_bytes(size, self.cfg.endian)
        v, p = super().value(ty, pos, ctx)
        self.spans[id(v)] = (pos, p)
        return v, p


def _filler(rnd, n, narrow, pzero):
    hi = 0x7C if narrow else 0x100
    small = [1, 1, 2, 3, 5, 0x41, 0x7B]
    out = bytearray(n)
    for i in range(n):
        r = rnd.random()
        out[i] = 0 if r < pzero else (rnd.choice(small) if r < pzero + 0.3 else rnd.randrange(1, hi))
    return out


def _needs_narrow(t):
    """does the element hold a float, LEB128 or wchar somewhere (bytes < 0x7c: no NaN / infinity, every LEB128 value ends in its
    first byte - a redundant continuation byte is no canonical encoding and cannot be reproduced by a dump -, no surrogates)"""
    if t[0] == "sc":
        return t[1] in NARROW
    if t[0] == "arr":
        return _needs_narrow(t[1])
    if t[0] == "struct":
        return any(_needs_narrow(f["ty"]) for f in t[1])
    return False


def _gen_tree(tree, r):
    """the tree with every EOF dimension replaced by a fixed one of r elements (to generate a complete input); scalar type
    nodes are shared with the original tree (the count fields are recognised by the identity of their type node)"""
    k = tree[0]
    if k == "arr":
        return ("arr", _gen_tree(tree[1], r), ("fixed", r) if tree[2][0] == "eof" else tree[2])
    if k == "struct":
        return ("struct", [dict(f, ty=_gen_tree(f["ty"], r)) for f in tree[1]])
    return tree


def draw_input(rnd, plan, cfg):
    """-> (input bytes, reference value, spans {id(value node): (start, end)}, mask) - the input is complete for the definition
    (exactly consumed), count fields hold small values, elements carry no NaN"""
    narrow = _needs_narrow(plan["elem"])
    pzero = rnd.choice([0.45, 0.6]) if "null" in plan["forms"] else rnd.choice([0.0, 0.05, 0.2])
    count_tys = [f["ty"] for f in plan["pre"]]
    for _attempt in range(12):
        buf = _filler(rnd, 1600, narrow, pzero)
        draw = lambda: rnd.choice([0, 1, 1, 2, 2, 2, 3, 3, 3])  # noqa: E731
        gtree = _gen_tree(plan["tree"], rnd.choice([0, 1, 2, 2, 3])) if plan["eof"] else plan["tree"]
        counts = {id(t): (refimpl.size_align(t, cfg)[0], draw) for t in count_tys}
        g = GenP(buf, cfg, counts)
        try:
            _, end = g.value(gtree, 0, {})
        except (refimpl.Short, refimpl.Bad):
            continue
        if end > len(buf):
            continue
        data = bytes(g.data[:end])
        p = GenP(data, cfg)
        try:
            v, end2 = p.value(plan["tree"], 0, {})
        except (refimpl.Short, refimpl.Bad):
            continue
        if end2 != len(data):
            continue
        if _has_nan(v, plan["tree"]):
            continue
        return data, v, p.spans, bytes(p.mask[:end2])
    return None


def _has_nan(c, t):
    k = t[0]
    if k == "sc":
        kind, size, _, _ = refimpl.sc(t[1])
        if kind == "flt":
            e, m = {2: (5, 10), 4: (8, 23), 8: (11, 52)}[size]
            return ((c[1] >> m) & ((1 << e) - 1)) == (1 << e) - 1  # NaN and infinity: neither has a literal
        return False
    if k == "arr":
        return c[0] == "list" and any(_has_nan(x, t[1]) for x in c[1:])
    if k == "struct":
        return any(_has_nan(x, f["ty"]) for f, x in zip(t[1], c[1:]))
    return False


# ------------------------------------------------------------------------------------------------ paths

def get_c(c, path):
    for st in path:
        c = c[1 + st[1]]
    return c


def get_t(t, path):
    for st in path:
        t = t[1][st[1]]["ty"] if st[0] == "f" else t[1]
    return t


def vexpr(path, root="x"):
    return root + "".join(f".{st[2]}" if st[0] == "f" else f"[{st[1]}]" for st in path)


def texpr(path, root="TOP"):
    return root + "".join(f".fields[{st[2]!r}].type" if st[0] == "f" else ".type" for st in path)


def is_charlike(t):
    return t[0] == "sc" and refimpl.sc(t[1])[0] in ("char", "wchar")


def sites(t, c, path=()):
    """every fixed-size array node of non-character elements in the value: (path, type node, number of elements)"""
    k = t[0]
    if k == "arr":
        if is_charlike(t[1]):
            return
        if t[2][0] == "fixed":
            yield path, t, len(c) - 1
        for i, x in enumerate(c[1:]):
            yield from sites(t[1], x, path + (("i", i),))
    elif k == "struct":
        for i, (f, x) in enumerate(zip(t[1], c[1:])):
            if not f["bits"]:
                yield from sites(f["ty"], x, path + (("f", i, f["name"]),))


def zero_canon(t):
    k = t[0]
    if k == "sc":
        kind = refimpl.sc(t[1])[0]
        return {"int": [A("int"), 0], "leb": [A("int"), 0], "flt": [A("flt"), 0], "char": [A("bytes"), b"\x00"], "wchar": [A("wstr"), 0]}[kind]
    if k == "enum":
        return [A("enum"), 0]
    if k == "ptr":
        return [A("ptr"), 0]
    if k == "arr":
        n = t[2][1] if t[2][0] == "fixed" else 0
        if is_charlike(t[1]):
            return [A("bytes"), bytes(n)] if refimpl.sc(t[1][1])[0] == "char" else [A("wstr"), *([0] * n)]
        return [A("list"), *[zero_canon(t[1]) for _ in range(n)]]
    return [A("rec"), *[zero_canon(f["ty"]) for f in t[1]]]


# ------------------------------------------------------------------------------------------------ Python source of a value

def py_src(c, t, tx, opt, top=False):
    """the Python expression that constructs the value `c` (canonical form) of type `t`; `tx`: expression of the real type"""
    k = t[0]
    if k == "arr" and c[0] in ("list", "flatlist"):
        et, etx = (t[1], tx + ".type")
        if c[0] == "flatlist":  # the elements of the rows, one level up
            et, etx = (t[1][1], tx + ".type.type")
        items = [py_src(x, et, etx, opt) for x in c[1:]]
        if opt.get("seq") == "tuple":
            return "(" + ", ".join(items) + ("," if len(items) == 1 else "") + ")"
        return "[" + ", ".join(items) + "]"
    if c[0] == "bytes":
        return repr(bytes(c[1]))
    if c[0] == "wstr":
        return repr(b"".join(u.to_bytes(2, "little") for u in c[1:]).decode("utf-16-le"))
    if k == "sc":
        kind, size, _, _ = refimpl.sc(t[1])
        if kind == "flt":
            return repr(_struct.unpack(">" + {2: "e", 4: "f", 8: "d"}[size], int(c[1]).to_bytes(size, "big"))[0])
        return repr(int(c[1]))
    if k == "enum":
        return f"cs.{t[1]}({int(c[1])})" if opt.get("enum") == "member" else repr(int(c[1]))
    if k == "ptr":
        return repr(int(c[1]))
    if k == "struct":
        parts = [(f["name"], py_src(x, f["ty"], tx + f".fields[{f['name']!r}].type", opt)) for f, x in zip(t[1], c[1:])]
        if top and opt.get("build") == "positional":
            return f"{tx}({', '.join(s for _, s in parts)})"
        return f"{tx}({', '.join(f'{n}={s}' for n, s in parts)})"
    raise ValueError(k)


def build_lines(c, t, opt):
    """statements that leave the value in `x`"""
    if t[0] == "struct" and opt.get("build") == "attr":
        out = ["x = TOP()"]
        for f, v in zip(t[1], c[1:]):
            out.append(f"x.{f['name']} = " + py_src(v, f["ty"], f"TOP.fields[{f['name']!r}].type", opt))
        return out
    return ["x = " + py_src(c, t, "TOP", opt, top=True)]


def parse_line(data: bytes, how: str):
    h = data.hex()
    return {"call": f"x = TOP(bytes.fromhex({h!r}))", "reads": f"x = TOP.reads(bytearray.fromhex({h!r}))",
            "read": f"x = TOP.read(io.BytesIO(bytes.fromhex({h!r})))", "view": f"x = TOP(memoryview(bytes.fromhex({h!r})))"}[how]


# ------------------------------------------------------------------------------------------------ ill-formed shapes

RESIZE = {  # op: (applicable to n elements, on the canonical children, statement on the Python list P)
    "drop_last": (lambda n: n >= 1, lambda xs, z: xs[:-1], "del {P}[-1]"),
    "drop_first": (lambda n: n >= 2, lambda xs, z: xs[1:], "del {P}[0]"),
    "dup_last": (lambda n: n >= 1, lambda xs, z: xs + [copy.deepcopy(xs[-1])], "{P}.append({P}[-1])"),
    "dup_first": (lambda n: n >= 1, lambda xs, z: [copy.deepcopy(xs[0])] + xs, "{P}.insert(0, {P}[0])"),
    "empty": (lambda n: n >= 1, lambda xs, z: [], "del {P}[:]"),
    "double": (lambda n: n >= 1, lambda xs, z: xs + copy.deepcopy(xs), "{P}.extend(list({P}))"),
    "one": (lambda n: n >= 2, lambda xs, z: xs[:1], "del {P}[1:]"),
    "grow_zero": (lambda n: True, lambda xs, z: xs + [copy.deepcopy(z)], "{P}.append({Z})"),
}


def _prefix(a, b):
    return len(a) <= len(b) and tuple(b[:len(a)]) == tuple(a)


def draw_mutation(rnd, tree, canon, all_sites):
    """-> spec: {"kind", "sites": [paths of the nodes whose number of elements is wrong], "why": text, ...} or None"""
    if not all_sites:
        return None
    deep = [s for s in all_sites if sum(1 for st in s[0] if st[0] == "i") >= 1]  # not the outermost dimension of a field

    def pick():
        return rnd.choice(deep) if (deep and rnd.random() < 0.75) else rnd.choice(all_sites)

    def resize(site):
        path, t, n = site
        op = rnd.choice([o for o, (ok, _, _) in RESIZE.items() if ok(n)])
        new = len(RESIZE[op][1]([0] * n, 0))
        return {"kind": "resize", "path": path, "op": op, "sites": [path], "why": f"{vexpr(path)} has {new} instead of the declared {n} elements ({op})"}

    r = rnd.random()
    if r < 0.25:
        # elements shifted from one row to a sibling row: the total number of elements stays the declared one
        parents = sorted({s[0][:-1] for s in all_sites if s[0] and s[0][-1][0] == "i" and s[2] >= 1}, key=repr)
        cands = [(p, get_t(tree, p)) for p in parents if len(get_c(canon, p)) - 1 >= 2]
        if cands:
            path, t = rnd.choice(cands)
            cnt = len(get_c(canon, path)) - 1
            i, j = rnd.sample(range(cnt), 2)
            k = rnd.randint(1, t[1][2][1])
            pi, pj = path + (("i", i),), path + (("i", j),)
            return {"kind": "shift", "path": path, "i": i, "j": j, "k": k, "sites": [pi, pj],
                    "why": f"{k} element(s) moved from {vexpr(pi)} to {vexpr(pj)} (declared {t[1][2][1]} each; the total number of elements is unchanged)"}
    if r < 0.37:
        cands = [(p, t, n) for p, t, n in all_sites if t[1][0] == "arr" and t[1][2][0] == "fixed" and not is_charlike(t[1][1]) and n >= 1 and t[1][2][1] >= 1]
        tr = [s for s in cands if s[2] != s[1][1][2][1]]
        fl = [s for s in cands if s[1][1][2][1] >= 2]
        if tr and (r < 0.31 or not fl):
            path, t, n = rnd.choice(tr)
            return {"kind": "transpose", "path": path, "r": n, "c": t[1][2][1], "sites": [path],
                    "why": f"{vexpr(path)} transposed: {t[1][2][1]} rows of {n} instead of the declared {n} rows of {t[1][2][1]}"}
        if fl:
            path, t, n = rnd.choice(fl)
            return {"kind": "flat", "path": path, "sites": [path],
                    "why": f"{vexpr(path)} flattened: the {n * t[1][2][1]} elements of its rows instead of the declared {n} rows of {t[1][2][1]}"}
    if r < 0.45 and len(all_sites) >= 2:
        a = pick()
        others = [s for s in all_sites if not _prefix(a[0], s[0]) and not _prefix(s[0], a[0])]
        if others:
            m1, m2 = resize(a), resize(rnd.choice(others))
            return {"kind": "multi", "parts": [m1, m2], "sites": m1["sites"] + m2["sites"], "why": m1["why"] + " and " + m2["why"]}
    return resize(pick())


def apply_canon(c, spec, tree):
    """the ill-formed value in canonical form (a modified deep copy)"""
    c = copy.deepcopy(c) if spec["kind"] != "multi" else c
    kind = spec["kind"]
    if kind == "multi":
        for part in spec["parts"]:
            c = apply_canon(c, part, tree)
        return c
    node = get_c(c, spec["path"])
    if kind == "resize":
        z = zero_canon(get_t(tree, spec["path"])[1])
        node[1:] = RESIZE[spec["op"]][1](node[1:], z)
    elif kind == "shift":
        a, b = node[1 + spec["i"]], node[1 + spec["j"]]
        k = spec["k"]
        b.extend(a[len(a) - k:])
        del a[len(a) - k:]
    elif kind == "transpose":
        flat = [e for row in node[1:] for e in row[1:]]
        r, cc = spec["r"], spec["c"]
        node[1:] = [[A("list"), *flat[i * r:(i + 1) * r]] for i in range(cc)]
    elif kind == "flat":
        flat = [e for row in node[1:] for e in row[1:]]
        node[0] = A("flatlist")
        node[1:] = flat
    return c


def mutation_lines(spec, tree, opt):
    """the same change as statements on the Python value `x` (in place, with list methods)"""
    kind = spec["kind"]
    if kind == "multi":
        return [ln for part in spec["parts"] for ln in mutation_lines(part, tree, opt)]
    P = vexpr(spec["path"])
    if kind == "resize":
        z = ""
        if spec["op"] == "grow_zero":
            et = get_t(tree, spec["path"])[1]
            z = py_src(zero_canon(et), et, texpr(spec["path"]) + ".type", opt)
        return [RESIZE[spec["op"]][2].format(P=P, Z=z)]
    if kind == "shift":
        i, j, k = spec["i"], spec["j"], spec["k"]
        return [f"{P}[{j}].extend({P}[{i}][-{k}:]); del {P}[{i}][-{k}:]"]
    if kind == "transpose":
        return [f"_f = [e for row in {P} for e in row]; {P}[:] = [_f[i * {spec['r']}:(i + 1) * {spec['r']}] for i in range({spec['c']})]"]
    return [f"{P}[:] = [e for row in {P} for e in row]"]


def model_canon(c):
    """the canonical value for the model driver (the harness' own marker removed)"""
    if isinstance(c, list):
        out = [model_canon(x) for x in c]
        if out and out[0] == "flatlist":
            out[0] = A("list")
        return out
    return c


def shape_of_canon(c):
    if isinstance(c, list) and c and c[0] in ("list", "flatlist", "rec"):
        return [shape_of_canon(x) for x in c[1:]]
    return None


def shape_of_py(v):
    if isinstance(v, (list, tuple)):
        return [shape_of_py(x) for x in v]
    fs = getattr(type(v), "__fields__", None)
    if fs is not None and hasattr(v, "dumps") and not isinstance(v, (bytes, str, int, float)):
        return [shape_of_py(getattr(v, f._name)) for f in fs]
    return None


# ------------------------------------------------------------------------------------------------ call forms

FORMS = ["type.dumps", "value.dumps", "type.write", "value.write", "type.write(file)", "value.write(file)"]


def call_src(form, tx, vx):
    return {"type.dumps": f"{tx}.dumps({vx})", "value.dumps": f"{vx}.dumps()", "type.write": f"{tx}.write(s, {vx})", "value.write": f"{vx}.write(s)",
            "type.write(file)": f"{tx}.write(s, {vx})", "value.write(file)": f"{vx}.write(s)"}[form]


def stream_src(form):
    if form.endswith("(file)"):
        return "s = tempfile.TemporaryFile()"
    return "s = io.BytesIO()" if "write" in form else None


def call(ns, form, tx, vx):
    """-> ('ok', bytes written) | ('err', class, message) | ('n/a',) when the value has no such method (plain lists)"""
    if form.startswith("value."):
        try:
            v = eval(vx, ns)  # noqa: S307 - expressions generated by vexpr
        except Exception as e:  # noqa: BLE001
            return ("err", impl.err_class(e), f"{vx}: {e}"[:160])
        if not hasattr(v, "dumps" if form == "value.dumps" else "write"):
            return ("n/a",)
    s = None
    try:
        if "write" in form:
            s = tempfile.TemporaryFile() if form.endswith("(file)") else io.BytesIO()
            ns["s"] = s
            eval(call_src(form, tx, vx), ns)  # noqa: S307
            s.seek(0)
            out = s.read()
        else:
            out = eval(call_src(form, tx, vx), ns)  # noqa: S307
    except Exception as e:  # noqa: BLE001
        return ("err", impl.err_class(e), str(e)[:160])
    finally:
        if s is not None:
            s.close()
        ns.pop("s", None)
    if not isinstance(out, (bytes, bytearray)):
        return ("err", "NotBytes", f"returned {type(out).__name__}")
    return ("ok", bytes(out))


# ------------------------------------------------------------------------------------------------ the probe

def _exec(ns, lines):
    try:
        exec("\n".join(lines), ns)  # noqa: S102 - statements generated above
        return None
    except Exception as e:  # noqa: BLE001
        return f"{type(e).__name__}: {e}"[:200]


def run(env, eng, res, rnd):
    tier = env["tier"]
    nplans = 170 if tier == "quick" else 1600
    for _ in range(nplans):
        plan = shape_plan(rnd)
        label = f"{plan['spelling']}/{plan['container']}"
        base_cd = {"endian": plan["endian"], "align": plan["align"], "compiled": plan["compiled"], "spelling": plan["spelling"],
                   "container": plan["container"], "element": plan["en"], "dimensions": "".join("[" + (str(d[1]) if len(d) > 1 else {"null": "", "eof": "EOF"}[d[0]]) + "]" for d in plan["dims"])}
        try:
            V = View(plan)
        except Exception as e:  # noqa: BLE001
            res.feat("shape-rejected:" + label)
            eng.report(f"multi-dimensional array definition ({label}) rejected: {type(e).__name__}: {e}"[:300],
                       dict(base_cd, repro="\n".join([HEADER, *setup_lines(plan)])), [])
            continue
        cfg = refimpl.Cfg(plan["endian"], plan["align"], "uint64", impl.CONSTS)
        sigs = eng.sigs(V)
        res.feat("shape:" + label)
        res.feat("shape-elem:" + plan["en"])
        res.feat("shape-dims:" + "/".join(plan["forms"]))
        res.feat(f"shape-config:{plan['endian']},{'aligned' if plan['align'] else 'packed'},{'compiled' if plan['compiled'] else 'interpreted'}")
        for _i in range(1 if tier == "quick" else 2):
            drawn = draw_input(rnd, plan, cfg)
            if drawn is None:
                res.feat("shape-no-input-drawn")
                continue
            data, canon, spans, mask = drawn
            one(env, eng, res, rnd, V, plan, cfg, sigs, base_cd, data, canon, spans, mask)
        if len(eng.lines) > 3000:
            eng.flush()
    eng.flush()


def one(env, eng, res, rnd, V, plan, cfg, sigs, base_cd, data, canon, spans, mask):
    tier = env["tier"]
    tree, ns = plan["tree"], V.ns
    expected = bytes(d & m for d, m in zip(data, mask))
    opt = {"enum": rnd.choice(["member", "int"]), "build": rnd.choice(["kw", "kw", "attr", "positional"]), "seq": "list"}
    cd0 = dict(base_cd, definition=V.text, data=data.hex(), value=sx(canon))

    def cdx(extra_lines, **kw):
        return dict(cd0, repro=V.script(extra_lines), **kw)

    # ---- the well-formed value, constructed from the reference value (not read by the library)
    good_lines = build_lines(canon, tree, opt)
    err = _exec(ns, good_lines)
    res.count(("shape-good", V.text, data, opt["enum"], opt["build"]), True)
    res.feat("shape-build:" + opt["build"])
    if err:
        eng.report(f"a well-formed value of a multi-dimensional array cannot be constructed: {err}", cdx(good_lines), sigs)
        return
    all_sites = list(sites(tree, canon))
    # every enclosing value of some site (and the top-level value) dumps to its bytes of the input
    prefixes = {()}
    for path, _t, _n in (all_sites if tier != "quick" else rnd.sample(all_sites, min(3, len(all_sites)))):
        for k in range(1, len(path) + 1):
            prefixes.add(tuple(path[:k]))
    root = None
    for pre in sorted(prefixes, key=repr):
        sub_t = get_t(tree, pre)
        if pre and cfg.align and refimpl.size_align(sub_t, cfg)[0] is None:
            continue  # no static size in an aligned structure: its padding depends on the absolute position (see the docstring)
        a, b = spans[id(get_c(canon, pre))]
        want = expected[a:b]
        forms = FORMS if (not pre or tier != "quick") else rnd.sample(FORMS, 2)
        for form in forms:
            got = call(ns, form, texpr(pre), vexpr(pre))
            if got[0] == "n/a":
                continue
            res.feat("shape-good-call:" + form)
            if not pre and form == "type.dumps":
                root = got
            if got[0] != "ok":
                eng.report(f"{form} of a well-formed value ({vexpr(pre)} of a {plan['container']} container) raises {got[1]}: {got[2]}",
                           cdx(good_lines + [stream_src(form) or "pass", call_src(form, texpr(pre), vexpr(pre))], call=form, at=vexpr(pre)), sigs)
            elif got[1] != want:
                eng.report(f"{form} of a well-formed value gives {got[1].hex()} for {vexpr(pre)}, the C-order bytes are {want.hex()}",
                           cdx(good_lines + [stream_src(form) or "pass", call_src(form, texpr(pre), vexpr(pre))], call=form, at=vexpr(pre)), sigs)
    if root is not None:
        eng.model_write(V, canon, root[:2], "multi-dimensional array dumps", sigs)
    # the library reads the bytes back to the same value (C order, element boundaries), through one of the parse entry points
    how = rnd.choice(["call", "reads", "read", "view"])
    pl = parse_line(data, how)
    err = _exec(ns, [pl])
    res.feat("shape-parse:" + how)
    parsed_ok = False
    if err:
        eng.report(f"parsing the input of a multi-dimensional array raises {err}; the array semantics give {sx(canon)[:200]}", cdx([pl]), sigs)
    else:
        try:
            back = impl.canon(ns["x"])
        except Exception as e:  # noqa: BLE001
            back = [A("unreadable"), f"{type(e).__name__}: {e}"[:100]]
        if not impl.same_val(back, canon):
            eng.report(f"parsed {sx(back)[:220]}; the array semantics (C order, element boundaries) give {sx(canon)[:220]}", cdx([pl]), sigs)
        else:
            parsed_ok = True
    # ---- ill-formed values
    if not all_sites:
        res.feat("shape-no-fixed-node")  # (an outer dimension of zero rows: nothing below it exists in this value)
        return
    for _k in range(5 if tier == "quick" else 12):
        spec = draw_mutation(rnd, tree, canon, all_sites)
        bad = apply_canon(canon, spec, tree)
        modes = ["fresh"] * 3 + ["fresh-tuple", "built-inplace"] + (["parsed-inplace"] * 3 + ["parsed-assign"] * 2 if parsed_ok else [])
        mode = rnd.choice(modes)
        o2 = dict(opt, seq="tuple" if mode == "fresh-tuple" else "list", build=rnd.choice(["kw", "attr", "positional"]))
        if mode in ("fresh", "fresh-tuple"):
            lines = build_lines(bad, tree, o2)
        elif mode == "built-inplace":
            lines = build_lines(canon, tree, o2) + mutation_lines(spec, tree, o2)
        elif mode == "parsed-inplace":
            lines = [pl] + mutation_lines(spec, tree, o2)
        else:
            # the nearest array that is a structure member, re-assigned as a whole (none: the array type is the top-level type)
            first = spec["sites"][0]
            cut = max((k for k in range(1, len(first) + 1) if first[k - 1][0] == "f" and get_t(tree, first[:k])[0] == "arr"), default=None)
            if cut is None or spec["kind"] == "multi" or not all(_prefix(first[:cut], s) for s in spec["sites"]):
                mode = "parsed-inplace"
                lines = [pl] + mutation_lines(spec, tree, o2)
            else:
                fp = tuple(first[:cut])
                lines = [pl, f"{vexpr(fp)} = " + py_src(get_c(bad, fp), get_t(tree, fp), texpr(fp), o2)]
        res.feat("shape-bad:" + spec["kind"] + (":" + spec["op"] if spec["kind"] == "resize" else ""))
        res.feat("shape-bad-value:" + mode)
        depth = min(sum(1 for st in s if st[0] == "i") for s in spec["sites"])
        res.feat(f"shape-bad-depth:{min(depth, 3)}")
        res.count(("shape-bad", V.text, data, repr(spec["why"]), mode, o2["enum"], o2["build"]), True)
        err = _exec(ns, lines)
        if err:
            # (list operations and constructors: nothing here may fail; a library that refuses already the construction
            # of an ill-formed value is refusing it, which is what the property asks for - counted, not reported)
            res.feat("shape-bad-construction-raises")
            continue
        if shape_of_py(ns["x"]) != shape_of_canon(bad):
            raise AssertionError(f"harness: the ill-formed value built by {lines!r} has not the intended shape {shape_of_canon(bad)!r}")
        # every enclosing value of every ill-formed node, through the call forms
        enclosing = {()}
        for s in spec["sites"]:
            for k in range(1, len(s) + 1):
                enclosing.add(tuple(s[:k]))
        enclosing = sorted(enclosing, key=lambda p: (len(p), repr(p)))
        if tier == "quick" and len(enclosing) > 3:
            enclosing = [enclosing[0]] + rnd.sample(enclosing[1:], 2)
        root = None
        for pre in enclosing:
            forms = FORMS if (tier != "quick") else (rnd.sample(FORMS[:4], 3) + [rnd.choice(FORMS[4:])] if not pre else rnd.sample(FORMS, 2))
            if not pre and "type.dumps" not in forms:
                forms = ["type.dumps"] + forms
            for form in forms:
                got = call(ns, form, texpr(pre), vexpr(pre))
                if got[0] == "n/a":
                    continue
                res.feat("shape-bad-call:" + form)
                if not pre and form == "type.dumps":
                    root = got
                if got[0] == "ok":
                    eng.report(f"{form} of {vexpr(pre)} accepted an ill-formed value: {spec['why']} - dumped {got[1].hex()[:120]} instead of being refused (ArraySizeError)",
                               cdx(lines + [stream_src(form) or "pass", call_src(form, texpr(pre), vexpr(pre)) + "  # has to raise ArraySizeError"],
                                   call=form, at=vexpr(pre), ill_formed=spec["why"], value=sx(model_canon(bad))), sigs)
                elif got[1] != "ArraySizeError":
                    eng.report(f"{form} of {vexpr(pre)} answers an array of the wrong length ({spec['why']}) with {got[1]}: {got[2]} - the value is otherwise well-formed, ArraySizeError is due",
                               cdx(lines + [stream_src(form) or "pass", call_src(form, texpr(pre), vexpr(pre)) + "  # has to raise ArraySizeError"],
                                   call=form, at=vexpr(pre), ill_formed=spec["why"], value=sx(model_canon(bad))), sigs)
        if root is not None and spec["kind"] != "flat":
            # (a flattened node holds scalars where the model's value syntax wants rows: not a value of the model's type)
            eng.model_write(V, model_canon(bad), root[:2], "ill-formed multi-dimensional array dumps", sigs)
