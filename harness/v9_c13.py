"""C13 unknown / cyclic aliases in every position (round 8; this module: tables, the script interpreter = oracle, the probe loop; the generators
are in harness/v9_c13gen.py): "a reference to an unknown or cyclic alias is reported as a resolve error
rather than looping or binding to something else" - walked over every place of the public surface where a type name can stand.

A NAME THAT DOES NOT RESOLVE (kinds, every choice from the module's seeded PRNG):
  * unknown      - never defined (identifiers near the built-in table: `uint33`, `Uint8`, `dword`, ...; two-word spellings
                   `unsigned nosuch_t` where an identifier list is read);
  * later        - defined further down in the same text or by a later load() (typedef / struct / enum / typedef struct);
  * dangling     - an alias (chain of 1..4 names) of a type that does not exist, built with cs.add_type(name, "target"), by writing
                   cs.typedefs, or by the legacy parser's `typedef missing name;` (which registers the text of the target);
  * cycle        - an alias cycle of 1..4 names built with cs.add_type, entered directly or through a lead-in chain of 0..2 names;
  * overlong     - an alias chain of more lookups than resolve() follows (10; the existing alias laws and the Lean model's `resolve`
                   pin that limit) ending in a real type.
POSITIONS and forms:
  * field type: plain / pointer / [2] / [] / [2][3] / [K] / bit-field / `struct NAME f;` / member of an inline nested struct or union,
    in a struct, a union, `typedef struct {...} A, B;`, `typedef struct T {...} A;`, as first, middle or last member;
  * typedef target: `typedef NAME A;`, `typedef NAME *A;`, `typedef NAME A[3];`;
  * enum / flag base type: named, anonymous, one- and two-word spellings;
  * sizeof(NAME) inside a #define value, inside an enum / flag member value (also next to earlier members: `B = A + sizeof(NAME)`)
    and inside an array dimension (`T a[sizeof(NAME)]`, `a[2][sizeof(NAME)]`, `typedef T A[sizeof(NAME)]`), the sizeof alone and
    inside 16 expression shapes (blanks inside / before the parentheses, operators on either side, next to sizeof of a good type
    and to a constant);
  * Expression(cs, text).evaluate() / .evaluate(context); cs.resolve(NAME); cs.NAME (aliases); cs.read(NAME, data);
    cs.add_type(<existing name>, NAME) (a re-declaration is compared through resolve).
ENTRY POINTS: cs.load(text), load(text, DEF_CSTYLE), load(text, deftype=DEF_CSTYLE), cs.loadfile(<real file>), TokenParser(cs, ...).parse(text),
the legacy parser load(text, DEF_LEGACY) for the forms its grammar has; one text / the prelude in a load() of its own / one load() per
definition; good definitions before and after the offending one; API aliases added before anything is loaded or after the prelude; load options compiled= / align=; cstruct(endian= '<' '>' '!' '@' '=',
pointer=); compact text and layout mutants (plain, rich comment family of s5_c13, comment-only separators of v1_c13).
For the array dimension (resolved when data is read) the FIRST USE is walked: T(bytes) / T(bytearray) / T(memoryview) / T(BytesIO) /
T.read(bytes) / T.read(<real file>) / cs.read(name, stream), the type alone, as member of an outer struct, as member of a union, as
element of an array typedef.

ORACLE (the property as stated, on observable behaviour; the unmodified library's behaviour per position was determined first):
  * where the unmodified library resolves at load time (field type, typedef target, enum base, sizeof in #define and in enum values):
    the load raises ResolveError - not another exception, not acceptance; afterwards no constant holds a text (a #define whose sizeof
    does not resolve must never survive as the string 'sizeof(NAME)'), and the names the offending definition would have introduced
    are not registered;
  * array dimensions are resolved on first use: the load is accepted (a ResolveError there would be fine too), every read raises
    ResolveError and produces no value - through every read entry point;
  * API positions: ResolveError, nothing returned;
  * every call runs under a 5 s alarm: looping on a cycle is reported, not waited for;
  * REPAIR: once the missing name is defined (the `later` definition is loaded; the missing target of a dangling chain is added; one
    link of a cycle is replaced with add_type(..., replace=True)) the same offending text is accepted and binds to THAT type: the
    control oracle below with the repaired type;
  * CONTROL: every scenario is repeated with a name that does resolve (built-in type, built-in synonym, typedef chain of the prelude,
    struct / enum of the prelude, add_type chain of 1..9 names - up to exactly 10 lookups): accepted, and the field / alias / base type
    IS the resolved type object, the constant / enum member / Expression value is the harness's own arithmetic on the size of the type
    (own size table; packed / aligned struct layout computed here), the array has exactly that many elements and the member behind
    it comes from the right offset;
  * whether a chain of aliases resolves is decided by the harness's own walk of the alias table (at most 10 lookups); every table also
    goes to the Lean model (`resolvein`), so the model and the library are compared on dangling / cyclic / boundary-length chains.
Domain notes (exclusions, with reasons):
  * sizeof() takes ONE word: `sizeof(unsigned int)` is "Invalid sizeof operation" for good and bad names alike (in a #define the text
    is kept, as for any value that is no expression) - only one-word names go inside sizeof;
  * the legacy parser (DEF_LEGACY) never evaluates #define values (`#define A (1 + 2)` is the text '(1 + 2)' there) and registers
    `typedef missing name;` as a text alias without looking at it: #define is not a legacy position here; the typedef is used as a
    BUILDER of dangling aliases (the error then has to come on first use); legacy enum values do not see earlier members;
  * a top-level `struct TAG { ... }` / `union TAG { ... }` registers TAG (empty) before its members are read, so after the
    ResolveError TAG stays bound to an empty structure and loading the definition again says "Duplicate type": for tagged top-level
    containers the "not registered" check leaves TAG out and the repair step reloads nothing (reported separately; the anonymous
    and typedef'd containers are checked in full);
  * cs.NAME for a name that is in no table is an AttributeError by the attribute protocol: getattr is only walked for names that are
    in cs.typedefs (dangling / cyclic / overlong aliases);
  * writing (dumps) and default construction never look at an array dimension: only reads count as first use;
  * sizeof of a dynamically sized type is a TypeError whatever the name: controls use fixed-size types;
  * a newline inside one enum member is F20 (c13.join keeps them out).
"""
from __future__ import annotations

import contextlib
import io
import os
import signal
import tempfile
import threading

# ------------------------------------------------------------------------------------------------ tables of the harness

# the harness's own size table (bytes) of one-word built-in names; INTS may be enum base types / bit-field types
INTS = {"uint8": 1, "int8": 1, "uint16": 2, "int16": 2, "uint32": 4, "int32": 4, "uint64": 8, "int64": 8, "BYTE": 1, "WORD": 2, "DWORD": 4,
        "QWORD": 8, "ULONG": 4, "LONG": 4, "USHORT": 2, "INT64": 8, "uint16_t": 2, "int32_t": 4, "u4": 4, "__u16": 2, "short": 2, "int": 4,
        "long": 4, "uint": 4, "uchar": 1, "_DWORD": 4, "__int64": 8, "UINT8": 1}
INTS_MULTI = {"unsigned int": 4, "unsigned short": 2, "long long": 8, "unsigned long long": 8, "signed char": 1, "unsigned __int16": 2}
OTHERS = {"char": 1, "wchar": 2, "float": 4, "double": 8, "float16": 2, "int24": 3, "uint24": 3, "int48": 6, "uint48": 6, "int128": 16, "uint128": 16,
          "WCHAR": 2, "CHAR": 1, "OWORD": 16, "wchar_t": 2}
STRUCT_FIELDS = {"uint8": 1, "uint16": 2, "uint32": 4, "uint64": 8, "int16": 2, "int32": 4, "DWORD": 4}
BAD_POOL = ["nosuch_t", "missing_t", "uint33", "Uint8", "dword", "hdr_t", "size_type", "undefined_type", "T_later", "_priv", "x", "uint8t", "u3",
            "Dword", "int_t", "record", "NODE", "entry_t", "uint", "u8", "DWORD"]      # (names of the built-in table are filtered out at run time)
ENDIANS = ["<", "<", ">", ">", "!", "@", "="]
POINTERS = [None, None, None, "uint32", "uint16", "uint64"]
OPTS = [{}, {}, {"compiled": True}, {"compiled": False}, {"compiled": False}, {"align": True}, {"align": True, "compiled": False},
        {"align": False, "compiled": True}]
ENTRIES = ["load", "load", "load", "load-deftype", "load-deftype-kw", "loadfile", "parser", "legacy"]
PRESENTATIONS = ["one-text", "one-text", "prelude-apart", "per-definition"]
LAYOUTS = ["compact", "compact", "layout", "layout-rich", "comment-only"]
READS = ["call-bytes", "call-bytearray", "call-memoryview", "call-bytesio", "read-bytes", "read-bytesio", "read-file", "cs.read-bytesio", "cs.read-bytes"]

# expression shapes around one sizeof: (text with {X}, the harness's own arithmetic on the size s and the constant k, needs the constant)
EXPRS = [("sizeof({X})", lambda s, k: s, False), ("sizeof( {X} )", lambda s, k: s, False), ("sizeof ({X})", lambda s, k: s, False),
         ("(sizeof({X}))", lambda s, k: s, False), ("sizeof({X}) + 1", lambda s, k: s + 1, False), ("1 + sizeof({X})", lambda s, k: 1 + s, False),
         ("2 * sizeof({X})", lambda s, k: 2 * s, False), ("sizeof({X}) * 2 + 1", lambda s, k: s * 2 + 1, False),
         ("sizeof({X}) | 1", lambda s, k: s | 1, False), ("sizeof({X}) << 1", lambda s, k: s << 1, False),
         ("(sizeof({X}) + 3) / 2", lambda s, k: (s + 3) // 2, False), ("sizeof({X}) + sizeof(uint16)", lambda s, k: s + 2, False),
         ("sizeof(uint32) * sizeof({X})", lambda s, k: 4 * s, False), ("K0 + sizeof({X})", lambda s, k: k + s, True),
         ("sizeof({X}) % 5 + 1", lambda s, k: s % 5 + 1, False), ("sizeof({X})+K0*2", lambda s, k: s + k * 2, True)]
LIMIT = 10      # lookups resolve() follows (pinned by the alias laws of props/c13.py and by the Lean model's `resolve`)


def walk(table: dict, name, limit: int = LIMIT):
    """the harness's own resolution of a name in an alias table {name: text | type object}: the type object, or None when the name is
    unknown, dangling, cyclic or needs more than `limit` lookups"""
    for _ in range(limit):
        if not isinstance(name, str):
            return name
        if name not in table:
            return None
        name = table[name]
    return name if not isinstance(name, str) else None


def struct_size(fields, align: bool) -> int:
    """size of a structure of power-of-two scalars: packed, or with natural alignment and tail padding"""
    off, mx = 0, 1
    for _n, t in fields:
        s = STRUCT_FIELDS[t]
        if align:
            off += -off % s
            mx = max(mx, s)
        off += s
    return off + (-off % mx if align else 0)


# ------------------------------------------------------------------------------------------------ evaluation of one recorded case

@contextlib.contextmanager
def deadline(seconds: float = 5.0):
    """a call into the library that does not come back is a violation ("rather than looping"), not a hang of the check"""
    usable = hasattr(signal, "setitimer") and threading.current_thread() is threading.main_thread()
    if not usable:
        yield
        return

    def onalarm(_sig, _frm):
        raise TimeoutError(f"no answer within {seconds} s")
    old = signal.signal(signal.SIGALRM, onalarm)
    signal.setitimer(signal.ITIMER_REAL, seconds)
    try:
        yield
    finally:
        signal.setitimer(signal.ITIMER_REAL, 0)
        signal.signal(signal.SIGALRM, old)


def _attempt(f):
    """-> ("ok", value) | ("resolve", message) | ("raises", "Type: message")"""
    from dissect.cstruct.exceptions import ResolveError     # (the library under test is already imported from VERIF_REPO by impl.dc())
    try:
        with deadline():
            return "ok", f()
    except ResolveError as e:
        return "resolve", str(e)
    except TimeoutError as e:
        return "raises", f"the call loops ({e})"
    except Exception as e:  # noqa: BLE001
        return "raises", f"{type(e).__name__}: {e}"


def _load(dc, cs, text, entry, opts):
    if entry == "load":
        cs.load(text, **opts)
    elif entry == "load-deftype":
        cs.load(text, dc.cstruct.DEF_CSTYLE, **opts)
    elif entry == "load-deftype-kw":
        cs.load(text, deftype=dc.cstruct.DEF_CSTYLE, **opts)
    elif entry == "parser":
        dc.parser.TokenParser(cs, **opts).parse(text)
    elif entry == "legacy":
        cs.load(text, dc.cstruct.DEF_LEGACY, **{k: v for k, v in opts.items() if k == "compiled"})
    elif entry == "loadfile":
        fd, path = tempfile.mkstemp(prefix="c13-", suffix=".h")
        try:
            with os.fdopen(fd, "w", newline="") as fh:
                fh.write(text)
            cs.loadfile(path, **opts)
        finally:
            os.unlink(path)
    else:
        raise ValueError(entry)


def _read(cs, T, name, how, data: bytes):
    if how == "call-bytes":
        return T(data)
    if how == "call-bytearray":
        return T(bytearray(data))
    if how == "call-memoryview":
        return T(memoryview(data))
    if how == "call-bytesio":
        return T(io.BytesIO(data))
    if how == "read-bytes":
        return T.read(data)
    if how == "read-bytesio":
        return T.read(io.BytesIO(data))
    if how == "cs.read-bytesio":
        return cs.read(name, io.BytesIO(data))
    if how == "cs.read-bytes":
        return cs.read(name, data)
    if how == "read-file":
        with tempfile.TemporaryFile() as fh:
            fh.write(data)
            fh.seek(0)
            return T.read(fh)
    raise ValueError(how)


def _plain(v):
    """a parsed value as plain Python data: ints, bytes (char arrays) as hex, str, lists, structures as dicts of their fields"""
    if isinstance(v, (bytes, bytearray)):
        return bytes(v).hex()
    if isinstance(v, str):
        return v
    if isinstance(v, int):
        return int(v)
    if isinstance(v, (list, tuple)):
        return [_plain(x) for x in v]
    fields = getattr(type(getattr(v, "__target__", v)), "__fields__", None)
    if fields is not None:
        return {f._name: _plain(getattr(v, f._name)) for f in fields}
    return repr(v)


def _hop(T, hop):
    """one step from a type to a type it is made of: a field name, "*" (pointer target), "[]" (array element), "base" (of an enum / flag)"""
    if hop in ("*", "[]", "base"):
        return T.type
    return T.fields[hop].type


def run_steps(dc, case) -> list[str]:
    """interpret the recorded script of one case on the current tree -> problems (empty: the property holds on this case)"""
    kw = {"endian": case["endian"]}
    if case.get("pointer"):
        kw["pointer"] = case["pointer"]
    st, cs = _attempt(lambda: dc.cstruct(**kw))
    if st != "ok":
        return [f"cstruct({kw}) is refused ({cs})"]
    out = []
    for step in case["steps"]:
        op = step[0]
        if op == "api":
            # alias construction through the public API: must be accepted (nothing is resolved when a NEW name is added)
            how, a, b = step[1:4]
            f = {"add_type": lambda: cs.add_type(a, b), "add_type-replace": lambda: cs.add_type(a, b, replace=True),
                 "typedefs": lambda: cs.typedefs.__setitem__(a, b), "legacy-typedef": lambda: cs.load(f"typedef {b} {a};", dc.cstruct.DEF_LEGACY)}[how]
            st, v = _attempt(f)
            if st != "ok":
                out.append(f"building the alias {a} -> {b} with {how} is refused ({v})")
                return out
        elif op == "load":
            text, entry, opts, expect = step[1:5]
            st, v = _attempt(lambda: _load(dc, cs, text, entry, opts))
            if expect == "ok" and st != "ok":
                out.append(f"{entry}({text!r}, {opts}): every name in it resolves, yet it is refused ({v})")
                return out
            if expect == "resolve" and st != "resolve":
                if st == "ok":
                    texts = {k: c for k, c in cs.consts.items() if isinstance(c, str)}
                    out.append(f"{entry}({text!r}, {opts}): {case['bad_name']!r} ({case['kind']}) does not resolve, and the {case['position']} is "
                               f"resolved at load time: a ResolveError is due, the text is accepted silently" +
                               (f"; constants now holding text: {texts!r}" if texts else ""))
                else:
                    out.append(f"{entry}({text!r}, {opts}): {case['bad_name']!r} ({case['kind']}) does not resolve: a ResolveError is due, got {v}")
                return out
            if expect == "ok|resolve":
                if st == "raises":
                    out.append(f"{entry}({text!r}, {opts}): accepted or ResolveError expected, got {v}")
                    return out
                if st == "resolve":
                    return out          # (reported at load time already: nothing was accepted, nothing left to use)
        elif op == "clean":
            consts, types = step[1:3]
            texts = {k: c for k, c in cs.consts.items() if isinstance(c, str)}
            if texts:
                out.append(f"after the refused load constants hold text: {texts!r}")
            left = [n for n in consts if n in cs.consts] + [n for n in types if n in cs.typedefs]
            if left:
                out.append(f"after the refused load the names {left} of the offending definition are registered")
            if out:
                return out
        elif op == "use":
            name, how, data, expect = step[1:5]
            st, T = _attempt(lambda: cs.resolve(name))
            if st != "ok":
                out.append(f"the accepted type {name} does not resolve ({T})")
                return out
            st, v = _attempt(lambda: _plain(_read(cs, T, name, how, bytes.fromhex(data))))
            if expect == "resolve":
                if st != "resolve":
                    out.append(f"{name} via {how}: the array dimension names {case['bad_name']!r} ({case['kind']}), which does not resolve: a "
                               f"ResolveError is due on first use, got " + (f"the value {v!r}" if st == "ok" else v))
                    return out
            elif st != "ok" or v != expect[1]:
                out.append(f"{name} via {how} on {data}: expected {expect[1]!r} (array of sizeof({case['name']}) elements by the harness's own size "
                           f"table), got " + (repr(v) if st == "ok" else v))
                return out
        elif op == "expr":
            text, ctx, expect = step[1:4]
            st, v = _attempt(lambda: dc.Expression(cs, text).evaluate(dict(ctx)) if ctx is not None else dc.Expression(cs, text).evaluate())
            if expect == "resolve":
                if st != "resolve":
                    out.append(f"Expression(cs, {text!r}).evaluate({'' if ctx is None else ctx}): {case['bad_name']!r} ({case['kind']}) does not resolve: "
                               "ResolveError is due, got " + (f"the value {v!r}" if st == "ok" else v))
                    return out
            elif st != "ok" or v != expect[1] or isinstance(v, bool):
                out.append(f"Expression(cs, {text!r}).evaluate({'' if ctx is None else ctx}): expected {expect[1]}, got " + (repr(v) if st == "ok" else v))
                return out
        elif op == "call":
            how, a, b, expect = step[1:5]
            f = {"resolve": lambda: cs.resolve(a), "getattr": lambda: getattr(cs, a), "cs.read": lambda: cs.read(a, bytes.fromhex(b)),
                 "add_type": lambda: cs.add_type(a, b)}[how]
            st, v = _attempt(f)
            if expect == "auto":
                # cs.NAME looks the TARGET of the alias up (one lookup less than cs.resolve(NAME)): the harness's own walk from there decides
                table = dict(cs.typedefs)
                want = walk(table, table.get(a))
                expect = "resolve" if want is None else ["is-object", want]
            if expect == "resolve":
                if st != "resolve":
                    out.append(f"{how}({a!r}{'' if b is None else ', ' + repr(b)}): {case['bad_name']!r} ({case['kind']}) does not resolve: ResolveError is due, got " +
                               (f"the value {v!r}" if st == "ok" else v))
                    return out
            elif expect[0] in ("is", "is-object"):
                want = expect[1] if expect[0] == "is-object" else walk(dict(cs.typedefs), expect[1])
                if st != "ok" or v is not want or want is None:
                    out.append(f"{how}({a!r}): expected the very type object at the end of the alias chain ({want!r}), got " + (repr(v) if st == "ok" else v))
                    return out
            elif st != "ok":
                out.append(f"{how}({a!r}, {b!r}): every name resolves, yet it is refused ({v})")
                return out
        elif op == "const":
            name, want = step[1:3]
            got = cs.consts.get(name, "<not defined>")
            if isinstance(got, (str, bool)) or not isinstance(got, int) or int(got) != want:
                out.append(f"constant {name}: the harness's own arithmetic on sizeof({case['name']}) gives {want}, the object holds {got!r}")
                return out
        elif op == "members":
            ename, want = step[1:3]
            st, v = _attempt(lambda: {k: int(m.value) for k, m in cs.resolve(ename).__members__.items()})
            if st != "ok" or v != want:
                out.append(f"enum {ename}: the harness's own arithmetic on sizeof({case['name']}) gives {want}, the type has " + (repr(v) if st == "ok" else v))
                return out
        elif op == "binds":
            # the type reached from `start` over `hops` IS the type the name resolves to (by the harness's own walk of the alias table)
            start, hops, target, extra = step[1:5]

            def reach():
                T = type(cs.consts[start[1]]) if start[0] == "const" else cs.resolve(start[1])
                for h in hops:
                    T = _hop(T, h)
                return T
            st, T = _attempt(reach)
            want = walk(dict(cs.typedefs), target)
            if st != "ok" or want is None or T is not want:
                out.append(f"{start[1]}{''.join('.' + h for h in hops)}: expected the very type {target} resolves to ({want!r}), got " + (repr(T) if st == "ok" else T))
                return out
            if extra is not None:
                st, n = _attempt(lambda: _hop_parent(cs, start, hops).num_entries)
                if st != "ok" or n != extra:
                    out.append(f"{start[1]}{''.join('.' + h for h in hops[:-1])}: expected {extra} entries, got {n!r}")
                    return out
        else:
            raise ValueError(op)
    return out


def _hop_parent(cs, start, hops):
    T = cs.resolve(start[1])
    for h in hops[:-1]:
        T = _hop(T, h)
    return T


def repro(case) -> str:
    """a script a human can run"""
    kw = f"endian={case['endian']!r}" + (f", pointer={case['pointer']!r}" if case.get("pointer") else "")
    lines = ["import io", "from dissect.cstruct import cstruct, Expression", "from dissect.cstruct.parser import TokenParser", f"cs = cstruct({kw})"]
    for s in case["steps"]:
        if s[0] == "api":
            lines.append({"add_type": f"cs.add_type({s[2]!r}, {s[3]!r})", "add_type-replace": f"cs.add_type({s[2]!r}, {s[3]!r}, replace=True)",
                          "typedefs": f"cs.typedefs[{s[2]!r}] = {s[3]!r}", "legacy-typedef": f"cs.load('typedef {s[3]} {s[2]};', cstruct.DEF_LEGACY)"}[s[1]])
        elif s[0] == "load":
            o = "".join(f", {k}={v}" for k, v in sorted(s[3].items()))
            call = {"parser": f"TokenParser(cs{o}).parse({s[1]!r})", "legacy": f"cs.load({s[1]!r}, cstruct.DEF_LEGACY{o.replace(', align=True', '').replace(', align=False', '')})",
                    "loadfile": f"open('/tmp/x.h', 'w', newline='').write({s[1]!r}); cs.loadfile('/tmp/x.h'{o})",
                    "load-deftype": f"cs.load({s[1]!r}, cstruct.DEF_CSTYLE{o})", "load-deftype-kw": f"cs.load({s[1]!r}, deftype=cstruct.DEF_CSTYLE{o})"}.get(
                        s[2], f"cs.load({s[1]!r}{o})")
            lines.append(call + "    # expected: " + {"ok": "accepted", "resolve": "ResolveError", "ok|resolve": "accepted (or ResolveError)"}[s[4]])
        elif s[0] == "use":
            lines.append(f"# read {s[1]} via {s[2]} from bytes.fromhex({s[3]!r}): expected " + ("ResolveError" if s[4] == "resolve" else repr(s[4][1])))
        elif s[0] == "expr":
            lines.append(f"Expression(cs, {s[1]!r}).evaluate({'' if s[2] is None else s[2]})    # expected: " + ("ResolveError" if s[3] == "resolve" else str(s[3][1])))
        elif s[0] == "call":
            lines.append(f"# {s[1]}({s[2]!r}{'' if s[3] is None else ', ' + repr(s[3])}): expected " + ("ResolveError" if s[4] == "resolve" else "accepted"))
        elif s[0] == "const":
            lines.append(f"print(cs.consts)    # expected: {s[1]} == {s[2]}")
        elif s[0] == "clean":
            lines.append("print(cs.consts)    # expected: no text constant, nothing of the offending definition")
    return "\n".join(lines)



# ------------------------------------------------------------------------------------------------ the probe loop

def model_requests(dc, case):
    """the alias table a case builds through the API, on a real instance: [(instance, name, "ok" | "ResolveError" - what the REAL resolve
    says)] for the Lean model's `resolve` (correspondence on dangling / cyclic / boundary-length chains)"""
    t = case.get("alias_table") or {}
    if not t.get("apis"):
        return []
    from dissect.cstruct.exceptions import ResolveError
    cs = dc.cstruct()
    try:
        cs.load(t["prelude"])
        for s in t["apis"]:
            {"add_type": lambda: cs.add_type(s[2], s[3]), "add_type-replace": lambda: cs.add_type(s[2], s[3], replace=True),
             "typedefs": lambda: cs.typedefs.__setitem__(s[2], s[3]), "legacy-typedef": lambda: cs.load(f"typedef {s[3]} {s[2]};", dc.cstruct.DEF_LEGACY)}[s[1]]()
    except Exception:  # noqa: BLE001 - the script interpreter reports what goes wrong on this path
        return []
    out = []
    for name in sorted({s[2] for s in t["apis"]})[:3]:
        try:
            with deadline():
                cs.resolve(name)
            out.append((cs, name, "ok"))
        except ResolveError:
            out.append((cs, name, "ResolveError"))
        except Exception:  # noqa: BLE001
            pass
    return out


def unresolved_probes(res, viol, dc, rnd, n, tier, probe_resolve=None):
    """the family described in the module docstring: n scenarios, each as the case with a name that does not resolve and as its control.
    `viol(what, data)` reports a violation; `probe_resolve(cs, name, want)` (optional) sends an alias table to the model correspondence
    of the props module"""
    from . import v9_c13gen as gen
    from .props import c13 as m     # (at call time the props module is complete; it imports this module at its top)

    builtin = dict(dc.cstruct().typedefs)
    sent = 0
    for idx in range(n):
        cases = gen.gen_api_case(rnd, m, builtin) if idx % 5 == 4 else gen.gen_scenario(rnd, m, builtin, tier)
        for case in cases:
            case["repro"] = repro(case)
            res.count(("unresolved", case["role"], case["endian"], case["pointer"], repr(case["steps"])), True)
            kind = case["kind"].split(":lookups=")[0].split(":chain=")[0].split(":length=")[0]
            if case["role"] == "control":
                res.feat("unresolved-control:position:" + case["position"])
                res.feat("unresolved-control:name:" + kind[len("control:"):])
            else:
                res.feat("unresolved:position:" + case["position"])
                res.feat("unresolved:kind:" + kind)
                res.feat("unresolved:" + case["position"] + "/" + kind.split(":")[0])
                res.feat("unresolved:form:" + case["position"] + ":" + case["form"])
                res.feat("unresolved:entry:" + case["entry"])
                res.feat("unresolved:presentation:" + case["presentation"])
                res.feat("unresolved:layout:" + case["layout"])
                res.feat("unresolved:options:" + (",".join(f"{k}={v}" for k, v in sorted(case["options"].items())) or "default"))
                res.feat("unresolved:endian:" + case["endian"] + (":pointer=" + case["pointer"] if case["pointer"] else ""))
                if case["expr"]:
                    res.feat("unresolved:expression:" + case["expr"])
                for s in case["steps"]:
                    if s[0] == "use" and s[4] == "resolve":
                        res.feat("unresolved:first-use:" + s[2])
                        res.feat("unresolved:first-use-of:" + ("the type alone" if s[1] != "W" else "a type that contains it"))
                if case["steps"][-1][0] in ("binds", "const", "members") or (case["steps"][-1][0] == "use" and case["steps"][-1][4] != "resolve"):
                    res.feat("unresolved:repaired-then-bound")
            if "lookups=" in case["kind"]:
                res.feat("unresolved:alias-chain:" + ("resolves" if case["role"] == "control" else "too-long") + ":" + case["kind"].split(":")[-1])
            try:
                problems = run_steps(dc, case)
            except Exception as e:  # noqa: BLE001 - the interpreter itself tripped over a library that changed shape
                problems = [f"evaluating the case raises {type(e).__name__}: {e}"]
            if problems:
                what = ("a name that does not resolve is not reported as a ResolveError: " if case["role"] == "unresolved" else
                        "a definition whose names all resolve is not bound to the resolved type: ")
                viol(what + problems[0], dict(case, problems=problems))
            if probe_resolve is not None and sent < (150 if tier == "quick" else 2000):
                for cs, name, want in model_requests(dc, case):
                    probe_resolve(cs, name, want)
                    res.feat("unresolved:model-resolve:" + want)
                    sent += 1
