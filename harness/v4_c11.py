"""C11, round 4: unions nested in unions, assignments two and three levels deep.

`union Inner { struct { T1 x; T2 y; } s; uint8 rawi[K]; }` inside `union Outer { Inner i; uint8 raw[N]; Q q; }` (optionally one more
level: `union Top { Outer o; uint8 rawt[N]; }`), packed, both byte orders, interpreted and compiled; the byte arrays are the largest
members, so the dump is the whole buffer (outside F9F10).  Known finding F56: when the inner byte array is longer than the inner
structure, an assignment through `i.s.x` is lost (the inner union is written through its stale largest member); classified, the
equal-length shape is checked strictly.  The object is parsed from random bytes or default-constructed; a random
history assigns `top.o.i.s.x`, `...s.y`, `...i.rawi`, `...q`, `...raw` (through whatever proxies the library hands out).  Reference:
a byte buffer kept here (an assignment overwrites the member's bytes at its offset).  After every step the dump, every byte-array
view at every level and every scalar must show exactly the reference bytes.  Real code only (the Lean union model has no union-typed
members)."""
from __future__ import annotations

from .common import Case

INTS = {"uint8": (1, False), "int8": (1, True), "uint16": (2, False), "int16": (2, True), "uint32": (4, False), "int32": (4, True),
        "uint64": (8, False), "uint24": (3, False)}


def run(env, res, viol, rnd, dc):
    n = 60 if env["tier"] == "quick" else 1500
    for it in range(n):
        t1, t2, q = (rnd.choice(list(INTS)) for _ in range(3))
        s1, s2, sq = INTS[t1][0], INTS[t2][0], INTS[q][0]
        K = s1 + s2 + rnd.choice([0, 0, 0, 1, 3])
        N = max(K, sq) + rnd.choice([0, 0, 0, 2])
        three = rnd.random() < 0.4
        endian = rnd.choice("<>")
        compiled = rnd.random() < 0.5
        # member order is random: a union is dumped through its FIRST largest member
        inner_m = [("s", s1 + s2, f"struct {{ {t1} x; {t2} y; }} s;"), ("rawi", K, f"uint8 rawi[{K}];")]
        outer_m = [("i", K, "Inner i;"), ("raw", N, f"uint8 raw[{N}];"), ("q", sq, f"{q} q;")]
        top_m = [("o", N, "Outer o;"), ("rawt", N, f"uint8 rawt[{N}];")]
        for m in (inner_m, outer_m, top_m):
            rnd.shuffle(m)
        dumped = lambda ms: max(ms, key=lambda e: e[1])[0]  # noqa: E731   (max returns the first of equal keys)
        text = (f"union Inner {{ {' '.join(e[2] for e in inner_m)} }};\nunion Outer {{ {' '.join(e[2] for e in outer_m)} }};\n"
                + (f"union Top {{ {' '.join(e[2] for e in top_m)} }};\n" if three else ""))
        # known finding F56: an assignment that goes THROUGH a union nested in a union is lost when a union below the top one, on the
        # path, is dumped through a member that is not on the path (it is re-serialised from a member that was never rebuilt)
        off_path = {"x": (dumped(inner_m) != "s") or (three and dumped(outer_m) != "i"),
                    "y": (dumped(inner_m) != "s") or (three and dumped(outer_m) != "i"),
                    "rawi": three and dumped(outer_m) != "i", "q": False, "raw": False}
        case = {"definition": text, "endian": endian, "compiled": compiled, "history": []}
        res.feat("nested-union:" + ("3-levels" if three else "2-levels") + (":strict-deep-paths" if not off_path["x"] else ""))
        try:
            cs = dc.cstruct(endian=endian)
            cs.load(text, compiled=compiled)
            Top = cs.Top if three else cs.Outer
            if rnd.random() < 0.7:
                buf = bytearray(rnd.randrange(256) for _ in range(N))
                obj = Top(bytes(buf))
                case["data"] = bytes(buf).hex()
            else:
                buf = bytearray(N)
                obj = Top()
                case["data"] = None
        except Exception as e:  # noqa: BLE001
            viol(f"nested unions: definition / construction raises {type(e).__name__}: {e}", case)
            continue
        order = "little" if endian == "<" else "big"
        outer = (lambda o=obj: o.o) if three else (lambda o=obj: o)
        for step in range(rnd.randint(2, 7)):
            which = rnd.choice(["x", "x", "y", "y", "rawi", "q", "raw"])
            try:
                if which in ("x", "y"):
                    ty, off = (t1, 0) if which == "x" else (t2, s1)
                    sz, sg = INTS[ty]
                    v = rnd.randrange(-(1 << (8 * sz - 1)), 1 << (8 * sz - 1)) if sg else rnd.randrange(1 << (8 * sz))
                    setattr(outer().i.s, which, v)
                    buf[off:off + sz] = v.to_bytes(sz, order, signed=sg)
                    case["history"].append(f"{'o.' if three else ''}i.s.{which} = {v}")
                elif which == "rawi":
                    v = [rnd.randrange(256) for _ in range(K)]
                    outer().i.rawi = v
                    buf[:K] = bytes(v)
                    case["history"].append(f"i.rawi = {v}")
                elif which == "q":
                    sz, sg = INTS[q]
                    v = rnd.randrange(-(1 << (8 * sz - 1)), 1 << (8 * sz - 1)) if sg else rnd.randrange(1 << (8 * sz))
                    outer().q = v
                    buf[:sz] = v.to_bytes(sz, order, signed=sg)
                    case["history"].append(f"q = {v}")
                else:
                    v = [rnd.randrange(256) for _ in range(N)]
                    outer().raw = v
                    buf[:N] = bytes(v)
                    case["history"].append(f"raw = {v}")
            except Exception as e:  # noqa: BLE001
                viol(f"nested unions: assignment {case['history'][-1] if case['history'] else which} raises {type(e).__name__}: {e}", dict(case))
                break
            res.count(("nested-union", text, endian, compiled, case["data"], tuple(case["history"])), True)
            exp = bytes(buf)
            try:
                got = {"dumps": bytes(obj.dumps()), "raw": bytes(outer().raw), "rawi": bytes(outer().i.rawi),
                       "x": int(outer().i.s.x), "y": int(outer().i.s.y), "q": int(outer().q)}
                if three:
                    got["rawt"] = bytes(obj.rawt)
            except Exception as e:  # noqa: BLE001
                viol(f"nested unions: reading the members after {case['history'][-1]} raises {type(e).__name__}: {e}", dict(case))
                break
            want = {"dumps": exp, "raw": exp, "rawi": exp[:K], "x": int.from_bytes(exp[:s1], order, signed=INTS[t1][1]),
                    "y": int.from_bytes(exp[s1:s1 + s2], order, signed=INTS[t2][1]), "q": int.from_bytes(exp[:sq], order, signed=INTS[q][1])}
            if three:
                want["rawt"] = exp
            bad = [k for k in want if got[k] != want[k]]
            if bad:
                k = bad[0]
                # known finding F56: an assignment through the structure inside the INNER union is lost when the inner union is dumped
                # through another member (its largest one: rawi longer than the structure) - only that shape, only that step
                sig = ("F56",) if off_path[which] else ()
                viol(f"nested unions: after {case['history'][-1]} the view {k} shows {got[k].hex() if isinstance(got[k], bytes) else got[k]}, "
                     f"the union's bytes {exp.hex()} make it {want[k].hex() if isinstance(want[k], bytes) else want[k]}", dict(case), sig)
                break
