"""C04 family (round 9, v10_c04): EXPLICIT MEMBER OFFSETS ON THE WRITE SIDE.

A C declaration never leaves a hole between two members of a packed structure, so the families that load definitions from
text reach the "pad up to the member's offset" code of the structure WRITER only through aligned structures.  The public
API places members at explicit offsets: `T.add_field(name, type, offset=N)`, `Field(name, type, offset=N)` handed to
`cs._make_struct(...)` or appended to `T.__fields__` and committed.  The declared size of such a structure (len(T),
sizeof(T)) includes the holes, and so must what parsing consumes and what dumping produces.

A case is a history on ONE cstruct instance (impl.Session, a failing case is a script), endianness x pointer width x
{packed, aligned} x {compiled, interpreted}:

    F   a generated fixed-size member list (defs.Gen: scalars of every table type and alias, enums, pointers, fixed arrays
        - also empty ones -, void, nested / anonymous structures and unions with their own bit-fields) loaded from text: the
        donor of the real member type objects;
    T   the same members (top-level bit widths dropped: bit-field placement is another family's subject) placed at EXPLICIT
        offsets that leave FORWARD gaps of 1..31 bytes in front of some members (also in front of the first; sometimes an
        explicit offset equal to the natural one; in aligned mode mostly multiples of the member's alignment, sometimes not:
        then the member starts at the next multiple), built through a random route:
            make_struct              cs._make_struct("T", [Field(.., offset=)...], align=) + cs.add_type
            make_struct+add_field    the first k >= 0 members by _make_struct, the rest by T.add_field(.., offset=), singly or
                                     in `with T.start_update():` batches
            fields+commit            the rest appended to T.__fields__ as Field objects, then T.commit()
            text+add_field           `struct T { first k members };` through cs.load (compiled or interpreted), the rest by
                                     add_field (a compiled T is recompiled on every commit)
    V   (often) a second API-built structure whose members are scalars and T / T[k], again at explicit offsets with gaps:
        a structure with holes nested in a structure with holes, and as array element;
    W   (often) plain C text on the same instance that embeds T (or V): `struct W { p; T t; T u[n]; q; };`, same mode.

Oracle, evaluated on T, V, W and on the array types T[k], V[k] (independent computation: member sizes and alignments from
refimpl, positions by the rule "an explicit offset is where the member starts; otherwise behind its predecessor; in aligned
mode rounded up to the member's alignment; the size ends behind the last member, in aligned mode rounded up to the largest
member alignment"):

    layout   T.size, member offsets (aligned mode: T.alignment) = the rule,
    sizes    len(T) = sizeof(T) in an expression = bytes consumed by parsing through a random public entry point (class
             call / .read / .reads / cs.read on bytes, bytearray, memoryview, BytesIO, a real file; an exact-length buffer
             must be enough) = len(v.dumps()) = len(T.dumps(v)) = len(bytes(v)) = len(v) = bytes appended by
             v.write(stream) / T.write(stream, v) to a BytesIO at position 0, at a later position (aligned mode: a multiple of
             the alignment) and to a real file; all those dumps are the same bytes,
    image    the dump is the zero-filled image of the declared size with every member's own encoding (type.dumps(value),
             recursively for T inside V / W and for array elements) at the member's offset: the gap bytes are zeros and the
             members land at their offsets,
    read     every member of the parsed value equals what the member type parses on its own from the input bytes at the
             member's offset,
    back     parse(dumps(v)) = v (canonical values, NaN-aware), consuming the declared size,
    built    T() dumps to len(T) bytes; T(**members of v).dumps() = v.dumps().

Everything asked of the library here must succeed: an exception is a reported violation, not a harness crash.

Excluded, precisely (documented, not silenced):
  * backward / overlapping explicit offsets (known finding F59: compiled and interpreted readers disagree) - only forward
    gaps are generated; explicit offsets on bit-field members (bit-field placement is covered separately);
  * mixed modes (a packed T inside an aligned W or the reverse: F43 / the mixed-mode families): W and V have T's mode;
  * aligned definitions with bit-fields on int24/48 units (F23), unions whose dump member does not cover all data bytes
    (F9F10), unions of anonymous aggregates with nested anonymous members (F44): the generator draws another member list;
  * the default-constructed instance T() when a nested structure has a bit-field on `char` (known finding F53 of C01 / C17:
    such an instance cannot be dumped at all); parsed and keyword-built values of those structures are judged;
  * the RETURN VALUE of write(): on the unmodified library Structure.write returns the sum of the member sizes without any
    padding (5 for an aligned `struct { uint8 a; uint32 b; }` that writes 8 bytes), so "bytes produced" is measured by the
    stream position / the stream's content, never by the return value (reported to the maintainer of this check);
  * the Lean model has no explicit offsets: this family has no correspondence part.
"""
from __future__ import annotations

import io
import tempfile

from . import defs, impl, refimpl, v9_c04
from .structprops import base_of, has, has_union, rand_bytes, small_unit_bits, union_anon_nested, union_dump_incomplete

SCAL = defs.INT_SCALARS + defs.FLOATS + ["char", "wchar"] + defs.ALIASES
SAFE = bytes([0, 1, 0x41, 0x7F, 2, 0x33, 0x41])  # well-formed for every element type (no UTF-16 surrogates), mostly non-zero
GAPS = [1, 1, 1, 2, 3, 4, 4, 5, 7, 8, 9, 13, 16, 31]
ROUTES = ["make_struct", "make_struct+add_field", "make_struct+add_field", "fields+commit", "text+add_field", "text+add_field"]


def roundup(o, a):
    return (o + a - 1) // a * a if a > 1 else o


class Member:
    """one member of a structure under test.  kind: 'leaf' (a type judged by its own dumps / parse), 'x' (an XStruct),
    'xarr' (count elements of an XStruct)"""

    def __init__(self, name, ty, size, al, text, expr, kind="leaf", sub=None, count=None):
        self.name, self.ty, self.size, self.al, self.text, self.expr = name, ty, size, al, text, expr
        self.kind, self.sub, self.count = kind, sub, count
        self.explicit = None


class XStruct:
    """the expected layout of a structure built from members with explicit offsets (the rule of the module docstring)"""

    def __init__(self, name, members, align):
        self.name, self.members, self.align = name, members, align
        self.cls = None
        self.route = None
        self.place()

    def place(self):
        off, maxal, self.offsets, self.gaps = 0, 0, [], []
        for m in self.members:
            end = off
            if m.explicit is not None:
                off = m.explicit
            if self.align:
                off = roundup(off, m.al)
            self.offsets.append(off)
            self.gaps.append(off - end)
            off += m.size
            maxal = max(maxal, m.al)
        self.end = off
        self.alignment = maxal
        self.size = roundup(off, maxal) if self.align else off

    def where(self, i):
        """what the rule puts at byte i of the image"""
        for m, o, g in zip(self.members, self.offsets, self.gaps):
            if o - g <= i < o:
                return f"the gap of {g} in front of member {m.name!r} (offset {o})"
            if o <= i < o + m.size:
                if m.kind == "x":
                    return f"member {m.name!r} (offset {o}, size {m.size}): " + m.sub.where(i - o)
                if m.kind == "xarr":
                    return f"member {m.name!r} (offset {o}) element {(i - o) // m.sub.size}: " + m.sub.where((i - o) % m.sub.size)
                return f"member {m.name!r} (offset {o}, size {m.size})"
        return "the tail padding"

    def describe(self):
        return [f"{m.text}  @ {o}" + ("" if m.explicit is None else f"  (offset={m.explicit})") for m, o in zip(self.members, self.offsets)] + \
               [f"size {self.size}"]


class Mismatch(Exception):
    pass


def image(X, v):
    """the bytes the property prescribes for value v of X: zeros, and each member's own encoding at the member's offset"""
    out = bytearray(X.size)
    for m, off, f in zip(X.members, X.offsets, X.cls.__fields__):
        val = getattr(v, f._name)
        if m.kind == "leaf":
            # (the class's own member type: a member that came from text has a type of its own, equal in shape to the donor's,
            # but with other names for its anonymous members)
            b = f.type.dumps(val)
        elif m.kind == "x":
            b = image(m.sub, val)
        else:
            if len(val) != m.count:
                raise Mismatch(f"member {f._name!r} has {len(val)} elements, declared {m.count}")
            b = b"".join(image(m.sub, e) for e in val)
        if len(b) != m.size:
            raise Mismatch(f"member {f._name!r}: the encoding of its value has {len(b)} bytes, its declared size is {m.size}")
        out[off:off + m.size] = b
    return bytes(out)


# ------------------------------------------------------------------------------------------------ generation

def char_bits(tree):
    """a (nested) bit-field whose storage type is char: its default value is a bytes object the bit writer cannot encode
    (known finding F53, listed under C01 / C17): T() of such a structure cannot be dumped, with or without explicit offsets"""
    return has(tree, lambda t, d, u: t[0] == "struct" and any(f["bits"] and base_of(f) == "char" for f in t[1]))


def gen_members(rnd, cfg, align):
    """-> (fields, tree) a fixed-size member list outside the known findings' territory"""
    for _ in range(50):
        g = defs.Gen(rnd, allow_dynamic=False, allow_eof=False, max_depth=rnd.choice([0, 1, 1, 2]), max_fields=rnd.choice([2, 3, 4, 6]))
        fields = [dict(f, bits=None) for f in g.fields(g.max_depth, dyn=False, top=True)]
        while len(fields) < 2 or rnd.random() < 0.25:
            t = ("sc", rnd.choice(SCAL))
            if rnd.random() < 0.25:
                t = ("arr", t, ("fixed", rnd.randint(1, 4)))
            fields.insert(rnd.randint(0, len(fields)), {"name": g.name(), "ty": t, "bits": None})
        tree = ("struct", fields)
        try:
            if refimpl.size_align(tree, cfg)[0] is None:
                continue
            if (align and small_unit_bits(tree)) or union_dump_incomplete(tree, cfg) or union_anon_nested(tree):
                continue
        except refimpl.Bad:  # a straddling bit-field in a nested structure
            continue
        return fields, tree
    f = [{"name": "a", "ty": ("sc", "uint8"), "bits": None}, {"name": "b", "ty": ("sc", "uint32"), "bits": None}]
    return f, ("struct", f)


def set_offsets(rnd, members, align, first):
    """explicit offsets with forward gaps for members[first:]; at least one gap > 0.  A member of size 0 (void, an empty
    array) gets an explicit offset like any other; the gap it opens belongs to it."""
    for _ in range(40):
        off, gaps = 0, 0
        for i, m in enumerate(members):
            m.explicit = None
            r = rnd.random()
            if i >= first and r < 0.45:
                o = off + rnd.choice(GAPS)
                if align and rnd.random() < 0.8:
                    o = roundup(o, m.al)
                m.explicit = o
            elif i >= first and r < 0.55:
                m.explicit = roundup(off, m.al) if (align and rnd.random() < 0.7) else off
            pos = off if m.explicit is None else m.explicit
            if align:
                pos = roundup(pos, m.al)
            if m.explicit is not None and pos > off:
                gaps += 1
            off = pos + m.size
        if gaps:
            return True
    return False


# ------------------------------------------------------------------------------------------------ building through the API

def build(ctx, X, route, k, batch):
    """make the real class of X on the session's instance; every call is noted in the script.  -> None or error text"""
    sess, cs, align = ctx["sess"], ctx["sess"].cs, X.align
    impl.dc()
    from dissect.cstruct.types.structure import Field

    def fexpr(m):
        return f"Field({m.name!r}, {m.expr}, offset={m.explicit!r})"

    X.route = route
    ms = X.members
    try:
        if route.startswith("text"):
            text = f"struct {X.name} {{ " + " ".join(m.text for m in ms[:k]) + " };"
            sess.load_text(text, compiled=ctx["compiled"], align=align)
            cls = getattr(cs, X.name)
        else:
            sess.note(f"{X.name} = cs._make_struct({X.name!r}, [{', '.join(fexpr(m) for m in ms[:k])}], align={align}); cs.add_type({X.name!r}, {X.name})")
            cls = cs._make_struct(X.name, [Field(m.name, m.ty, offset=m.explicit) for m in ms[:k]], align=align)
            cs.add_type(X.name, cls)
        rest = ms[k:]
        if route == "fields+commit":
            if rest:
                sess.note(f"cs.{X.name}.__fields__.extend([{', '.join(fexpr(m) for m in rest)}]); cs.{X.name}.commit()")
                cls.__fields__.extend(Field(m.name, m.ty, offset=m.explicit) for m in rest)
                cls.commit()
        else:
            i = 0
            while i < len(rest):
                n = min(len(rest) - i, batch()) if batch else 0
                if n:
                    sess.note(f"with cs.{X.name}.start_update():")
                    with cls.start_update():
                        for m in rest[i:i + n]:
                            sess.note(f"    cs.{X.name}.add_field({m.name!r}, {m.expr}, offset={m.explicit!r})")
                            cls.add_field(m.name, m.ty, offset=m.explicit)
                    i += n
                else:
                    m = rest[i]
                    sess.note(f"cs.{X.name}.add_field({m.name!r}, {m.expr}, offset={m.explicit!r})")
                    cls.add_field(m.name, m.ty, offset=m.explicit)
                    i += 1
    except Exception as e:  # noqa: BLE001
        return f"{type(e).__name__}: {e}"[:200]
    X.cls = cls
    return None


# ------------------------------------------------------------------------------------------------ the oracle

def viol(ctx, X, what, **extra):
    sess = ctx["sess"]
    data = {"endian": ctx["endian"], "align": X.align, "compiled": ctx["compiled"], "pointer": ctx["ptr"], "structure": X.name,
            "route": X.route, "expected_layout": X.describe(), "history": list(sess.steps), "repro": sess.script()}
    for a, b in extra.items():
        data[a] = b.hex() if isinstance(b, (bytes, bytearray)) else b
    ctx["eng"].report(f"explicit offsets: {X.name} ({'aligned' if X.align else 'packed'}, built by {X.route}): {what}", data, [])


def inputs(rnd, n):
    yield rand_bytes(rnd, n)
    yield bytes(rnd.choice(SAFE) for _ in range(n))
    yield bytes(n)


def dump_routes(ctx, X, t, v, k, want):
    """every public way to dump v -> {label: bytes | error text}"""
    rnd = ctx["rnd"]
    out = {}

    def put(label, fn):
        try:
            out[label] = fn()
        except Exception as e:  # noqa: BLE001
            out[label] = f"{type(e).__name__}: {e}"[:160]

    put("T.dumps(v)", lambda: t.dumps(v))
    if k is None:
        put("v.dumps()", lambda: v.dumps())
        put("bytes(v)", lambda: bytes(v))

    def to_stream(mk, pos, call):
        with mk() as s:
            s.write(b"\xAA" * pos)
            call(s)
            end = s.tell()
            s.seek(0)
            whole = s.read()
        if end != len(whole):
            return f"the stream position after write() is {end}, the stream has {len(whole)} bytes"
        if whole[:pos] != b"\xAA" * pos:
            return "write() changed bytes in front of the start position"
        return whole[pos:]

    unit = (X.alignment or 1) if X.align else 1
    pos = unit * rnd.randint(1, 5)
    if k is None and rnd.random() < 0.5:
        put("v.write(BytesIO)", lambda: to_stream(io.BytesIO, 0, lambda s: v.write(s)))
        put(f"T.write(BytesIO at {pos}, v)", lambda: to_stream(io.BytesIO, pos, lambda s: t.write(s, v)))
    else:
        put("T.write(BytesIO, v)", lambda: to_stream(io.BytesIO, 0, lambda s: t.write(s, v)))
        if k is None:
            put(f"v.write(BytesIO at {pos})", lambda: to_stream(io.BytesIO, pos, lambda s: v.write(s)))
        else:
            put(f"T.write(BytesIO at {pos}, v)", lambda: to_stream(io.BytesIO, pos, lambda s: t.write(s, v)))
    if rnd.random() < 0.15:
        put("T.write(file, v)", lambda: to_stream(tempfile.TemporaryFile, 0, lambda s: t.write(s, v)))
    return out


def check_type(ctx, X, k=None):
    """the property on X (k None) or on the array type X[k]"""
    res, rnd, cs, H = ctx["res"], ctx["rnd"], ctx["sess"].cs, ctx["H"]
    label = X.name if k is None else f"{X.name}[{k}]"
    want = X.size * (1 if k is None else k)
    res.count(("xoff", ctx["sess"].script(), label), True)
    res.feat(f"explicit-offset:checked:{'structure' if k is None else 'as-array-element'}:{'aligned' if X.align else 'packed'}")
    try:
        t = X.cls if k is None else X.cls[k]
        got = {f"len({label})": len(t)}
    except Exception as e:  # noqa: BLE001
        viol(ctx, X, f"{label} cannot be made or sized: {type(e).__name__}: {e}")
        return
    if k is None:
        got[f"sizeof({label})"] = H.sizeof_expr(cs, X.name)
    pool = v9_c04.STREAMS + v9_c04.BUFFERS if rnd.random() < 0.5 else v9_c04.STREAMS
    if k is not None:
        pool = [h for h in pool if not h.startswith("cs.read")]
    how = rnd.choice(pool)
    r = data = None
    for data in inputs(rnd, want + rnd.choice([0, 5, 9])):
        r = v9_c04.parse_via(cs, t, X.name, how, data, want)
        if r[0] == "ok":
            break
    if r[0] != "ok":
        got[f"parsed by {how}"] = r[1]
        viol(ctx, X, f"{label}: " + ", ".join(f"{a}={b}" for a, b in got.items()) + ": a fixed-size type must parse from its declared size", input=data, entry=how)
        return
    v = r[1]
    if r[2] is not None:
        got[f"consumed by {how}"] = r[2]
    res.feat("explicit-offset:entry:" + how)
    dumps = dump_routes(ctx, X, t, v, k, want)
    for a, b in dumps.items():
        got[f"len({a})"] = len(b) if isinstance(b, bytes) else b
    if k is None:
        try:
            got["len(v)"] = len(v)
        except Exception as e:  # noqa: BLE001
            got["len(v)"] = f"{type(e).__name__}: {e}"[:120]
    if any(x != want for x in got.values()):
        bad = {a: b for a, b in got.items() if b != want}
        viol(ctx, X, f"{label}: declared size {want}, but " + ", ".join(f"{a}={b}" for a, b in bad.items()) + f" (all of: {got}): these must agree",
             input=data, entry=how, array=k)
        return
    d0 = dumps["T.dumps(v)"]
    for a, b in dumps.items():
        if b != d0:
            viol(ctx, X, f"{label}: {a} gives {b.hex()}, T.dumps(v) gives {d0.hex()}: every way of dumping one value gives the same bytes", input=data, entry=how, array=k)
            return
    # image: members' own encodings at their offsets, zeros elsewhere
    try:
        img = image(X, v) if k is None else b"".join(image(X, e) for e in v)
    except Mismatch as e:
        viol(ctx, X, f"{label}: {e}", input=data, entry=how, array=k)
        return
    except Exception as e:  # noqa: BLE001
        viol(ctx, X, f"{label}: the members of the parsed value cannot be dumped on their own: {type(e).__name__}: {e}", input=data, entry=how, array=k)
        return
    if d0 != img:
        i = next(j for j in range(want) if d0[j] != img[j])
        viol(ctx, X, f"{label}: the dump {d0.hex()} differs at byte {i} from the image {img.hex()} of the members' encodings at their offsets over zeros; "
                     f"byte {i} is in {X.where(i % X.size)}", input=data, entry=how, array=k)
        return
    # members read from their offsets
    if k is None:
        for m, off, f in zip(X.members, X.offsets, X.cls.__fields__):
            if m.kind != "leaf" or not m.size:
                continue
            p = impl.parse(f.type, data[off:off + m.size])
            if p[0] != "ok":
                res.feat("explicit-offset:member-does-not-parse-on-its-own")
                continue
            try:
                a, b = impl.canon(getattr(v, f._name)), impl.canon(p[1])
            except Exception as e:  # noqa: BLE001
                viol(ctx, X, f"{label}: member {f._name!r} of the parsed value cannot be examined: {type(e).__name__}: {e}", input=data, entry=how)
                return
            if not impl.same_val(a, b, True) or not impl.same_val(b, a, True):
                viol(ctx, X, f"{label}: member {f._name!r} is {str(a)[:120]}, but the input bytes {data[off:off + m.size].hex()} at its offset {off} "
                             f"parse as {str(b)[:120]}", input=data, entry=how)
                return
    # back
    back = impl.parse(t, d0)
    if back[0] != "ok" or back[2] != want:
        viol(ctx, X, f"{label}: the dump {d0.hex()} does not parse back ({back[1] if back[0] != 'ok' else f'consumed {back[2]} of {want}'})", input=data, entry=how, array=k)
        return
    try:
        a, b = impl.canon(v), impl.canon(back[1])
        same = impl.same_val(a, b, True) and impl.same_val(b, a, True)
    except Exception as e:  # noqa: BLE001
        a, b, same = f"{type(e).__name__}: {e}", None, False
    if not same and ctx["union"] and impl.contains_nan(a):
        # a NaN does not keep its payload through a Python float (float16 / float): the other members of a union that overlay
        # it read other bytes after the round trip.  Not a matter of layout or size; the image predicate above has judged the dump.
        res.feat("explicit-offset:round-trip-not-compared:NaN-under-a-union")
        same = True
    if not same:
        viol(ctx, X, f"{label}: parse(dumps(v)) = {str(b)[:200]} differs from v = {str(a)[:200]}", input=data, entry=how, array=k)
        return
    # built
    if k is None:
        try:
            n0 = want if ctx["f53"] else len(X.cls().dumps())
        except Exception as e:  # noqa: BLE001
            n0 = f"{type(e).__name__}: {e}"[:160]
        if n0 != want:
            viol(ctx, X, f"{label}: len({X.name}().dumps()) = {n0}, declared size {want}")
            return
        try:
            built = X.cls(**{f._name: getattr(v, f._name) for f in X.cls.__fields__}).dumps()
        except Exception as e:  # noqa: BLE001
            built = f"{type(e).__name__}: {e}"[:160]
        if built != d0:
            viol(ctx, X, f"{label}: {X.name}(**members of v).dumps() gives {built.hex() if isinstance(built, bytes) else built}, v.dumps() gives {d0.hex()}",
                 input=data, entry=how)


def check_x(ctx, X):
    """layout against the rule, then the size / image / round-trip predicates on X and on X[k]"""
    cls = X.cls
    try:
        real = (cls.size, [f.offset for f in cls.__fields__]) + ((cls.alignment,) if X.align else ())
    except Exception as e:  # noqa: BLE001
        viol(ctx, X, f"the class cannot be examined: {type(e).__name__}: {e}")
        return False
    exp = (X.size, X.offsets) + ((X.alignment,) if X.align else ())
    if len(cls.__fields__) != len(X.members):
        viol(ctx, X, f"the class has {len(cls.__fields__)} members, {len(X.members)} were declared")
        return False
    if real != exp:
        viol(ctx, X, f"layout (size, member offsets{', alignment' if X.align else ''}) {real} differs from {exp}: an explicit offset is where the member "
                     f"starts{' (rounded up to its alignment)' if X.align else ''}, the others follow their predecessor, the size ends behind the last member")
        return False
    try:
        check_type(ctx, X)
        check_type(ctx, X, ctx["rnd"].choice([2, 2, 3]))
    except Exception as e:  # noqa: BLE001 - a mutated library may hand out objects of another shape
        viol(ctx, X, f"examining the structure raises {type(e).__name__}: {e}")
        return False
    return True


# ------------------------------------------------------------------------------------------------ one case

def scalar_member(ctx, name):
    t = ctx["rnd"].choice(SCAL)
    size, al = refimpl.size_align(("sc", t), ctx["cfg"])
    n = ctx["rnd"].choice([None, None, None, 2, 3])
    cs = ctx["sess"].cs
    ty = cs.resolve(t)
    if n is None:
        return Member(name, ty, size, al, f"{t} {name};", f"cs.resolve({t!r})")
    return Member(name, ty[n], size * n, al, f"{t} {name}[{n}];", f"cs.resolve({t!r})[{n}]")


def x_member(ctx, X, name, n=None):
    if n is None:
        return Member(name, X.cls, X.size, X.alignment, f"{X.name} {name};", f"cs.{X.name}", kind="x", sub=X)
    return Member(name, X.cls[n], X.size * n, X.alignment, f"{X.name} {name}[{n}];", f"cs.{X.name}[{n}]", kind="xarr", sub=X, count=n)


def embedding_members(ctx, X):
    rnd = ctx["rnd"]
    ms = [scalar_member(ctx, "p")]
    shape = rnd.choice(["one", "one", "array", "both", "two"])
    if shape in ("one", "both", "two"):
        ms.append(x_member(ctx, X, "t"))
    if shape == "two":
        ms.append(scalar_member(ctx, "m"))
        ms.append(x_member(ctx, X, "t2"))
    if shape in ("array", "both"):
        ms.append(x_member(ctx, X, "u", rnd.choice([1, 2, 3])))
    if rnd.random() < 0.8:
        ms.append(scalar_member(ctx, "q"))
    return ms


def run_case(H, eng, res, rnd):
    endian, align, compiled = rnd.choice("<>"), rnd.random() < 0.4, rnd.random() < 0.5
    ptr = rnd.choice(["uint64", "uint32", "uint16", "uint8"])
    cfg = refimpl.Cfg(endian, align, ptr, impl.CONSTS)
    fields, tree = gen_members(rnd, cfg, align)
    sess = impl.Session(endian=endian, pointer=ptr)
    ctx = {"H": H, "eng": eng, "res": res, "rnd": rnd, "sess": sess, "cfg": cfg, "endian": endian, "compiled": compiled, "ptr": ptr,
           "f53": char_bits(tree), "union": has_union(tree)}
    try:
        sess.load(tree, "F", compiled=compiled, align=align)  # the donor of the member types
        donors = list(sess.cs.F.__fields__)
        if len(donors) != len(fields):
            raise ValueError(f"{len(donors)} members for {len(fields)} declarations")
    except Exception as e:  # noqa: BLE001 - (the one-shot families report a valid definition that is rejected)
        res.feat("explicit-offset:skipped:donor-definition-rejected:" + type(e).__name__)
        return
    sess.note("from dissect.cstruct.types.structure import Field")
    members = []
    for i, (f, d) in enumerate(zip(fields, donors)):
        size, al = refimpl.size_align(f["ty"], cfg)
        members.append(Member(f["name"], d.type, size, al, defs.render_field(f, None), f"cs.F.__fields__[{i}].type"))

    def make(name, ms, routes):
        route = rnd.choice(routes)
        n = len(ms)
        if route == "make_struct":
            k = n
        elif route.startswith("text"):
            k = rnd.randint(1, n - 1)
        else:
            k = rnd.randint(0, n - 1)
        if not set_offsets(rnd, ms, align, k if route.startswith("text") else 0):
            res.feat("explicit-offset:skipped:no-gap-drawn")
            return None
        X = XStruct(name, ms, align)
        bt = rnd.random() < 0.5
        err = build(ctx, X, route, k, (lambda: rnd.choice([1, 2, 2, 3])) if bt else None)
        res.feat(f"explicit-offset:route:{route}" + (":batches" if bt and k < n and route != "fields+commit" else ""))
        res.feat("explicit-offset:" + ("compiled" if getattr(X.cls, "__compiled__", False) else "interpreted"))
        for m, g in zip(ms, X.gaps):
            if g and m.explicit is not None:
                res.feat("explicit-offset:gap-in-front-of:" + (m.kind if m.kind != "leaf" else ("size-0-member" if not m.size else "leaf")))
        if X.gaps[0]:
            res.feat("explicit-offset:gap-in-front-of-the-first-member")
        if err:
            res.count(("xoff-build", sess.script(), name), True)
            viol(ctx, X, f"building a structure of valid fixed-size members at forward explicit offsets raises {err}")
            return None
        return X

    T = make("T", members, ROUTES)
    if T is None or not check_x(ctx, T):
        return
    users = []
    if rnd.random() < 0.6:  # a structure with holes nested in (and array element of) a structure with holes
        V = make("V", embedding_members(ctx, T), ROUTES)
        if V is not None and check_x(ctx, V):
            users.append(V)
    for X in [T] + users:
        if rnd.random() < 0.6:  # plain C text that embeds the structure
            name = "W" + X.name
            W = XStruct(name, embedding_members(ctx, X), align)
            err = build(ctx, W, "text", len(W.members), None)
            res.feat("explicit-offset:user:text-definition-embedding-" + X.name)
            if err:
                res.count(("xoff-build", sess.script(), name), True)
                viol(ctx, W, f"a definition that embeds {X.name} is rejected: {err}")
                continue
            check_x(ctx, W)


def run(H, eng, res, rnd, tier):
    n = 170 if tier == "quick" else 5000
    for _ in range(n):
        try:
            run_case(H, eng, res, rnd)
        except Exception as e:  # noqa: BLE001 - never crash on a mutated library
            eng.report(f"explicit-offset family: a case raises {type(e).__name__}: {e}", {"repro": "see the seed"}, [])
        res.feat("explicit-offset:cases")
