"""Helpers for the C18 check (agent t5): histories in which a batch update is left through an exception.

A history walks over a field list and cuts it into steps.  A step either adds its fields the ordinary ways (`each`: add_field
with a commit per field, `update`: one `with T.start_update():` block, `extend`: extend `__fields__` and commit) or is a
*faulted* batch: inside `with T.start_update():` the first k fields of the step are added, then the body raises (the type name of
the next field does not resolve, add_field is called with a missing argument, a size expression fails, the caller's own code
raises an Exception or a BaseException) and the caller catches the exception.  The fields that were added before the fault are
part of the structure (`__fields__` is what every commit works from), so from then on the class has to be the structure declared
in one piece with exactly the fields it now has.  The field on which the batch failed is either retried in the next step or
dropped from the history.

`gen_history`   a seeded random history over n fields with at least one faulted batch (JSON-able, so that it can be replayed)
`run_history`   executes a history on a structure class; calls `after_fault(step number, indices present, exception)` after
                every faulted batch so that the caller can compare the class in that state; -> indices present at the end
"""
from __future__ import annotations

from . import impl


class Abort(BaseException):
    """what a caller's own code may raise inside the batch (not an Exception: e.g. a cancellation)"""


FAULTS = ("resolve", "add_field-args", "expression", "exception", "base-exception")
EXPECTED = {"resolve": "ResolveError", "add_field-args": "TypeError", "expression": "ExpressionParserError", "exception": "RuntimeError",
            "base-exception": "Abort"}


def gen_history(rnd, n: int, max_faults: int = 3):
    """-> list of steps: {"mode": "each"|"update"|"extend", "add": [i, ...]} or
    {"mode": "fault", "add": [indices added before the fault], "fault": kind, "failed": index or None, "dropped": bool}"""
    todo = list(range(n))
    steps, faults = [], 0
    want_fault_at = rnd.randrange(max(1, n))      # the step containing this field is faulted for sure
    while todo:
        size = rnd.randint(1, min(len(todo), 3))
        batch = todo[:size]
        forced = faults == 0 and want_fault_at in batch
        if faults < max_faults and (forced or rnd.random() < 0.3):
            # k fields get in before the body raises; mostly at least one
            k = rnd.randint(1, len(batch)) if rnd.random() < 0.85 else 0
            failed = todo[k] if k < len(todo) else None     # the field on whose addition the batch fails
            dropped = failed is not None and rnd.random() < 0.4
            steps.append({"mode": "fault", "add": batch[:k], "fault": rnd.choice(FAULTS), "failed": failed, "dropped": dropped})
            faults += 1
            todo = todo[k + (1 if dropped else 0):]
        else:
            steps.append({"mode": rnd.choice(["each", "update", "update", "extend"]), "add": batch})
            todo = todo[size:]
    if faults == 0:
        # n == 0: a batch that fails before anything was added
        steps.append({"mode": "fault", "add": [], "fault": rnd.choice(FAULTS), "failed": None, "dropped": False})
    return steps


def _raise_fault(cs, st, kind):
    m = impl.dc()
    if kind == "resolve":
        cs.resolve("no_such_type_t5")                    # the next field's type name is unknown
    elif kind == "add_field-args":
        st.add_field("oops")                             # TypeError before anything is appended
    elif kind == "expression":
        import sys
        sys.modules["dissect.cstruct.expression"].Expression(cs, "no_such_name_t5 + 1").evaluate()   # a size expression that fails
    elif kind == "exception":
        raise RuntimeError("the caller's code fails inside the batch")
    elif kind == "base-exception":
        raise Abort("the caller's code is cancelled inside the batch")
    raise AssertionError(f"fault {kind!r} did not raise ({m.__name__})")


def run_history(cs, st, specs, steps, mk_type, after_fault=None, touch=None):
    """`specs`: (name, type description, bits, offset); `mk_type(cs, description)` makes the type on this instance.
    `touch(st)` (optional) uses the class between steps.  -> (indices present, [(step number, exception class name)])"""
    from dissect.cstruct.types.structure import Field

    present, raised = [], []

    def add(i):
        nm, sp, b, o = specs[i]
        st.add_field(nm, mk_type(cs, sp), bits=b, offset=o)
        present.append(i)

    for no, step in enumerate(steps):
        mode = step["mode"]
        if mode == "each":
            for i in step["add"]:
                add(i)
        elif mode == "update":
            with st.start_update():
                for i in step["add"]:
                    add(i)
        elif mode == "extend":
            st.__fields__.extend(Field(specs[i][0], mk_type(cs, specs[i][1]), bits=specs[i][2], offset=specs[i][3]) for i in step["add"])
            present.extend(step["add"])
            st.commit()
        elif mode == "fault":
            exc = None
            try:
                with st.start_update():
                    for i in step["add"]:
                        add(i)
                    _raise_fault(cs, st, step["fault"])
            except BaseException as e:  # noqa: BLE001 - the caller handles whatever the body raised
                if isinstance(e, (KeyboardInterrupt, SystemExit, AssertionError)):
                    raise
                exc = e
            raised.append((no, type(exc).__name__))
            if after_fault is not None:
                after_fault(no, list(present), exc)
        else:
            raise ValueError(mode)
        if touch is not None:
            touch(st)
    return present, raised
