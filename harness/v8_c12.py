"""C12 operator-mix probes (round 8): "explicit values may be expressions over earlier members" - the expressions MIX OPERATORS OF
DIFFERENT PRECEDENCE WITHOUT PARENTHESES, and the member then has to name the integer that C computes.

In C the initialiser of an enumerator is a constant expression with the usual grammar (C11 6.5.5 - 6.5.12): unary `-` `~` bind
tightest, then `* / %`, then `+ -`, then `<< >>`, then `&`, then `^`, then `|`; every binary operator associates to the left.
`BIT = 1 << SHIFT + 1` is therefore 1 << (SHIFT + 1), `SCALED = SHIFT + 1 << 2` is (SHIFT + 1) << 2, `D = 1 | 2 << 1` is 5,
`E = ~A & 0xF` is (~A) & 0xF, and every implicit member after such a member continues from THAT value.  A member whose value was
computed with another binding names the wrong underlying integer: the bytes of the C value no longer parse to the member.

Per case (all choices from the module's seeded PRNG, own stream):
  * an enum or flag over one of 11 underlying integer types or the default type, either endianness, 2-7 members named from a pool
    of ordinary names; free constants (`#define`, in the same text or an earlier load()) that initialisers may use;
  * member initialisers: literals (decimal, hex, octal, binary spelling), implicit members, and - most of them - an operator chain
    of 2-4 binary operators taken from AT LEAST TWO of the six C precedence levels (| ^ & shift additive multiplicative; the pair of
    levels is drawn uniformly from the 15 pairs, shift/additive somewhat more often), written without parentheses over earlier
    members, free constants and literals; now and then an operand carries a unary `~` / `-` or is a small parenthesised group; spacing
    varies (`A << 2 + 1`, `A<<2+1`, tabs).  Candidates are drawn until the C value is defined, fits the underlying type (flags: is
    not negative) and - preferably - depends on the precedence (some other ranking of two neighbouring levels gives another value);
  * a structure with the type as scalar, `[2]` array and two bit-fields (3 and 5 bits), interpreted or compiled, optionally
    aligned behind a one-byte member.
Oracles (the property as stated, on observable behaviour):
  * the member table equals the C numbering: initialisers evaluated by `c_value` below - a recursive-descent evaluator written
    from the C grammar, one function per grammar level, with C's arithmetic (division truncates toward zero, the remainder has
    the sign of the dividend), that shares nothing with the library (no table, no shunting-yard) - and the implicit rule
    (enum: previous + 1, flag: next power of two above the previous value's top bit);
  * the same declaration with every initialiser FULLY PARENTHESISED the way C groups it, on a fresh object, gives the same table;
  * for every member value v: the underlying bytes of v parse to an object with integer value v that equals (both directions) every
    member declared with v and no other member, carries one of their names, dumps back to the bytes, two parses are equal with
    equal hashes; `E(v)` likewise; inside the structure the scalar, both array elements and (when the value fits) the bit-fields give
    the member and the structure dumps back to its bytes;
  * the Lean numbering fold gets the same declaration (correspondence, via the caller's lists).
The oracle is checked against itself on every initialiser: a second, table-driven precedence-climbing evaluator (`alt_value`, used
for the "does the precedence matter" statistic) given C's table, and Python's own expression grammar (which ranks these operators
like C; this is what the props module's `oracle_numbering` uses) must give the same value; a difference is a harness defect (Infra),
never a violation.

Domain notes (what is NOT generated, and why):
  * `/` and `%` with a NEGATIVE operand.  REPORTED, not judged here: the unmodified library floors (`G = -7 / 2` gives -4,
    `H = -7 % 2` gives 1, `I = 7 / -2` gives -4) where C truncates (-3, -1, -3).  Candidates in which a division or remainder meets
    a negative operand are redrawn (counted as `opmix:excluded:division-with-negative-operand`); with operands >= 0 both agree.
  * what C leaves undefined or to the implementation: shifting a negative value (either direction), shift counts < 0 or >= 64,
    division by zero, intermediate results outside the 64-bit signed range; unary `+` and the comparison / logical / conditional
    operators (C has them, the library's expression language does not: it rejects them loudly, nothing is misnumbered).
  * member values stay within the underlying type and within +-2**40; flag members are never negative (F22); the member names
    `size`, `alignment`, `dynamic`, `cs`, `type`, `mro` are not used (F51); one member per `,` on one line or one per line, never
    a newline inside a member (F20).
"""
from __future__ import annotations

from .common import A, Infra, sx

BASES = {"uint8": (1, False), "int8": (1, True), "uint16": (2, False), "int16": (2, True), "uint32": (4, False), "int32": (4, True),
         "uint64": (8, False), "int64": (8, True), "uint24": (3, False), "int24": (3, True), "uint128": (16, False)}
POOL = ["A", "B", "C", "D", "E", "F", "G", "H", "BASE", "BIT", "SCALED", "SHIFT", "MASK", "LOW", "HIGH", "NEXT", "FIRST", "LAST",
        "ALL", "X", "Y", "len", "count", "off", "STEP2", "READ", "WRITE"]
FREE_VALUES = {"KA": [1, 2, 4], "KB": [3, 5, 8], "STEP": [1, 2, 16], "NBITS": [1, 2, 3]}
LIM = 1 << 63
CAP = 1 << 40


class Undefined(Exception):
    """C does not define the value (or it lies outside the integers this family works with)"""


class NegDiv(Undefined):
    """`/` or `%` with a negative operand: excluded, see the domain notes"""


# ------------------------------------------------------------------------------------------------ C constant expressions

def tokens(text):
    """C tokens of an integer constant expression: ("num", value) | ("id", name) | ("op", text)"""
    out, i, n = [], 0, len(text)
    while i < n:
        c = text[i]
        if c in " \t":
            i += 1
        elif c.isdigit():
            j = i + 1
            if c == "0" and j < n and text[j] in "xXbB":
                base, digits = (16, "0123456789abcdefABCDEF") if text[j] in "xX" else (2, "01")
                j += 1
                st = j
                while j < n and text[j] in digits:
                    j += 1
                if j == st:
                    raise ValueError("digits expected")
                v = int(text[st:j], base)
            else:
                while j < n and text[j].isdigit():
                    j += 1
                s = text[i:j]
                v = int(s, 8) if len(s) > 1 and s[0] == "0" else int(s)          # a leading zero means octal in C
            if j < n and (text[j].isalnum() or text[j] == "_"):
                raise ValueError("suffixes are not generated")
            out.append(("num", v))
            i = j
        elif c.isalpha() or c == "_":
            j = i
            while j < n and (text[j].isalnum() or text[j] == "_"):
                j += 1
            out.append(("id", text[i:j]))
            i = j
        elif text[i:i + 2] in ("<<", ">>"):
            out.append(("op", text[i:i + 2]))
            i += 2
        elif c in "+-*/%&|^~()":
            out.append(("op", c))
            i += 1
        else:
            raise ValueError(f"not a token of the expression language: {c!r}")
    return out


class _Grammar:
    """recursive descent straight from the C grammar; builds ("num", v) | ("id", n) | ("un", op, x) | ("bin", op, l, r)"""

    def __init__(self, toks):
        self.t, self.i = toks, 0

    def _at(self, *ops):
        return self.i < len(self.t) and self.t[self.i][0] == "op" and self.t[self.i][1] in ops

    def _op(self):
        self.i += 1
        return self.t[self.i - 1][1]

    def _left(self, sub, *ops):
        x = sub()
        while self._at(*ops):
            op = self._op()
            x = ("bin", op, x, sub())
        return x

    def inclusive_or(self):                       # 6.5.12
        return self._left(self.exclusive_or, "|")

    def exclusive_or(self):                       # 6.5.11
        return self._left(self.and_, "^")

    def and_(self):                               # 6.5.10
        return self._left(self.shift, "&")

    def shift(self):                              # 6.5.7
        return self._left(self.additive, "<<", ">>")

    def additive(self):                           # 6.5.6
        return self._left(self.multiplicative, "+", "-")

    def multiplicative(self):                     # 6.5.5
        return self._left(self.unary, "*", "/", "%")

    def unary(self):                              # 6.5.3 (cast-expression: no casts in this language)
        if self._at("-", "~"):
            op = self._op()
            return ("un", op, self.unary())
        return self.primary()

    def primary(self):                            # 6.5.1
        if self.i >= len(self.t):
            raise ValueError("operand expected")
        k, v = self.t[self.i]
        self.i += 1
        if k in ("num", "id"):
            return (k, v)
        if v == "(":
            x = self.inclusive_or()
            if not self._at(")"):
                raise ValueError("`)` expected")
            self.i += 1
            return x
        raise ValueError(f"operand expected, found {v!r}")


def c_parse(text):
    g = _Grammar(tokens(text))
    x = g.inclusive_or()
    if g.i != len(g.t):
        raise ValueError("trailing tokens")
    return x


def _binop(op, a, b):
    """C arithmetic on integers that fit 64 bits"""
    if op in ("/", "%"):
        if b == 0:
            raise Undefined("division by zero")
        if a < 0 or b < 0:
            raise NegDiv(op)
        qt = abs(a) // abs(b)                     # truncation toward zero, (a/b)*b + a%b == a
        qt = -qt if (a < 0) != (b < 0) else qt
        return qt if op == "/" else a - qt * b
    if op in ("<<", ">>"):
        if not 0 <= b < 64 or a < 0:
            raise Undefined("shift")
        return a << b if op == "<<" else a >> b
    if op == "+":
        return a + b
    if op == "-":
        return a - b
    if op == "*":
        return a * b
    if op == "&":
        return a & b
    if op == "|":
        return a | b
    if op == "^":
        return a ^ b
    raise ValueError(op)


def _fit(r):
    if not -LIM <= r < LIM:
        raise Undefined("overflow")
    return r


def c_eval(x, env):
    k = x[0]
    if k == "num":
        return _fit(x[1])
    if k == "id":
        if x[1] not in env:
            raise Undefined(f"undeclared identifier {x[1]}")
        return _fit(int(env[x[1]]))
    if k == "un":
        v = c_eval(x[2], env)
        return _fit(-v if x[1] == "-" else ~v)
    return _fit(_binop(x[1], c_eval(x[2], env), c_eval(x[3], env)))


def c_value(text, env):
    """the value C gives the constant expression `text` with the identifiers of env in scope"""
    return c_eval(c_parse(text), env)


def render_grouped(x, top=True):
    """the expression with the grouping C gives it made explicit: every binary operation in parentheses"""
    k = x[0]
    if k == "num":
        return str(x[1])
    if k == "id":
        return x[1]
    if k == "un":
        inner = render_grouped(x[2], False)
        return x[1] + (inner if x[2][0] in ("num", "id", "bin") else f"({inner})")      # a binary operation brings its own parentheses
    return f"({render_grouped(x[2], False)} {x[1]} {render_grouped(x[3], False)})"


def c_numbering(is_flag, members, consts):
    """{name: value} by the C rule; the members declared so far are in scope and shadow the constants"""
    nxt = 1 if is_flag else 0
    vals = {}
    for name, ex in members:
        if ex is None:
            v = nxt
        else:
            env = dict(consts)
            env.update(vals)
            v = c_value(ex, env)
        vals[name] = v
        if is_flag:
            if v < 0:
                raise Undefined("negative flag value")
            nxt = 1 << v.bit_length()             # the power of two above the top bit; 1 after 0
        else:
            nxt = v + 1
    return vals


# ------------------------------------------------------------------------------------------------ precedence statistics

LEVEL_NAMES = ["or", "xor", "and", "shift", "additive", "multiplicative", "unary"]
LEVEL_OPS = [["|"], ["^"], ["&"], ["<<", ">>"], ["+", "-"], ["*", "/", "%"]]
C_TABLE = {op: lv for lv, ops in enumerate(LEVEL_OPS) for op in ops}
C_TABLE["unary"] = 6


def alt_value(toks, env, table):
    """precedence climbing over an arbitrary ranking {operator: level, "unary": level}; all binary operators left-associative"""
    pos = 0

    def operand():
        nonlocal pos
        if pos >= len(toks):
            raise ValueError("operand expected")
        k, v = toks[pos]
        pos += 1
        if k == "num":
            return _fit(v)
        if k == "id":
            if v not in env:
                raise Undefined(v)
            return _fit(int(env[v]))
        if v in ("-", "~"):
            x = expr(table["unary"])
            return _fit(-x if v == "-" else ~x)
        if v == "(":
            x = expr(0)
            if pos >= len(toks) or toks[pos] != ("op", ")"):
                raise ValueError("`)` expected")
            pos += 1
            return x
        raise ValueError(v)

    def expr(minlev):
        nonlocal pos
        lhs = operand()
        while pos < len(toks) and toks[pos][0] == "op" and toks[pos][1] in table and table[toks[pos][1]] >= minlev:
            op = toks[pos][1]
            pos += 1
            lhs = _fit(_binop(op, lhs, expr(table[op] + 1)))
        return lhs

    out = expr(0)
    if pos != len(toks):
        raise ValueError("trailing tokens")
    return out


def _variants():
    out = []
    for lv in range(6):
        sw = {k: (lv + 1 if v == lv else lv if v == lv + 1 else v) for k, v in C_TABLE.items()}
        out.append((f"{LEVEL_NAMES[lv]}<->{LEVEL_NAMES[lv + 1]}", sw))
        if lv < 5:
            mg = {k: (lv if v == lv + 1 else v) for k, v in C_TABLE.items()}
            out.append((f"{LEVEL_NAMES[lv]}=={LEVEL_NAMES[lv + 1]}", mg))
    return out


VARIANTS = _variants()


def sensitivity(toks, env, cval):
    """names of the wrong rankings (two neighbouring levels exchanged / merged) under which the expression has ANOTHER value"""
    out = []
    for name, table in VARIANTS:
        try:
            v = alt_value(toks, env, table)
        except (Undefined, ValueError):
            v = None
        if v != cval:
            out.append(name)
    return out


def _py_value(toks, env):
    """third opinion: the token sequence handed to Python's own grammar (operands >= 0 for / and %, so // and % agree with C)"""
    src = " ".join(str(v) if k == "num" else ("//" if v == "/" else v) for k, v in toks)
    return eval(src, {"__builtins__": {}}, dict(env))  # noqa: S307 - generated arithmetic only


SELF_TEST = [("1 << 2 + 1", 8), ("2 + 1 << 2", 12), ("256 >> 2 - 1", 128), ("1 | 2 << 1", 5), ("~1 & 0xF", 14), ("6 & 3 + 1", 4),
             ("1 ^ 3 & 2", 3), ("1 | 6 ^ 3", 5), ("7 - 2 - 1", 4), ("64 >> 2 >> 1", 8), ("2 * 3 % 4", 2), ("2 + 3 * 4", 14),
             ("20 / 2 * 5", 50), ("20 - 2 * 5 + 1", 11), ("-2 * 3 + 10", 4), ("~0 + 1", 0), ("- -3", 3), ("~-1", 0), ("010 + 1", 9),
             ("0b101 << 1", 10), ("(1 + 2) * 3", 9), ("2 * (1 + 2)", 6), ("1 << 1 + 1 << 1", 8), ("0x10 >> 1 | 1", 9),
             ("3 & 1 << 1 ^ 7", 5), ("8 - 1 & 3", 3), ("1 + 2 & 4 - 1", 3), ("5 % 3 + 1 << 2", 12), ("1 | 1 + 1", 3)]


def self_test():
    """the evaluators on values worked out by hand from the C grammar; C's division on negative operands"""
    for text, want in SELF_TEST:
        a, b = c_value(text, {}), alt_value(tokens(text), {}, C_TABLE)
        if a != want or b != want:
            raise Infra(f"C12 operator-mix oracle: {text!r} evaluates to {a} / {b}, C gives {want}")
    for text in ("-7 / 2", "7 / -2", "-7 % 2", "1 << -1", "1 << 64", "-1 >> 1", "1 / 0", "4 % 0"):
        try:
            c_value(text, {})
        except Undefined:
            continue
        raise Infra(f"C12 operator-mix oracle: {text!r} is outside the family's domain but was given a value")


# ------------------------------------------------------------------------------------------------ generation

def _spell(rnd, v):
    forms = [str(v), str(v), hex(v)]
    if v > 7:
        forms.append("0" + oct(v)[2:])
    if v >= 10:
        forms.append("0x" + format(v, "X"))
    if 0 < v < 16:
        forms.append("0b" + bin(v)[2:])
    return rnd.choice(forms)


def gen_expr(rnd, scope, members_in_scope, levels, single=False):
    """text of an operator chain without parentheses around the chain, with operators of (at least) the two given levels"""
    la, lb = levels
    if single:
        ops = [rnd.choice(LEVEL_OPS[la])]
    else:
        nops = rnd.choice([2, 2, 2, 3, 3, 4])
        ops = [rnd.choice(LEVEL_OPS[la]), rnd.choice(LEVEL_OPS[lb])] + [rnd.choice(rnd.choice(LEVEL_OPS)) for _ in range(nops - 2)]
        rnd.shuffle(ops)
    smalls = [k for k, v in scope.items() if 1 <= v <= 5]
    used_member = []

    def atom(small):
        r = rnd.random()
        if small:
            x = rnd.choice(smalls) if smalls and r < 0.5 else str(rnd.choice([1, 1, 2, 2, 3, 4]))
        elif r < 0.5 and members_in_scope:
            x = rnd.choice(members_in_scope)
        elif r < 0.65 and scope:
            x = rnd.choice(list(scope))
        else:
            x = _spell(rnd, rnd.choice([0, 1, 2, 3, 4, 5, 6, 7, 8, 10, 12, 15, 16, 0x20, 0x40, 0x7F, 0xFF, 100, 256, 1024]))
        if x in members_in_scope:
            used_member.append(x)
        return x

    def operand(small):
        r = rnd.random()
        if r < 0.12 and not single:
            a, b, op = atom(False), atom(True), rnd.choice(["+", "-", "|", "&", "<<", "*", "^"])
            return f"({a} {op} {b})"
        x = atom(small)
        if r > 0.88:
            x = rnd.choice(["~", "-", "~"]) + x
        return x

    parts = [operand(False)]
    for op in ops:
        parts.append(op)
        parts.append(operand(op in ("<<", ">>", "/", "%") and rnd.random() < 0.85))
    if members_in_scope and not used_member and rnd.random() < 0.85:
        parts[rnd.choice([0, 0, 2])] = rnd.choice(members_in_scope)              # an expression over earlier members
    if "*" in ops and not single and rnd.random() < 0.3:
        j = parts.index("*") - 1                                                   # `~a * b` is (~a) * b: unary binds tighter than *
        if parts[j][0] not in "~-":
            parts[j] = "~" + parts[j]
    style = rnd.choice(["spaced", "spaced", "tight", "mixed", "tabs"])
    out = parts[0]
    for j in range(1, len(parts), 2):
        op, rhs = parts[j], parts[j + 1]
        if style == "spaced":
            l, r = " ", " "
        elif style == "tight":
            l, r = "", ""
        elif style == "tabs":
            l, r = rnd.choice([" ", "\t"]), rnd.choice([" ", "\t", "  "])
        else:
            l, r = rnd.choice(["", " "]), rnd.choice(["", " "])
        if rhs.startswith("-") and op == "-" and not r:
            r = " "                                                                # `a--b` would be C's decrement token
        out += l + op + r + rhs
    return out


def gen_decl(rnd, is_flag, lo, hi, free):
    """-> (members [(name, expr | None)], info {name: {"sens": [...], "levels": (a, b)}}, excluded: Counter-like dict)"""
    n = rnd.randint(2, 7)
    names = rnd.sample(POOL, n)
    out, info, excluded = [], {}, {}
    lo, hi = max(lo, 0 if is_flag else -CAP), min(hi, CAP)

    def value_of(cand):
        vals = c_numbering(is_flag, out + [cand], free)
        if not all(lo <= v <= hi for v in vals.values()):
            raise Undefined("outside the underlying type")
        return vals[cand[0]], vals

    for i, nm in enumerate(names):
        chosen = None
        r = rnd.random()
        if i == 0:
            ex = None if r < 0.15 else rnd.choice(list(free)) if r < 0.3 else _spell(rnd, rnd.choice([1, 2, 4, 8, 3] if is_flag else [0, 1, 2, 3, 5, 7, 10]))
            chosen = (ex, None)
        elif r < 0.13:
            chosen = (None, None)
        elif r < 0.2:
            chosen = (_spell(rnd, rnd.choice([1, 2, 4, 8, 0x10, 0x20, 0x40, 3] if is_flag else [0, 1, 2, 5, 7, 10, 20, 50, 100])), None)
        else:
            single = r < 0.27
            scope = dict(free)
            scope.update(c_numbering(is_flag, out, free))
            mnames = [k for k, _ in out]
            taken = set(scope.values()) | {0}
            levels = (3, 4) if rnd.random() < 0.2 else tuple(rnd.sample(range(6), 2))      # one pair per member: every pair gets its share
            best = None
            for _attempt in range(40):
                ex = gen_expr(rnd, scope, mnames, levels, single)
                try:
                    v, _ = value_of((nm, ex))
                except NegDiv:
                    excluded["division-with-negative-operand"] = excluded.get("division-with-negative-operand", 0) + 1
                    continue
                except Undefined:
                    continue
                toks = tokens(ex)
                sens = sensitivity(toks, scope, v)
                meta = {"sens": sens, "levels": levels, "single": single, "toks": toks, "scope": scope, "value": v}
                score = (2 if sens or single else 0) + (1 if v not in taken else 0)           # a value of its own says more than one more 0
                if best is None or score > best[0]:
                    best = (score, ex, meta)
                if score == 3 or (score == 2 and _attempt >= 12):
                    break
            chosen = best[1:] if best else (None, None)
        ex, meta = chosen
        try:
            value_of((nm, ex))
        except Undefined:
            try:
                value_of((nm, None))
                ex, meta = None, None
            except Undefined:
                break                                   # the implicit continuation leaves the underlying type: the declaration ends here
        if meta:
            info[nm] = meta
        out.append((nm, ex))
    return out, info, excluded


def _eqlaws(x, y, same):
    """`==` in both directions says `same`, `!=` in both directions says the opposite"""
    return bool(x == y) == same and bool(y == x) == same and bool(x != y) != same and bool(y != x) != same


# ------------------------------------------------------------------------------------------------ the probes

def opmix_probes(rnd, res, viol, dc, tier, py_oracle, lines, metas):
    self_test()
    for i in range(150 if tier == "quick" else 3000):
        is_flag = rnd.random() < 0.45
        kw = "flag" if is_flag else "enum"
        base = rnd.choice(list(BASES))
        size, signed = BASES[base]
        default_type = rnd.random() < 0.08
        if default_type:
            base, size, signed = "uint32", 4, False
        bits = 8 * size
        tlo, thi = (-(1 << (bits - 1)), (1 << (bits - 1)) - 1) if signed else (0, (1 << bits) - 1)
        endian = rnd.choice("<>")
        compiled = rnd.random() < 0.5
        aligned = size in (1, 2, 4, 8) and rnd.random() < 0.4
        lead = aligned or rnd.random() < 0.3
        free = {k: rnd.choice(v) for k, v in FREE_VALUES.items()}
        members, info, excluded = gen_decl(rnd, is_flag, tlo, thi, free)
        for k, c in excluded.items():
            res.feat("opmix:excluded:" + k, c)
        if len(members) < 2 or not info:
            res.feat("opmix:declaration-without-operator-mix (not counted)")
            continue
        want = c_numbering(is_flag, members, free)
        # ---- the oracle against itself: table-driven evaluator with C's table, Python's grammar, the props module's numbering
        for nm, meta in info.items():
            ex = dict(members)[nm]
            b = alt_value(meta["toks"], meta["scope"], C_TABLE)
            try:
                c = _py_value(meta["toks"], meta["scope"])
            except Exception as e:  # noqa: BLE001
                raise Infra(f"C12 operator-mix oracle: Python cannot evaluate {ex!r}: {e}") from e
            if not (meta["value"] == b == c):
                raise Infra(f"C12 operator-mix oracle: {ex!r} with {meta['scope']} evaluates to {meta['value']} (grammar), {b} (table), {c} (Python)")
        try:
            pv = py_oracle(is_flag, members, free)
        except Exception as e:  # noqa: BLE001
            raise Infra(f"C12 operator-mix oracle: oracle_numbering cannot evaluate {members!r}: {e}") from e
        if pv != want:
            raise Infra(f"C12 operator-mix oracle: oracle_numbering gives {pv}, the C evaluator {want} for {members!r}")
        # ---- the declaration and a structure around it
        sep = rnd.choice([", ", ", ", ",\n    ", " ,  "])
        body = sep.join(n if e is None else f"{n} = {e}" for n, e in members)
        head = f"{kw} E{i}" + ("" if default_type else rnd.choice([f" : {base}", f": {base}", f" :{base} "]))
        defines = "".join(f"#define {k} {rnd.choice([str(v), hex(v)])}\n" for k, v in free.items())
        same_load = rnd.random() < 0.7
        text = ((defines if same_load else "") + f"{head} {{ {body} }};\n"
                f"struct S{i} {{ {'uint8 lead; ' if lead else ''}E{i} one; E{i} arr[2]; E{i} lo : 3; E{i} hi : 5; }};")
        script = [f"from dissect.cstruct import cstruct; cs = cstruct(endian={endian!r})"]
        if not same_load:
            script.append(f"cs.load({defines!r})")
        script.append(f"cs.load({text!r}, compiled={compiled}, align={aligned}); E = cs.E{i}; S = cs.S{i}")
        script.append("print({k: int(m.value) for k, m in E.__members__.items()})")
        grouped = {nm: render_grouped(c_parse(ex)) for nm, ex in members if nm in info}
        data = {"declaration": text, "constants": dict(free), "endian": endian, "compiled": compiled, "align": aligned,
                "c_numbering": want, "initialisers_as_c_groups_them": grouped, "repro": "\n".join(script)}
        try:
            cs = dc.cstruct(endian=endian)
            if not same_load:
                cs.load(defines)
            cs.load(text, compiled=compiled, align=aligned)
            E, S = getattr(cs, f"E{i}"), getattr(cs, f"S{i}")
            mem = dict(E.__members__)
            got = {k: int(m.value) for k, m in mem.items()}
        except Exception as e:  # noqa: BLE001
            viol(f"declaration whose initialisers mix operators without parentheses rejected: {type(e).__name__}: {e}", data)
            continue
        res.count((data["repro"], "opmix-members"), True)
        res.feat(f"opmix:{kw}:{'default-type' if default_type else base}")
        res.feat("opmix:struct:" + ("compiled" if compiled else "interpreted") + (":aligned" if aligned else ""))
        for nm, meta in info.items():
            if meta["single"]:
                res.feat("opmix:initialiser:single-operator (control)")
                continue
            a, b = sorted(meta["levels"])
            res.feat(f"opmix:mix:{LEVEL_NAMES[a]}+{LEVEL_NAMES[b]}")
            res.feat("opmix:initialiser:" + ("value-depends-on-precedence" if meta["sens"] else "value-the-same-under-neighbouring-rankings"))
            for s in meta["sens"]:
                res.feat("opmix:tells-apart:" + s)
            if any(t[1] in ("~", "-") and (j == 0 or (meta["toks"][j - 1][0] == "op" and meta["toks"][j - 1][1] != ")"))
                   for j, t in enumerate(meta["toks"]) if t[0] == "op"):
                res.feat("opmix:initialiser:with-unary-operator")
        lines.append(sx([A("enumvals"), int(is_flag), [[A(k), v] for k, v in free.items()], [[n, A("none")] if e is None else [n, e] for n, e in members]]))
        metas.append(("enumvals", data, got))
        if got != want:
            wrong = [k for k in want if got.get(k) != want[k]]
            w = wrong[0] if wrong else "?"
            cause = next((k for k, _ in members if k in info and got.get(k) != want[k]), None)
            why = (f"; `{cause} = {dict(members)[cause]}` is {grouped[cause]} = {want[cause]} in C, the library numbers it {got.get(cause)}" if cause else "")
            viol(f"member values {got}; C numbering gives {want} (first wrong member {w}{why})", dict(data, first_wrong_member=w))
            continue
        # ---- the same declaration with C's grouping written out, on a fresh object
        body2 = ", ".join(n if e is None else f"{n} = {grouped.get(n, e)}" for n, e in members)
        try:
            cs2 = dc.cstruct(endian=endian)
            cs2.load(defines + f"{head} {{ {body2} }};", compiled=compiled)
            got2 = {k: int(m.value) for k, m in getattr(cs2, f"E{i}").__members__.items()}
        except Exception as e:  # noqa: BLE001
            viol(f"the same declaration with C's grouping in parentheses raises {type(e).__name__}: {e}", dict(data, parenthesised=body2))
            continue
        if got2 != got:
            viol(f"member values {got} without parentheses, {got2} with the parentheses C implies", dict(data, parenthesised=body2))
            continue
        # ---- parsing the underlying values gives the right members
        order = "little" if endian == "<" else "big"
        allv = sorted(set(want.values()))
        first = sorted({want[k] for k in info})                               # the values computed by the operator chains first
        mv = first + [v for v in allv if v not in first]
        if tier == "quick":
            mv = mv[:4]
        lo_max, hi_max = (4, 16) if signed else (8, 32)
        small = [v for v in allv if 0 <= v < lo_max] or [1]
        for v in mv:
            named = [k for k in want if want[k] == v]
            raw = v.to_bytes(size, order, signed=signed)
            v2 = rnd.choice(allv)
            blo = v if 0 <= v < lo_max else rnd.choice(small)
            bhi = v if 0 <= v < hi_max else rnd.choice(small)
            unit = (blo | bhi << 3) if endian == "<" else (blo << (bits - 3) | bhi << (bits - 8))
            leadb = (bytes([rnd.randrange(256)]) + bytes(size - 1 if aligned else 0)) if lead else b""
            sraw = leadb + raw + v2.to_bytes(size, order, signed=signed) + raw + unit.to_bytes(size, order)
            d2 = dict(data, value=v, members_with_that_value=named, bytes=raw.hex(), struct_bytes=sraw.hex())
            d2["repro"] += (f"\nx = E(bytes.fromhex({raw.hex()!r})); s = S(bytes.fromhex({sraw.hex()!r}))\n"
                            f"print(repr(x), 'expected one of', {named!r}, s)")
            res.count((data["repro"], "opmix-value", v), True)
            try:
                x, x2 = E(raw), E(raw)
                objs = [("E(bytes)", x, v), ("E(bytes) again", x2, v), ("E(int)", E(v), v)]
                s = S(sraw)
                objs += [("struct field", s.one, v), ("struct array element [0]", s.arr[0], v2), ("struct array element [1]", s.arr[1], v),
                         ("bit-field lo:3", s.lo, blo), ("bit-field hi:5", s.hi, bhi)]
                back, sback = x.dumps(), s.dumps()
                samehash = hash(x) == hash(x2)
            except Exception as e:  # noqa: BLE001
                viol(f"obtaining member value {v} ({named}) from data raises {type(e).__name__}: {e}", d2)
                continue
            bad = None
            for how, o, ov in objs:
                try:
                    if int(o.value) != ov or int(o) != ov:
                        bad = f"{how}: the object has value {int(o.value)}, the underlying integer is {ov}"
                        break
                    if not _eqlaws(o, ov, True):
                        bad = f"{how} for value {ov} gives {o!r}, which does not compare equal to its integer value"
                        break
                    for k, m in mem.items():
                        if not _eqlaws(o, m, want[k] == ov):
                            bad = f"{how} for value {ov} gives {o!r}; member {k} = {want[k]}: == / != do not follow the values"
                            break
                    if bad:
                        break
                    onamed = [k for k in want if want[k] == ov]
                    if onamed and o.name not in onamed:
                        bad = f"{how} for value {ov} gives {o!r} (name {o.name!r}); the value is declared as {onamed}"
                        break
                except Exception as e:  # noqa: BLE001
                    bad = f"{how} for value {ov}: examining the object raises {type(e).__name__}: {e}"
                    break
            if bad:
                viol(bad, d2)
            elif not samehash or not _eqlaws(x, x2, True):
                viol(f"two parses of the underlying value {v} are not equal objects with equal hashes", d2)
            elif back != raw:
                viol(f"member value {v} dumps to {back.hex()}, the underlying bytes are {raw.hex()}", d2)
            elif sback != sraw:
                viol(f"structure with the members dumps to {sback.hex()}, its data bytes are {sraw.hex()}", d2)
