"""v4: the 'after a failed write' family of C05.

The scalar codecs are the exact inverse of decoding *whatever happened before on the instance or in the process*: an encode that
was refused half way through a multi-part value (an array whose later element does not fit its element type, a LEB128 array with a
negative element, a structure whose later field / bit-field / nested member is out of range) must leave nothing behind.  Every
trial of this family

  1. makes a cstruct instance under a seeded endianness (and often a second, older one under another endianness), optionally loads
     a generated structure definition (flat scalar / array / enum / LEB128 / nested-structure / bit-field members; compiled or
     interpreted; aligned or packed),
  2. provokes one or two *faults*: dumps() / write() / instance.dumps() of a value that is refused - at a seeded position of the
     value, so that zero or more leading parts were already produced - and catches the exception (also: plain scalar rejections,
     wrong-typed elements, wrong array lengths, short reads),
  3. optionally switches the instance's endianness,
  4. and then re-verifies one to three scalar encodes (fixed-width ints and their aliases, arbitrary-width ints, floats, char,
     wchar, LEB128; also well-formed arrays and the loaded structure) against the reference encodings written in props/c05.py -
     on the same instance, on the older instance and on a fresh one; through Type.dumps(v), Type(v).dumps() and
     Type.write(stream, v) (return value and the bytes appended at the stream position); and decodes the reference bytes back.

Oracle: the next encode after a refused one is exactly the standard encoding (and a value that does not fit is refused, never
written truncated).  Every step of a trial is a Python statement that is recorded, so a violation carries a self-contained script
(`case.script`, sets `fails`) which props/c05.replay re-executes.

The same values go to the Lean model (`write` / `leb-write`): the model is a pure function, so it trivially has no memory of the
refused encode - the correspondence pins the real library to that.
"""
from __future__ import annotations

import io
import struct

from . import impl, refimpl
from .common import A, sx

FCH = {"float16": ("e", 2), "float": ("f", 4), "double": ("d", 8)}
ENUM_DEF = "enum E : uint16 { A = 1, B = 0x100 };\n"
ORDER = {"<": "little", ">": "big", "!": "big"}
BIT_BASES = ["uint8", "uint16", "uint32", "uint64"]  # storage types whose size equals their alignment (known finding F23 is about the others)


def _c05():
    from .props import c05  # late: props/c05 imports this module

    return c05


# ------------------------------------------------------------------------------------------------ types and values
# type  := ("int", name) | ("flt", name) | ("char",) | ("wchar",) | ("leb", name) | ("enum",) | ("arr", type, n|None) | ("sub", fields, tname)
#          (n = None: a null-terminated array, written as its elements followed by a zero element)
# field := {"name", "ty", "bits"}
# value := ("int", name, v) | ("flt", name, pattern) | ("fltbig", name, text) | ("bytes", b) | ("wstr", s) | ("leb", name, v) | ("enum", v)
#          | ("list", [value], terminator bytes) | ("rec", tname, fields, [value]) | ("wrong",)

def canon(name):
    return _c05().EXPECT_ALIAS.get(name, name)


def int_info(name):
    return _c05().INTS[canon(name)]


def alignment(ty):
    k = ty[0]
    if k in ("int", "flt"):
        return refimpl.SC[canon(ty[1])][3]
    if k == "wchar" or k == "enum":
        return 2
    if k == "arr":
        return alignment(ty[1])
    if k == "sub":
        return max(alignment(f["ty"]) for f in ty[1])
    return 1


def has_leb(ty):
    k = ty[0]
    if k == "leb":
        return True
    if k == "arr":
        return ty[2] is None or has_leb(ty[1])
    if k == "sub":
        return any(has_leb(f["ty"]) for f in ty[1])
    return False


def cname(ty):
    """the C spelling of a member's base type"""
    k = ty[0]
    if k in ("int", "flt", "leb"):
        return ty[1]
    return {"char": "char", "wchar": "wchar", "enum": "E", "sub": ty[-1]}[k]


def tyexpr(ty, cs):
    """Python expression of the library's type object"""
    k = ty[0]
    if k == "arr":
        return f"{tyexpr(ty[1], cs)}[{ty[2]!r}]"
    n = cname(ty)
    return f"{cs}.{n}" if n.isidentifier() else f"{cs}.resolve({n!r})"


def ty_sexp(ty, align):
    k = ty[0]
    if k in ("int", "flt", "leb"):
        return [A("sc"), ty[1]]
    if k in ("char", "wchar"):
        return [A("sc"), k]
    if k == "enum":
        return [A("enum"), "uint16"]
    if k == "arr":
        return [A("arr"), ty_sexp(ty[1], align), A("null") if ty[2] is None else [A("fixed"), ty[2]]]
    return [A("struct"), 1 if align else 0, [[A("f"), f["name"], 0, ty_sexp(f["ty"], align), f["bits"] or 0] for f in ty[1]]]


def term_size(ty) -> int:
    """size of the zero element that ends a null-terminated array of this element type"""
    k = ty[0]
    if k == "int":
        return int_info(ty[1])[0]
    if k == "flt":
        return FCH[ty[1]][1]
    return {"char": 1, "wchar": 2, "leb": 1, "enum": 2}[k]


def enc(val, order, align=False) -> bytes:
    """the reference encoding (independent of the library): int.to_bytes / IEEE bit pattern / UTF-16 / textbook LEB128,
    members in declaration order, C alignment rule when `align`"""
    c05 = _c05()
    k = val[0]
    if k == "int":
        size, signed = int_info(val[1])
        return c05.oracle_encode(val[2], size, signed, order)
    if k == "flt":
        return val[2].to_bytes(FCH[val[1]][1], order)
    if k == "bytes":
        return val[1]
    if k == "wstr":
        return val[1].encode("utf-16-le" if order == "little" else "utf-16-be")
    if k == "leb":
        return c05.leb_oracle_encode(val[2], val[1] == "ileb128")
    if k == "enum":
        return val[1].to_bytes(2, order)
    if k == "list":
        return b"".join(enc(v, order, align) for v in val[1]) + val[2]
    if k == "rec":
        return enc_struct(val[2], val[3], order, align)
    raise ValueError(k)


def enc_struct(fields, vals, order, align) -> bytes:
    out = bytearray()

    def pad(a):
        if align:
            out.extend(b"\x00" * (-len(out) % a))

    i = 0
    while i < len(fields):
        f = fields[i]
        if f["bits"]:
            base = f["ty"][1]
            size = int_info(base)[0]
            unit, used = 0, 0
            while i < len(fields) and fields[i]["bits"] and fields[i]["ty"][1] == base and used + fields[i]["bits"] <= 8 * size:
                b, v = fields[i]["bits"], vals[i][2]
                unit |= v << (used if order == "little" else 8 * size - used - b)
                used += b
                i += 1
            pad(alignment(f["ty"]))
            out += unit.to_bytes(size, order)
            continue
        pad(alignment(f["ty"]))
        out += enc(vals[i], order, align)
        i += 1
    pad(max(alignment(f["ty"]) for f in fields))
    return bytes(out)


def pyexpr(val, cs) -> str:
    k = val[0]
    if k == "int" or k == "leb":
        return repr(val[2])
    if k == "flt":
        ch, size = FCH[val[1]]
        return repr(struct.unpack(">" + ch, val[2].to_bytes(size, "big"))[0])
    if k == "fltbig":
        return val[2]
    if k == "bytes":
        return repr(val[1])
    if k == "wstr":
        return ascii(val[1])
    if k == "enum":
        return f"{cs}.E({val[1]})"
    if k == "list":
        if val[1] and all(v[0] == "bytes" for v in val[1]):
            return repr(b"".join(v[1] for v in val[1]))
        if val[1] and all(v[0] == "wstr" for v in val[1]):
            return ascii("".join(v[1] for v in val[1]))
        return "[" + ", ".join(pyexpr(v, cs) for v in val[1]) + "]"
    if k == "rec":
        return f"{cs}.{val[1]}(" + ", ".join(f"{f['name']}={pyexpr(v, cs)}" for f, v in zip(val[2], val[3])) + ")"
    return "'x'"  # ("wrong",)


def val_sexp(val):
    k = val[0]
    if k in ("int", "leb"):
        return [A("int"), val[2]]
    if k == "flt":
        return [A("flt"), int.from_bytes(val[2].to_bytes(FCH[val[1]][1], "big"), "big")]
    if k == "bytes":
        return [A("bytes"), val[1]]
    if k == "wstr":
        b = val[1].encode("utf-16-le", "surrogatepass")
        return [A("wstr"), *[int.from_bytes(b[i:i + 2], "little") for i in range(0, len(b), 2)]]
    if k == "enum":
        return [A("enum"), val[1]]
    if k == "list":
        if val[1] and all(v[0] == "bytes" for v in val[1]):
            return [A("bytes"), b"".join(v[1] for v in val[1])]
        if val[1] and all(v[0] == "wstr" for v in val[1]):
            return val_sexp(("wstr", "".join(v[1] for v in val[1])))
        return [A("list"), *[val_sexp(v) for v in val[1]]]
    if k == "rec":
        return [A("rec"), *[val_sexp(v) for v in val[3]]]
    return None  # not expressible in the model's value language ("wrong", "fltbig")


def expressible(val) -> bool:
    k = val[0]
    if k in ("wrong", "fltbig"):
        return False
    if k == "list":
        return all(expressible(v) for v in val[1])
    if k == "rec":
        return all(expressible(v) for v in val[3])
    return True


# ------------------------------------------------------------------------------------------------ generators

class G:
    def __init__(self, rnd):
        self.rnd = rnd
        c05 = _c05()
        self.fixed = [n for n, (s, _) in c05.INTS.items() if s in (1, 2, 4, 8)]
        self.arb = [n for n, (s, _) in c05.INTS.items() if s not in (1, 2, 4, 8)]
        self.alias = list(c05.EXPECT_ALIAS)
        self.nsub = 0

    def int_name(self):
        r = self.rnd.random()
        return self.rnd.choice(self.arb if r < 0.45 else self.fixed if r < 0.8 else self.alias)

    def scalar_ty(self, family=None):
        rnd = self.rnd
        family = family or rnd.choice(["fixed", "arb", "alias", "flt", "char", "wchar", "leb"])
        if family in ("fixed", "arb", "alias"):
            return ("int", rnd.choice({"fixed": self.fixed, "arb": self.arb, "alias": self.alias}[family]))
        if family == "flt":
            return ("flt", rnd.choice(list(FCH)))
        if family == "leb":
            return ("leb", rnd.choice(["uleb128", "ileb128"]))
        return (family,)

    def good(self, ty):
        rnd = self.rnd
        k = ty[0]
        if k == "int":
            size, signed = int_info(ty[1])
            vals, lo, hi = _c05().boundary(size, signed)
            return ("int", ty[1], rnd.choice(vals) if rnd.random() < 0.4 else rnd.randint(lo, hi))
        if k == "flt":
            size = FCH[ty[1]][1]
            ebits = {2: 5, 4: 8, 8: 11}[size]
            while True:
                p = rnd.getrandbits(8 * size)
                if (p >> (8 * size - 1 - ebits)) & ((1 << ebits) - 1) != (1 << ebits) - 1:  # neither NaN nor an infinity
                    return ("flt", ty[1], p)
        if k == "char":
            return ("bytes", bytes([rnd.choice([0, 1, 0x41, 0x7F, 0x80, 0xFF, rnd.randrange(256)])]))
        if k == "wchar":
            while True:
                u = rnd.choice([1, 0x41, 0xFF, 0x100, 0x20AC, 0xD7FF, 0xE000, 0xFFFF, rnd.randrange(0x10000)])
                if not 0xD800 <= u <= 0xDFFF:
                    return ("wstr", chr(u))
        if k == "leb":
            m = rnd.getrandbits(rnd.choice([1, 6, 7, 8, 13, 14, 15, 31, 64, rnd.randint(1, 120)]))
            if ty[1] == "ileb128":
                m = rnd.choice([m, -m, -m - 1])
            return ("leb", ty[1], m)
        if k == "enum":
            return ("enum", rnd.choice([1, 0x100, 0, 7, 0xFFFF, rnd.randrange(0x10000)]))
        if k == "arr":
            n = ty[2] if ty[2] is not None else rnd.randint(1, 4)
            return ("list", [self.good(ty[1]) for _ in range(n)], b"" if ty[2] is not None else b"\x00" * term_size(ty[1]))
        return self.good_rec(ty[2], ty[1])

    def good_rec(self, tname, fields):
        vals = []
        for f in fields:
            if f["bits"]:
                vals.append(("int", f["ty"][1], self.rnd.choice([0, 1, (1 << f["bits"]) - 1, self.rnd.getrandbits(f["bits"])])))
            else:
                vals.append(self.good(f["ty"]))
        return ("rec", tname, fields, vals)

    def can_fail(self, ty) -> bool:
        k = ty[0]
        if k == "arr":
            return True
        if k == "sub":
            return any(f["bits"] or self.can_fail(f["ty"]) for f in ty[1])
        return k not in ("char",)

    def bad(self, ty, bits=None):
        """-> (value, judged): a value the type's encoder must refuse (judged: the property itself says so - the value does not
        fit the width / is negative for an unsigned LEB128; unjudged: a wrong-typed value, a float beyond the format, an
        unpaired surrogate, a wrong array length - only used as a fault, whether it raises is other properties' business)"""
        rnd = self.rnd
        k = ty[0]
        if bits:
            return ("int", ty[1], rnd.choice([1 << bits, (1 << bits) + rnd.getrandbits(5), -1, -rnd.randint(1, 1 << bits)])), True
        if k == "int":
            if rnd.random() < 0.1:
                return ("wrong",), False
            size, signed = int_info(ty[1])
            _, lo, hi = _c05().boundary(size, signed)
            w = 1 << (8 * size)
            return ("int", ty[1], rnd.choice([hi + 1, lo - 1, hi + w, lo - w, hi + rnd.randint(1, w << 3), lo - rnd.randint(1, w), 1 << (8 * size + 6)])), True
        if k == "flt":
            if ty[1] == "double" or rnd.random() < 0.3:
                return ("wrong",), False
            return ("fltbig", ty[1], rnd.choice(["1e39", "-3.5e38", "1e300"]) if ty[1] == "float" else rnd.choice(["1e6", "-65520.0", "1e39"])), False
        if k == "wchar":
            return ("wstr", chr(rnd.choice([0xD800, 0xDBFF, 0xDC00, 0xDFFF]))), False
        if k == "leb":
            if ty[1] == "uleb128" and rnd.random() < 0.85:
                return ("leb", ty[1], -rnd.choice([1, 2, 64, 128, rnd.getrandbits(70) + 1])), True
            return ("wrong",), False
        if k == "enum":
            return ("enum", rnd.choice([0x10000, 70000, -1, 1 << 20])), True
        if k == "arr":
            good = self.good(ty)
            vs, term = list(good[1]), good[2]
            if rnd.random() < 0.1 and ty[2] is not None:
                return ("list", (vs + [self.good(ty[1])]) if (rnd.random() < 0.5 or not vs) else vs[:-1], term), False  # wrong length
            if not self.can_fail(ty[1]) or not vs:
                return ("list", vs + [self.good(ty[1])], term), False
            pos = rnd.randrange(len(vs)) if (len(vs) == 1 or rnd.random() < 0.15) else rnd.randrange(1, len(vs))
            b, judged = self.bad(ty[1])
            vs[pos] = b
            if rnd.random() < 0.2 and pos + 1 < len(vs):
                vs[rnd.randrange(pos + 1, len(vs))] = self.bad(ty[1])[0]
            return ("list", vs, term), judged
        return self.bad_rec(ty[2], ty[1])

    def bad_rec(self, tname, fields):
        rnd = self.rnd
        good = self.good_rec(tname, fields)
        vals = list(good[3])
        cands = [i for i, f in enumerate(fields) if f["bits"] or self.can_fail(f["ty"])]
        later = [i for i in cands if i > 0]
        i = rnd.choice(later) if later and rnd.random() < 0.88 else rnd.choice(cands)
        vals[i], judged = self.bad(fields[i]["ty"], fields[i]["bits"])
        return ("rec", tname, fields, vals), judged

    # ---- structure definitions
    def member_ty(self, allow_sub, allow_leb):
        rnd = self.rnd
        r = rnd.random()
        if r < 0.45:
            return ("int", self.int_name())
        if r < 0.53:
            return ("flt", rnd.choice(list(FCH)))
        if r < 0.58:
            return ("char",)
        if r < 0.63:
            return ("wchar",)
        if r < 0.70:
            return ("enum",)
        if r < 0.78 and allow_leb:
            return ("leb", rnd.choice(["uleb128", "ileb128"]))
        if r < 0.90:
            et = rnd.choice([("int", self.int_name()), ("int", rnd.choice(self.arb)), ("flt", "float"), ("char",), ("wchar",), ("enum",)] +
                            ([("leb", "uleb128"), ("leb", "ileb128")] if allow_leb else []))
            return ("arr", et, rnd.randint(1, 4))
        if allow_sub:
            self.nsub += 1
            return ("sub", self.fields(rnd.randint(2, 3), sub=True, allow_leb=False), f"N{self.nsub}")
        return ("int", rnd.choice(self.arb))

    def fields(self, n, sub=False, allow_leb=True):
        rnd = self.rnd
        out = []
        pre = "g" if sub else "f"
        bits_done = sub
        for _ in range(n):
            if not bits_done and rnd.random() < 0.25:
                # one run of bit-fields on one unsigned storage unit (before any variable-length member)
                bits_done = True
                base = rnd.choice(BIT_BASES)
                left = 8 * int_info(base)[0]
                for _ in range(rnd.randint(1, 3)):
                    if left == 0:
                        break
                    b = rnd.randint(1, min(left, rnd.choice([3, 7, 13, 33])))
                    out.append({"name": f"{pre}{len(out)}", "ty": ("int", base), "bits": b})
                    left -= b
                continue
            ty = self.member_ty(allow_sub=not sub, allow_leb=allow_leb)
            if has_leb(ty):
                bits_done = True
            out.append({"name": f"{pre}{len(out)}", "ty": ty, "bits": None})
        if not any(f["bits"] or self.can_fail(f["ty"]) for f in out[1:]):
            out.append({"name": f"{pre}{len(out)}", "ty": ("int", rnd.choice(self.arb)), "bits": None})
        return out


def render(fields, name):
    subs, lines = [], []
    for f in fields:
        ty, dims = f["ty"], ""
        if ty[0] == "arr":
            dims, ty = f"[{ty[2]}]", ty[1]
        if ty[0] == "sub":
            subs.append(render(ty[1], ty[2]))
        lines.append(f"{cname(ty)} {f['name']}{dims}{' : %d' % f['bits'] if f['bits'] else ''};")
    return "".join(subs) + f"struct {name} {{ " + " ".join(lines) + " };\n"


# ------------------------------------------------------------------------------------------------ one trial = one recorded script

class Script:
    """the statements of a trial, executed one by one in a namespace of their own and recorded"""

    def __init__(self, dc):
        self.ns = {"cstruct": dc.cstruct, "BytesIO": io.BytesIO, "inf": float("inf")}
        self.lines = ["from dissect.cstruct import cstruct", "from io import BytesIO", "from math import inf"]

    def do(self, stmt):
        """-> None | the exception"""
        self.lines.append(stmt)
        try:
            exec(compile(stmt, "<c05 after-fault trial>", "exec"), self.ns)  # noqa: S102 - statements generated above
        except Exception as e:  # noqa: BLE001
            return e
        return None

    def attempt(self, stmt):
        """a statement that is expected to be refused; -> None | the exception"""
        e = self.do(stmt)
        self.lines[-1] = f"try:\n    {stmt}\n    refused = False\nexcept Exception as e:\n    refused = True; print('refused:', type(e).__name__, e)"
        return e

    def text(self, tail=()):
        return "\n".join([*self.lines, *tail])


OPS = ("dumps", "inst", "write", "write-at")
NO_RAISE = ["fails = False  # reached only when the statement that raised no longer does"]


def fails_alone(script: str) -> bool:
    """does the script, executed in a namespace of its own, raise or end with `fails` set?"""
    import contextlib

    ns = {}
    try:
        with contextlib.redirect_stdout(io.StringIO()):
            exec(compile(script, "<recorded c05 script>", "exec"), ns)  # noqa: S102 - written by this module
    except Exception:  # noqa: BLE001
        return True
    return bool(ns.get("fails"))


class Enc:
    """the statements that encode one value: `main` is the encode call itself, `before` sets a stream up (write), `after`
    reads the produced bytes out into `got` (write: the bytes appended at the stream position, `head` the ones before it,
    `n` the return value)"""

    def __init__(self, ty, val, cs, op, rnd):
        T, X = tyexpr(ty, cs), pyexpr(val, cs)
        is_rec = val[0] == "rec"
        self.before, self.after, self.pre = [], [], None
        can_inst = is_rec or ty[0] in ("int", "flt", "leb") or (ty[0] == "arr" and ty[1][0] in ("int", "flt", "leb", "enum", "sub"))
        if op == "inst" and not can_inst:
            op = "dumps"
        self.op = op
        if op == "inst":
            self.main = f"got = {X}.dumps()" if is_rec else f"got = {T}({X}).dumps()"
        elif op == "dumps":
            self.main = f"got = {T}.dumps({X})"
        else:
            self.pre = bytes(rnd.randrange(256) for _ in range(rnd.randint(1, 9))) if op == "write-at" else b""
            self.before = [f"s = BytesIO(); p = s.write({self.pre!r})"]
            self.main = f"n = {X}.write(s)" if is_rec and rnd.random() < 0.5 else f"n = {T}.write(s, {X})"
            self.after = ["got = s.getvalue()[p:]; head = s.getvalue()[:p]"]


def run(R, rnd, tier):
    """R: the Runner of props/c05 (res, violation, ask, cfg, dc)"""
    res, dc = R.res, R.dc
    g = G(rnd)
    trials = 260 if tier == "quick" else 4000
    families = ["fixed", "arb", "alias", "flt", "char", "wchar", "leb", "array", "struct"]
    fault_kinds = ["int-array", "int-array", "leb-array", "struct", "struct", "struct-array", "mixed-array", "scalar", "short-read"]

    history, confirmed = [], [0]

    def viol(what, sc, tail, **data):
        """report; the recorded script must fail by itself: when the trial alone does not (the library carried something over
        from an earlier trial of this run), the scripts of the preceding trials are put in front of it"""
        script = sc.text(tail)
        if confirmed[0] < 12:
            confirmed[0] += 1
            if not fails_alone(script):
                for b in range(1, len(history) + 1):
                    cand = "\n".join([*history[-b:], script])
                    if fails_alone(cand):
                        script = cand
                        what += f" [the trial alone does not show it: the script starts {b} trial(s) earlier, whose refused encode is the one that is still felt]"
                        break
                else:
                    what += " [the trial alone does not show it: state carried over from earlier trials of this run]"
        R.violation(what, {**data, "script": script})

    sc = None
    for t in range(trials):
        if sc is not None:
            history.append(sc.text())
            del history[:-6]
        e, e_other = rnd.choice("<>!"), rnd.choice("<>!")
        sc = Script(dc)
        ex = sc.do(f"cs = cstruct(endian={e!r}); other = cstruct(endian={e_other!r})")
        if ex is not None:
            viol(f"cstruct(endian=...) raised {type(ex).__name__}: {ex}", sc, NO_RAISE, endian=e)
            continue
        endian = {"cs": e, "other": e_other}
        compiled, align = rnd.random() < 0.5, rnd.random() < 0.4
        g.nsub = 0
        fields = g.fields(rnd.randint(2, 5))
        S = ("sub", fields, "S")
        defn = ENUM_DEF + render(fields, "S")
        ex = sc.do(f"cs.load({defn!r}, compiled={compiled}, align={align})")
        if ex is not None:
            viol(f"a definition of scalar members could not be loaded: {type(ex).__name__}: {ex}", sc, NO_RAISE, definition=defn,
                 compiled=compiled, align=align)
            continue
        s_array_ok = not (align and has_leb(S))  # (an aligned variable-size structure inside an array: known finding F43's territory)

        # ---- the faults
        faults = []
        for _ in range(1 if rnd.random() < 0.75 else 2):
            kind = rnd.choice(fault_kinds)
            if kind == "struct-array" and not s_array_ok:
                kind = "struct"
            judged, model, enc_ = False, None, None
            if kind in ("int-array", "leb-array", "mixed-array"):
                if kind == "int-array":
                    et = ("int", g.int_name())
                elif kind == "leb-array":
                    et = ("leb", rnd.choice(["uleb128", "uleb128", "ileb128"]))
                else:
                    et = rnd.choice([("flt", "float"), ("flt", "float16"), ("wchar",), ("enum",), ("arr", ("int", rnd.choice(g.arb)), 2)])
                ty = ("arr", et, rnd.randint(2, 6) if (rnd.random() < 0.8 or et[0] == "arr") else None)
                val, judged = g.bad(ty)
                enc_ = Enc(ty, val, "cs", rnd.choice(OPS[:3]), rnd)
                model = (ty, val, False)
            elif kind == "struct":
                val, judged = g.bad_rec("S", fields)
                enc_ = Enc(S, val, "cs", rnd.choice(OPS[:3]), rnd)
                model = (S, val, align)
            elif kind == "struct-array":
                n = rnd.randint(2, 3)
                bad, judged = g.bad_rec("S", fields)
                vs = [g.good_rec("S", fields) for _ in range(n)]
                vs[rnd.randrange(1, n)] = bad
                enc_ = Enc(("arr", S, n), ("list", vs, b""), "cs", rnd.choice(("dumps", "write")), rnd)
            elif kind == "scalar":
                ty = g.scalar_ty(rnd.choice(["fixed", "arb", "alias", "leb", "flt"]))
                val, judged = g.bad(ty)
                enc_ = Enc(ty, val, "cs", rnd.choice(OPS[:3]), rnd)
                model = (ty, val, False)
            if enc_ is not None:
                for s in enc_.before:
                    sc.do(s)
                body = enc_.main
            else:  # a read that ends early (its own stream; nothing of it may be seen by later writes either)
                ty = ("arr", ("int", g.int_name()), rnd.randint(2, 4))
                full = enc(g.good(ty), "little")
                body = f"{tyexpr(ty, 'cs')}(bytes.fromhex({full[:rnd.randrange(1, len(full))].hex()!r}))"
            exc = sc.attempt(body)
            faults.append((kind, body, None if exc is None else type(exc).__name__))
            res.feat(f"after-fault:fault={kind}:{'refused' if exc is not None else 'accepted'}")
            if judged and exc is None:
                viol(f"endian {e!r}: {body} has a part that does not fit its type but the value was accepted, not refused", sc, ["fails = not refused"],
                     endian=e, definition=defn, compiled=compiled, align=align, fault=body)
            if model is not None and exc is not None and judged and expressible(model[1]):
                R.ask(sx([A("write"), R.cfg(e), ty_sexp(model[0], model[2]), val_sexp(model[1])]),
                      ("write", ("after-fault", body, e), ("err", impl.err_class(exc))))

        # ---- the endianness may change between the refused encode and the next one
        if rnd.random() < 0.2:
            e2 = rnd.choice("<>!")
            ex = sc.do(f"cs.endian = {e2!r}")
            if ex is not None:
                viol(f"assigning cs.endian raised {type(ex).__name__}: {ex}", sc, NO_RAISE, endian=e2)
                continue
            endian["cs"] = e2
            res.feat("after-fault:endian-switched")

        # ---- the following encodes are the standard ones
        after = " after " + " and ".join(f"{b} raised {r}" if r else f"{b} (accepted)" for _, b, r in faults)
        for j in range(rnd.randint(1, 3)):
            fam = families[t % len(families)] if j == 0 else rnd.choice(families)
            where = "cs" if fam == "struct" else rnd.choice(["cs", "cs", "other", "fresh"])
            if where == "fresh":
                ef = rnd.choice("<>!")
                ex = sc.do(f"fresh = cstruct(endian={ef!r})")
                if ex is not None:
                    viol(f"cstruct(endian=...) raised {type(ex).__name__}: {ex}", sc, NO_RAISE, endian=ef)
                    break
                endian["fresh"] = ef
            ecur = endian[where]
            order = ORDER[ecur]
            al = False
            if fam == "struct":
                ty, val, al = S, g.good_rec("S", fields), align
            elif fam == "array":
                ty = ("arr", g.scalar_ty(rnd.choice(["fixed", "arb", "alias", "flt", "leb", "char", "wchar"])), rnd.randint(1, 5) if rnd.random() < 0.8 else None)
                val = g.good(ty)
            else:
                ty = g.scalar_ty(fam)
                val = g.good(ty)
            want = enc(val, order, al)
            op = rnd.choice(OPS)
            if al and op == "write-at":
                op = "write"  # (an aligned structure written at a misaligned stream position: known finding F43's territory)
            en = Enc(ty, val, where, op, rnd)
            shown = en.main
            res.count(("after-fault", tuple(f[1] for f in faults), where, ecur, shown))
            for k in (f"probe={fam}", f"on={where}", f"op={en.op}", f"compiled={compiled}:align={align}", f"endian={ecur}"):
                res.feat("after-fault:" + k)
            exc = None
            for s in [*en.before, en.main, *en.after]:
                exc = sc.do(s)
                if exc is not None:
                    break
            ctx = dict(endian=ecur, instance=where, definition=defn, compiled=compiled, align=align,
                       faults=[{"kind": k, "statement": b, "raised": r} for k, b, r in faults], probe=shown, expected=want.hex())
            if exc is not None:
                viol(f"endian {ecur!r}: {shown} raised {type(exc).__name__}: {exc}{after}; the standard encoding is {want.hex()}", sc,
                     NO_RAISE, **ctx)
                break
            got = sc.ns.get("got")
            if got != want:
                viol(f"endian {ecur!r}: {shown} gives {got.hex() if isinstance(got, bytes) else repr(got)}{after}; the standard encoding is {want.hex()}",
                     sc, [f"want = bytes.fromhex({want.hex()!r})", "print(got.hex(), want.hex()); fails = got != want"], **ctx)
                break
            # write(): the bytes in front of the stream position are untouched; the return value is the number of bytes written.
            # (Not for structures: Structure.write() returns the sum of its non-bit-field members' sizes, leaving out alignment
            # padding and bit-field units - e.g. `struct S { uint8 a; uint32 b; }` aligned: 8 bytes written, 5 returned.  The return
            # value of a structure write is not a scalar codec and not part of C05, so it is not judged here.)
            n_ok = val[0] == "rec" or sc.ns.get("n") == len(want)
            if en.pre is not None and (not n_ok or sc.ns.get("head") != en.pre):
                viol(f"endian {ecur!r}: {shown} returned {sc.ns.get('n')!r} for {len(want)} bytes written, or changed the bytes in front of the stream "
                     f"position{after}", sc, [f"fails = {'' if val[0] == 'rec' else f'n != {len(want)} or '}head != {en.pre!r}"], **ctx)
                break
            # decoding the reference bytes gives the value back (scalars)
            if ty[0] in ("int", "flt", "char", "wchar", "leb"):
                exc = sc.do(f"back = {tyexpr(ty, where)}(bytes.fromhex({want.hex()!r}))")
                back = sc.ns.get("back")
                try:
                    same = exc is None and {"int": lambda: int(back) == val[2], "leb": lambda: int(back) == val[2], "char": lambda: bytes(back) == val[1],
                                            "wchar": lambda: str(back) == val[1],
                                            "flt": lambda: struct.pack(">" + FCH[ty[1]][0], back) == val[2].to_bytes(FCH[ty[1]][1], "big")}[ty[0]]()
                except Exception:  # noqa: BLE001
                    same = False
                if not same:
                    viol(f"endian {ecur!r}: {tyexpr(ty, where)}({want.hex()}) gives {back!r}{after}; expected {pyexpr(val, where)}", sc,
                         [f"fails = back != {pyexpr(val, where)}"], **ctx)
                    break
            if expressible(val):
                if ty[0] == "leb":
                    R.ask(sx([A("leb-write"), int(ty[1] == "ileb128"), val[2]]), ("leb-write", ("after-fault", shown), ("ok", want)))
                else:
                    R.ask(sx([A("write"), R.cfg("<" if order == "little" else ">"), ty_sexp(ty, al), val_sexp(val)]),
                          ("write", ("after-fault", shown, ecur), ("ok", want)))
    res.sample({"after-fault": "cs.uint24[2].dumps([1, 1073741824]) raises OverflowError; then cs.uint32.dumps(16909060)", "endian": "<", "bytes": "04030201"})


def replay_script(body) -> int | None:
    """re-execute the recorded script of an after-fault case; -> 1 still fails | 0 no longer | None not such a case"""
    script = (body.get("case") or {}).get("script")
    if not script:
        return None
    impl.dc()  # /repo's working tree first on sys.path
    return 1 if fails_alone(script) else 0
