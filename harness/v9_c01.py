"""Helpers for the C01 check (round 9): BIT-FIELD RUNS THAT CHANGE STORAGE TYPE WITHOUT CHANGING SIZE, walked through the public
entry points.

The definition generator of the other families (defs.Gen) draws ONE storage type per run of bit-fields; two runs of different types of
the same width next to each other, the first one leaving its unit partly filled, hardly ever come up.  But "does this bit-field start a
new storage unit" is decided in four places of the library - the size / offset calculation, the writer, the interpreted reader and the
source the compiler generates for the compiled reader - and each of them compares storage TYPES, not widths.  When the four do not
agree about two types of one width (uint8 / int8 / char / an enum or a flag over uint8 ...), dumps(v) and the parse of it take a
different number of units: stale bits come back, everything behind the run is read early and fewer bytes are consumed than written.

  definitions  struct { [ordinary / dynamically sized members] RUN [ordinary members] }, where RUN is 2..5 segments of 1..3 bit-fields.
               All segments of a run have storage types of ONE width class (8: uint8 int8 char; 16: uint16 int16; 24; 32; 48; 64; 128),
               as plain types, enums and flags over them; from one segment to the next the storage type changes to another type of the
               same width (mostly), to another SPELLING or kind of the same type (uint8 -> BYTE -> a user typedef -> an enum / flag over
               uint8: the unit must be continued), rarely to another width, and now and then an ordinary member sits between two
               segments.  Most segments leave their unit partly filled, some fill it exactly, some run over into a second unit.  The
               run is followed by ordinary members (integers, chars, enums, small arrays) whose values show a reader that is off.
               Every type is spelled with its canonical name, a built-in alias read off the live type table, or a user typedef.
  positions    the structure on its own, or as a named member, an array element or an anonymous member of an outer structure
               (written inline or as a named definition of its own that the outer structure refers to).
  entry points the definition comes in through cs.load (token parser), cs.loadfile (a real file), the legacy parser (DEF_LEGACY; flat
               packed definitions only - it has no alignment flag and no nested bodies), or the API (cs._make_struct from Field
               objects / T.add_field one by one, compiler.compile, cs.add_type); interpreted and compiled; packed and aligned; byte
               order given as '<' '>' '!' '@' '='; every pointer width.
  values       (a) parsed from arbitrary bytes, (b) constructed from keyword arguments: bit-fields at 0, all ones, the top bit alone,
               alternating patterns and random numbers (plain ints, instances of the storage type, enum / flag instances), ordinary
               members at the edges of their type.
  predicates   evaluated by the caller's check_roundtrip / check_constructed (props/c01.py: parse(dumps(v)) == v, consumed ==
               len(dumps(v)), model write / read compared), and here once more on the same value through the other public calling
               conventions: dumps by v.dumps() / T.dumps(v) / v.write(stream) / T.write(stream, v) (also into a stream that stands at
               offset 3 or 32); parse of the dump (followed by foreign bytes) by T(x) / T.read(x) / cs.read(name, x) with x a bytes /
               bytearray / memoryview / BytesIO / real file object / BufferedReader, by T.reads(x), and by T.read of a stream that
               stands at offset 3 or 32 - every one must return v, and the stream ones must stop at len(dumps(v)).
  refusals     a bit-field of the run set to 2**bits, 2**bits + 1, 2**width or -1 must make dumps raise (nothing may spill into the
               neighbouring field or the neighbouring unit).

Restrictions (documented, not silenced): aligned structures with a run on a 24 / 48 bit storage type are known finding F23 (classified
by that signature); an ALIGNED structure written or read at stream offset 3 pads by the absolute stream position, which is known
finding F43 (classified by that signature; offset 32, a multiple of every alignment, is checked strictly, and so is offset 3 for packed
structures); default-constructed instances are not used (F53: the default of a char bit-field is a bytes object).
"""
from __future__ import annotations

import io
import os
import random
import sys
import tempfile

from . import defs, impl, refimpl, u1_arrays
from .common import A

# ------------------------------------------------------------------------------------------------ storage types

CLASSES = {8: ["uint8", "int8", "char"], 16: ["uint16", "int16"], 24: ["uint24", "int24"], 32: ["uint32", "int32"],
           48: ["uint48", "int48"], 64: ["uint64", "int64"], 128: ["uint128", "int128"]}
WIDTH_WEIGHTS = [8] * 9 + [16] * 6 + [32] * 3 + [64] * 2 + [24] * 2 + [48, 128]
WIDTH_OF = {t: w for w, ts in CLASSES.items() for t in ts}
ENUMS: dict[str, tuple] = {}          # name -> (kind, base, members)
for _w, _ts in CLASSES.items():
    for _t in _ts:
        if _t == "char":
            continue
        ENUMS[f"R9E_{_t}"] = ("enum", _t, [("A", 1), ("B", 2), ("M", (1 << (_w - 1)) - 1)])
        ENUMS[f"R9F_{_t}"] = ("flag", _t, [("X", 1), ("Y", 2), ("T", 1 << (_w - 2))])
TYPEDEFS = {f"R9T_{t}": t for t in WIDTH_OF}                       # user typedefs of the plain types
TYPEDEFS.update({f"R9TE_{t}": f"R9E_{t}" for t in ("uint8", "int8", "uint16", "int16", "uint32")})   # ... and of some enums


def preamble(tree=None) -> str:
    """the enums / flags / typedefs a definition mentions (all of them when no tree is given), in dependency order"""
    used = None
    if tree is not None:
        used = set()

        def walk(ty):
            if ty[0] == "arr":
                walk(ty[1])
            elif ty[0] == "struct":
                for f in ty[1]:
                    if f.get("spell"):
                        used.add(f["spell"])
                    walk(f["ty"])
            else:
                used.add(ty[1])

        walk(tree)
        used |= {TYPEDEFS[n] for n in used if n in TYPEDEFS}
    out = []
    for name, (kind, base, members) in ENUMS.items():
        if used is None or name in used:
            out.append(f"{kind} {name} : {base} {{ " + ", ".join(f"{name}_{m} = {v}" for m, v in members) + " };")
    for name, target in TYPEDEFS.items():
        if used is None or name in used:
            out.append(f"typedef {target} {name};")
    return "\n".join(out) + "\n"


def spellings(canon: str, *, one_token=False):
    """the names under which the live type table knows a plain type, and our typedef of it"""
    t = u1_arrays.table()
    out = [n for n, c in t.items() if c == canon] or [canon]
    out.append(f"R9T_{canon}")
    if one_token:
        out = [n for n in out if " " not in n]
    return out


def storage(rnd: random.Random, canon: str, *, one_token=False):
    """a way to write a bit-field's storage type whose unit is `canon`'s: -> (tree type, spelling)"""
    k = rnd.random()
    if canon != "char" and k < 0.22:
        return ("enum", f"R9E_{canon}"), (f"R9TE_{canon}" if f"R9TE_{canon}" in TYPEDEFS and rnd.random() < 0.3 else f"R9E_{canon}")
    if canon != "char" and k < 0.36:
        return ("enum", f"R9F_{canon}"), f"R9F_{canon}"
    if k < 0.7:
        return ("sc", canon), canon
    return ("sc", canon), rnd.choice(spellings(canon, one_token=one_token))


def F(name, ty, bits=None, spell=None):
    return {"name": name, "ty": ty, "bits": bits, "spell": spell}


def ident(ty) -> str:
    """the storage type that decides about units: an enum's / flag's underlying type, a plain type itself"""
    return ENUMS[ty[1]][1] if ty[0] == "enum" else ty[1]


# ------------------------------------------------------------------------------------------------ definitions

ORDINARY = [("sc", "uint8"), ("sc", "uint8"), ("sc", "int8"), ("sc", "char"), ("sc", "uint16"), ("sc", "int16"), ("sc", "uint32"),
            ("enum", "R9E_uint8"), ("enum", "R9E_int16"), ("enum", "R9F_uint16"),
            ("arr", ("sc", "char"), ("fixed", 2)), ("arr", ("sc", "uint8"), ("fixed", 3)), ("arr", ("sc", "uint16"), ("fixed", 2)),
            ("arr", ("sc", "int8"), ("fixed", 1))]


class RunGen:
    def __init__(self, rnd: random.Random, *, flat=False, one_token=False):
        self.rnd, self.n, self.flat, self.one_token = rnd, 0, flat, one_token
        self.stats = {"type-change-in-partly-filled-unit": 0, "spelling-change-continues-unit": 0, "width-change": 0,
                      "unit-filled-exactly": 0, "member-between-segments": 0, "char-next-to-8-bit-integer": 0}

    def name(self, p="f"):
        self.n += 1
        return f"{p}{self.n}"

    def ordinary(self):
        ty = self.rnd.choice(ORDINARY)
        inner = defs.innermost(ty)
        sp = None
        if inner[0] == "sc" and ty[0] == "sc" and self.rnd.random() < 0.3:
            sp = self.rnd.choice(spellings(inner[1], one_token=self.one_token))
        return F(self.name(), ty, None, sp)

    def run(self):
        """the bit-fields (and, rarely, members between them) of one run"""
        r = self.rnd
        width = r.choice(WIDTH_WEIGHTS)
        out = []
        unit, remaining = None, 0           # the unit the library's rule has open: (identity, bits left)
        prev = None
        for s in range(r.randint(2, 5)):
            if s and r.random() < 0.1:
                width = r.choice([w for w in (8, 16, 32, 64) if w != width])
                self.stats["width-change"] += 1
            if s and r.random() < 0.1:
                out.append(self.ordinary())
                unit, remaining, prev = None, 0, None
                self.stats["member-between-segments"] += 1
            cands = CLASSES[width]
            if prev is not None and prev in cands and r.random() < 0.22:
                canon = prev                 # same storage type, written differently: the unit goes on
            else:
                canon = r.choice([c for c in cands if c != prev] or cands)
            for i in range(r.randint(1, 3)):
                ty, sp = storage(r, canon, one_token=self.one_token)
                if unit != canon or remaining == 0:
                    if unit is not None and unit != canon and remaining and WIDTH_OF[unit] == width:
                        self.stats["type-change-in-partly-filled-unit"] += 1
                        if "char" in (unit, canon):
                            self.stats["char-next-to-8-bit-integer"] += 1
                    unit, remaining = canon, width
                elif prev == canon and i == 0:
                    self.stats["spelling-change-continues-unit"] += 1
                k = r.random()
                if k < 0.2 or remaining == 1:
                    b = remaining
                elif k < 0.5:
                    b = r.randint(1, min(remaining - 1, 7))
                else:
                    b = r.randint(1, remaining - 1)
                remaining -= b
                if remaining == 0:
                    self.stats["unit-filled-exactly"] += 1
                out.append(F(self.name(), ty, b, sp))
            prev = canon
        return out

    def struct(self):
        r = self.rnd
        fs = []
        lead = r.random()
        if lead < 0.5:
            fs += [self.ordinary() for _ in range(r.randint(1, 2))]
        elif lead < 0.62 and not self.flat:
            # a dynamically sized member in front: the run's offsets are not known statically
            if r.random() < 0.6:
                cnt = self.name()
                fs.append(F(cnt, ("sc", "uint8")))
                fs.append(F(self.name(), ("arr", ("sc", r.choice(["uint8", "uint16", "char"])), ("expr", f"{cnt} & 3"))))
            else:
                fs.append(F(self.name(), ("arr", ("sc", r.choice(["char", "uint8", "uint16"])), ("null",))))
        fs += self.run()
        fs += [self.ordinary() for _ in range(r.randint(1, 3))]
        if r.random() < 0.15:
            fs += self.run()                 # a second run, behind ordinary members
            if r.random() < 0.7:
                fs.append(self.ordinary())
        return ("struct", fs)

    def tree(self):
        """-> (tree, inner, position): the run structure on its own or inside an outer structure"""
        r = self.rnd
        inner = self.struct()
        k = r.random()
        if self.flat or k < 0.6:
            return inner, inner, "top"
        fs = [self.ordinary()] if r.random() < 0.6 else []
        if k < 0.75:
            fs.append(F(self.name("m"), inner))
            pos = "member"
        elif k < 0.9:
            fs.append(F(self.name("m"), ("arr", inner, ("fixed", r.randint(1, 3)))))
            pos = "array-element"
        else:
            fs.append(F(None, inner))
            pos = "anonymous-member"
        if r.random() < 0.7:
            fs.append(self.ordinary())
        return ("struct", fs), inner, pos


def is_dynamic(ty) -> bool:
    if ty[0] == "arr":
        return ty[2][0] != "fixed" or is_dynamic(ty[1])
    if ty[0] == "struct":
        return any(is_dynamic(f["ty"]) for f in ty[1])
    return False


def small_units(ty) -> bool:
    """a run on a storage type whose size is smaller than its alignment (24 / 48 bits): known finding F23 in aligned structures"""
    if ty[0] == "arr":
        return small_units(ty[1])
    if ty[0] != "struct":
        return False
    return any((f["bits"] and WIDTH_OF[ident(f["ty"])] in (24, 48)) or small_units(f["ty"]) for f in ty[1])


# ------------------------------------------------------------------------------------------------ rendering

def render_field(f, *, legacy=False, refs=None):
    ty = f["ty"]
    dims = []
    while ty[0] == "arr":
        l = ty[2]
        dims.append({"fixed": lambda: str(l[1]), "expr": lambda: l[1], "null": lambda: ""}[l[0]]())
        ty = ty[1]
    suffix = "".join(f"[{d}]" for d in dims)
    if ty[0] == "struct":
        if refs is not None and id(ty) in refs:
            return f"{refs[id(ty)]} {f['name']}{suffix};"
        body = " ".join(render_field(g, refs=refs) for g in ty[1])
        return f"struct {{ {body} }};" if f["name"] is None else f"struct {{ {body} }} {f['name']}{suffix};"
    tname = f.get("spell") or ty[1]
    bits = "" if not f["bits"] else (f":{f['bits']}" if legacy else f" : {f['bits']}")
    return f"{tname} {f['name']}{suffix}{bits};"


def render_struct(name, tree, *, legacy=False, refs=None) -> str:
    body = "\n  ".join(render_field(f, legacy=legacy, refs=refs) for f in tree[1])
    return f"struct {name} {{\n  {body}\n}};\n"


def ty_sexp(tree, T, aligned):
    """the model's type (impl.real_ty_sexp) for trees that mention this module's enums; spellings do not matter to the model"""
    k = tree[0]
    if k == "enum" and tree[1] in ENUMS:
        kind, base, _ = ENUMS[tree[1]]
        return [A(kind), base]
    if k in ("sc", "enum"):
        return impl.real_ty_sexp(tree, T, aligned)
    if k == "arr":
        l = tree[2]
        ls = {"fixed": lambda: [A("fixed"), l[1]], "expr": lambda: [A("expr"), l[1]], "null": lambda: A("null"), "eof": lambda: A("eof")}[l[0]]()
        return [A("arr"), ty_sexp(tree[1], getattr(T, "type", T), aligned), ls]
    fs = []
    for f, rf in zip(tree[1], T.__fields__):
        fs.append([A("f"), rf._name, 1 if f["name"] is None else 0, ty_sexp(f["ty"], rf.type, aligned), f["bits"] or 0])
    return [A(k), 1 if aligned else 0, fs]


# ------------------------------------------------------------------------------------------------ loading: the definition entry points

WAYS = ["load", "load", "loadfile", "legacy", "api", "add_field"]
ENDIANS = ["<", ">", "<", ">", "!", "@", "="]


def effective(endian: str) -> str:
    if endian in ("@", "="):
        return "<" if sys.byteorder == "little" else ">"
    return ">" if endian == "!" else endian


def resolve_field_type(cs, f, subtypes):
    ty = f["ty"]
    dims = []
    while ty[0] == "arr":
        dims.append(ty[2])
        ty = ty[1]
    if ty[0] == "struct":
        t = subtypes[id(ty)]
    else:
        t = cs.resolve(f.get("spell") or ty[1])
    m = impl.dc()
    for l in reversed(dims):
        if l[0] == "fixed":
            t = t[l[1]]
        elif l[0] == "null":
            t = t[None]
        else:
            t = t[m.expression.Expression(cs, l[1])] if u1_arrays._expr_takes_cs() else t[m.expression.Expression(l[1])]
    return t


def type_code(f, subnames) -> str:
    """the Python expression (for the replay script) that resolve_field_type evaluates"""
    ty = f["ty"]
    dims = []
    while ty[0] == "arr":
        dims.append(ty[2])
        ty = ty[1]
    code = subnames[id(ty)] if ty[0] == "struct" else f"cs.resolve({(f.get('spell') or ty[1])!r})"
    for l in reversed(dims):
        code += f"[{l[1]}]" if l[0] == "fixed" else "[None]" if l[0] == "null" else f"[Expression(cs, {l[1]!r})]"
    return code


def load_way(sess: impl.Session, tree, inner, way: str, *, compiled: bool, align: bool, tmpdir: str, tag: str):
    """bring the definition in through one of the entry points -> Loaded view.  The enums / flags / typedefs the definition mentions
    come in the same text (load, loadfile) or by a cs.load call of their own in front (legacy parser, API)"""
    m = impl.dc()
    cs = sess.cs
    name = "T"
    refs = None
    pre = preamble(tree)
    if way not in ("load", "loadfile") and pre.strip():
        sess.load_text(pre)
    text = render_struct(name, tree)
    if way in ("load", "loadfile") and inner is not tree and not any(f["name"] is None for f in tree[1]) and tag.endswith("r"):
        # the inner structure as a named definition of its own, referred to by the outer one
        refs = {id(inner): "R9B"}
        text = render_struct("R9B", inner) + render_struct(name, tree, refs=refs)
    if way in ("load", "loadfile"):
        text = pre + text
    if way == "load":
        sess.load_text(text, compiled=compiled, align=align)
    elif way == "loadfile":
        path = os.path.join(tmpdir, f"def_{tag}.h")
        with open(path, "w") as fh:
            fh.write(text)
        sess.note(f"import os, tempfile; p = os.path.join(tempfile.mkdtemp(), 'def.h'); open(p, 'w').write({text!r}); "
                  f"cs.loadfile(p, compiled={compiled}, align={align})")
        try:
            cs.loadfile(path, compiled=compiled, align=align)
        finally:
            os.unlink(path)
    elif way == "legacy":
        text = render_struct(name, tree, legacy=True)
        sess.note(f"cs.load({text!r}, deftype=cs.DEF_LEGACY, compiled={compiled})")
        cs.load(text, deftype=m.cstruct.DEF_LEGACY, compiled=compiled)
    else:
        from dissect.cstruct import compiler
        from dissect.cstruct.types.structure import Field

        sess.note("from dissect.cstruct import compiler; from dissect.cstruct.types.structure import Field; from dissect.cstruct.expression import Expression")
        subtypes, subnames = {}, {}
        counter = [0]

        def make(t, nm, anonymous=False):
            fields = []
            for f in t[1]:
                sub = defs.innermost(f["ty"])
                if sub[0] == "struct":
                    counter[0] += 1
                    subnames[id(sub)] = f"R9S{counter[0]}"
                    subtypes[id(sub)] = make(sub, subnames[id(sub)], anonymous=f["name"] is None)
                fields.append((f["name"], resolve_field_type(cs, f, subtypes), f["bits"]))
            if way == "api":
                sess.note(f"{nm} = cs._make_struct({nm!r}, [" + ", ".join(f"Field({n!r}, {type_code(g, subnames)}, bits={b})" for (n, _, b), g in zip(fields, t[1]))
                          + f"], align={align}" + (", anonymous=True)" if anonymous else ")"))
                S = cs._make_struct(nm, [Field(n, ft, bits=b) for n, ft, b in fields], align=align, anonymous=anonymous)
                if compiled:
                    sess.note(f"{nm} = compiler.compile({nm})")
                    S = compiler.compile(S)
            else:
                sess.note(f"{nm} = cs._make_struct({nm!r}, [], align={align}" + (", anonymous=True)" if anonymous else ")"))
                S = cs._make_struct(nm, [], align=align, anonymous=anonymous)
                if compiled:
                    sess.note(f"{nm} = compiler.compile({nm})")
                    S = compiler.compile(S)
                for (n, ft, b), g in zip(fields, t[1]):
                    sess.note(f"{nm}.add_field({n!r}, {type_code(g, subnames)}, bits={b})")
                    S.add_field(n, ft, bits=b)
            return S

        T = make(tree, name)
        sess.note(f"cs.add_type({name!r}, {name}, replace=True)")
        cs.add_type(name, T, replace=True)
    L = sess.view(tree, name, text=text, compiled=compiled, align=align)
    L.endian = effective(sess.endian)
    L.ty_sexp = lambda tree=tree, L=L, align=align: ty_sexp(tree, L.T, align)
    return L


# ------------------------------------------------------------------------------------------------ values

def bit_value(rnd: random.Random, b: int) -> int:
    top = (1 << b) - 1
    k = rnd.random()
    if k < 0.3:
        return top
    if k < 0.4:
        return 0
    if k < 0.5:
        return 1 << (b - 1)
    if k < 0.6:
        return top & 0x5555555555555555555555555555555555
    if k < 0.7:
        return top & 0xAAAAAAAAAAAAAAAAAAAAAAAAAAAAAAAAAA
    return rnd.randint(0, top)


def scalar_value(rnd, ty, *, nonzero=False):
    if ty == ("sc", "char"):
        return bytes([rnd.choice([0x41, 0xFF, 0x80, 0x7F, 0x01] + ([] if nonzero else [0x00]))])
    _, size, signed, _ = refimpl.sc(ident(ty))
    bits = 8 * size
    lo, hi = (-(1 << (bits - 1)), (1 << (bits - 1)) - 1) if signed else (0, (1 << bits) - 1)
    if ty[0] == "enum" and ENUMS[ty[1]][0] == "flag":
        lo = 0                               # (IntFlag folds negative values: C12's finding F22, not this property's business)
    for _ in range(8):
        v = rnd.choice([lo, hi, 1, 2, hi - 1, hi // 2 + 1, rnd.randint(lo, hi), rnd.randint(lo, hi)])
        if v or not nonzero:
            return v
    return 1


def gen_value(rnd, tree):
    """{member index: plain Python value}; nested structures dicts, arrays lists / bytes"""
    out = {}
    names = {f["name"]: i for i, f in enumerate(tree[1])}
    for i, f in enumerate(tree[1]):
        out[i] = bit_value(rnd, f["bits"]) if f["bits"] else _gen(rnd, f["ty"], out, names)
    return out


def _gen(rnd, ty, sofar, names):
    if ty[0] in ("sc", "enum"):
        return scalar_value(rnd, ty)
    if ty[0] == "struct":
        return gen_value(rnd, ty)
    l = ty[2]
    if l[0] == "fixed":
        n = l[1]
    elif l[0] == "expr":
        n = rnd.randint(0, 3)
        cnt = l[1].split()[0]
        sofar[names[cnt]] = n + 4 * rnd.randrange(0, 64)
    else:
        n = rnd.choice([0, 1, 2, 3, 5])
    vals = [(_gen(rnd, ty[1], sofar, names) if l[0] != "null" else scalar_value(rnd, ty[1], nonzero=True)) for _ in range(n)]
    return b"".join(vals) if ty[1] == ("sc", "char") else vals


class Folded(Exception):
    pass


def build(rnd, T, tree, val, *, typed=0.2):
    kw = {}
    for i, (f, rf) in enumerate(zip(tree[1], T.__fields__)):
        kw[rf._name] = _build(rnd, rf.type, f["ty"], val[i], typed, bool(f["bits"]))
    return T(**kw)


def _build(rnd, rt, ty, v, typed, bits=False):
    k = ty[0]
    if k == "struct":
        return build(rnd, rt, ty, v, typed=typed)
    if k == "arr":
        return v if isinstance(v, bytes) else [_build(rnd, rt.type, ty[1], x, typed) for x in v]
    if k == "enum":
        e = rt(v)
        if int(e.value) != v:
            # IntFlag folds a value it cannot represent (a negative number) onto the defined bits: C12's finding F22, and the instance
            # no longer holds the number that was asked for - nothing for this property to say about it
            raise Folded(f"{rt.__name__}({v}) holds {int(e.value)}")
        return e
    if ty[1] != "char" and rnd.random() < typed:
        return rt(v)
    return v


def show(tree, val) -> str:
    def one(ty, v):
        if ty[0] == "struct":
            return "{" + ", ".join(f"{f['name'] or '<anonymous>'}: {one(f['ty'], v[i])}" for i, f in enumerate(ty[1])) + "}"
        if ty[0] == "arr" and not isinstance(v, bytes):
            return "[" + ", ".join(one(ty[1], x) for x in v) + "]"
        return repr(v)
    return ", ".join(f"{f['name'] or '<anonymous>'}={one(f['ty'], val[i])}" for i, f in enumerate(tree[1]))


def bit_leaves(tree, val, p=""):
    """(container, key, bits, width of the storage type, path) of every bit-field of a value"""
    out = []
    for i, f in enumerate(tree[1]):
        path = f"{p}{f['name'] or '<anonymous>'}"
        ty = f["ty"]
        if f["bits"]:
            out.append((val, i, f["bits"], WIDTH_OF[ident(ty)], path))
        elif ty[0] == "struct":
            out += bit_leaves(ty, val[i], path + ".")
        elif ty[0] == "arr" and ty[1][0] == "struct":
            for j, x in enumerate(val[i]):
                out += bit_leaves(ty[1], x, f"{path}[{j}].")
    return out


# ------------------------------------------------------------------------------------------------ the calling conventions

class Files:
    """one real file (and its directory), reused for every parse through a file object"""

    def __init__(self):
        self.dir = tempfile.mkdtemp(prefix="v9c01-")
        self.path = os.path.join(self.dir, "data.bin")

    def open(self, data: bytes):
        with open(self.path, "wb") as fh:
            fh.write(data)
        return open(self.path, "rb")

    def close(self):
        try:
            if os.path.exists(self.path):
                os.unlink(self.path)
            for n in os.listdir(self.dir):
                os.unlink(os.path.join(self.dir, n))
            os.rmdir(self.dir)
        except OSError:
            pass


def _w1(T, v):
    s = io.BytesIO()
    v.write(s)
    return s.getvalue()


def _w2(T, v):
    s = io.BytesIO()
    T.write(s, v)
    return s.getvalue()


def _w_at(n):
    def fn(T, v):
        s = io.BytesIO(b"\xAA" * n)              # not at the start of the stream
        s.seek(n)
        T.write(s, v)
        return s.getvalue()[n:]
    return fn


# (name, function, stream offset the value is written at)
DUMPERS = [("v.dumps()", lambda T, v: v.dumps(), 0), ("T.dumps(v)", lambda T, v: T.dumps(v), 0), ("v.write(BytesIO)", _w1, 0),
           ("T.write(BytesIO, v)", _w2, 0), ("T.write(BytesIO at offset 3, v)", _w_at(3), 3), ("T.write(BytesIO at offset 32, v)", _w_at(32), 32)]


def parsers(files: Files):
    """(label, function(cs, T, name, data) -> (value, consumed or None))"""
    def stream(mk, call):
        def fn(cs, T, name, data):
            s = mk(data)
            try:
                v = call(cs, T, name, s)
                return v, s.tell()
            finally:
                s.close()
        return fn

    def buf(conv, call):
        return lambda cs, T, name, data: (call(cs, T, name, conv(data)), None)

    def at(n):
        def fn(cs, T, name, data):
            s = io.BytesIO(b"\x55" * n + data)
            s.seek(n)
            v = T.read(s)
            return v, s.tell() - n
        return fn

    calls = {"T(%s)": lambda cs, T, name, x: T(x), "T.read(%s)": lambda cs, T, name, x: T.read(x),
             "cs.read('T', %s)": lambda cs, T, name, x: cs.read(name, x)}
    out = []
    for pat, call in calls.items():
        out.append((pat % "bytes", buf(bytes, call), 0))
        out.append((pat % "bytearray", buf(bytearray, call), 0))
        out.append((pat % "memoryview", buf(memoryview, call), 0))
        out.append((pat % "BytesIO", stream(io.BytesIO, call), 0))
        out.append((pat % "open(file, 'rb')", stream(files.open, call), 0))
        out.append((pat % "BufferedReader(BytesIO)", stream(lambda d: io.BufferedReader(io.BytesIO(d)), call), 0))
    out.append(("T.reads(bytes)", buf(bytes, lambda cs, T, name, x: T.reads(x)), 0))
    out.append(("T.reads(bytearray)", buf(bytearray, lambda cs, T, name, x: T.reads(x)), 0))
    out.append(("T.reads(memoryview)", buf(memoryview, lambda cs, T, name, x: T.reads(x)), 0))
    out.append(("T.read(BytesIO at offset 3)", at(3), 3))
    out.append(("T.read(BytesIO at offset 32)", at(32), 32))
    return out


def conventions(eng, res, rnd, L, obj, sigs0, *, key, what, files, pairs):
    """the property's predicate on one value through `pairs` drawn (dump convention, parse convention) pairs"""
    T, cs = L.T, L.cs
    try:
        v = impl.canon(obj)
    except Exception as e:  # noqa: BLE001
        eng.report(f"a value cannot be inspected ({type(e).__name__}: {str(e)[:120]}); it {what}", eng.case_data(L, constructed=what), sigs0)
        return
    allp = parsers(files)
    for _ in range(pairs):
        dl, dump, doff = rnd.choice(DUMPERS)
        pl, parse, poff = rnd.choice(allp)
        sigs = sigs0
        if L.align and 3 in (doff, poff):
            # an aligned structure written / read at a stream position that is not a multiple of its alignment: reader and writer
            # align by the absolute stream position (known finding F43) - classified by that signature, not skipped; the offset 32
            # conventions (a multiple of every alignment) are checked strictly
            sigs = sigs0 + ["F43"]
            res.feat("bit-runs:convention:aligned structure at stream offset 3 (F43 territory)")
        res.count((*key, "convention", dl, pl, repr(v)), True)
        res.feat("bit-runs:convention:" + dl)
        res.feat("bit-runs:convention:" + pl)
        cd = eng.case_data(L, value=str(v)[:400], constructed=what, dump_by=dl, parse_by=pl)
        cd["repro"] += f"\n# the value {what}\n# d = {dl}; back = {pl} applied to d + b'\\xee\\xee'"
        try:
            d = dump(T, obj)
        except Exception as e:  # noqa: BLE001
            eng.report(f"{dl} raised {type(e).__name__}: {str(e)[:120]} on a value that {what}", cd, sigs)
            continue
        if not isinstance(d, bytes):
            eng.report(f"{dl} returned {type(d).__name__}, not bytes", cd, sigs)
            continue
        try:
            back, used = parse(cs, T, T.__name__, d + b"\xEE\xEE")
        except Exception as e:  # noqa: BLE001
            eng.report(f"{pl} raised {type(e).__name__}: {str(e)[:120]} on dumps(v) = {d.hex()} (+ 2 foreign bytes), d by {dl}; v {what}", cd, sigs)
            continue
        try:
            cb = impl.canon(back)
            same = impl.same_val(v, cb, ignore_union_buf=True) and back == obj
        except Exception as e:  # noqa: BLE001
            cb, same = f"<{type(e).__name__} while inspecting the parsed value>", False
        if not same or (used is not None and used != len(d)):
            eng.report(f"{pl} of {dl} = {d.hex()}: parse(dumps(v)) = {str(cb)[:250]} consuming {used} of {len(d)}; "
                       f"v = {str(v)[:250]} ({what})", cd, sigs)


# ------------------------------------------------------------------------------------------------ the family

def bit_runs(eng, res, rnd, tier, *, check_roundtrip, check_constructed):
    """runs of bit-fields whose storage types alternate between types of one width, through every entry point"""
    from .structprops import rand_bytes

    ndefs = 150 if tier == "quick" else 3000
    files = Files()
    try:
        for di in range(ndefs):
            way = rnd.choice(WAYS)
            flat = way == "legacy"
            g = RunGen(rnd, flat=flat, one_token=flat)
            tree, inner, position = g.tree()
            cfgs = [(a, c) for a in ((False,) if flat else (False, True)) for c in (False, True)]
            for ci, (align, compiled) in enumerate(cfgs if tier != "quick" else rnd.sample(cfgs, min(2, len(cfgs)))):
                endian = rnd.choice(ENDIANS)
                ptr = rnd.choice(["uint64", "uint32", "uint16", "uint8"])
                sess = impl.Session(endian=endian, pointer=ptr, preamble=False)
                try:
                    L = load_way(sess, tree, inner, way, compiled=compiled, align=align, tmpdir=files.dir, tag=f"{di}_{ci}" + rnd.choice(["", "r"]))
                except Exception as e:  # noqa: BLE001
                    # (no type, no values: whether a definition is accepted is not this property's business)
                    res.feat(f"bit-runs:definition-rejected:{way}:{type(e).__name__}")
                    continue
                T = L.T
                sigs = ["F23"] if align and small_units(tree) else []
                key = ("bit-runs", sess.script(), compiled, align)
                res.feat("bit-runs:definitions")
                res.feat("bit-runs:entry:" + way + (":compiled" if compiled else ":interpreted") + (":aligned" if align else ":packed"))
                res.feat("bit-runs:really compiled" if getattr(T, "__compiled__", False) else "bit-runs:interpreted reader in use")
                res.feat("bit-runs:endian spelled " + endian)
                res.feat("bit-runs:position:" + position)
                for k, n in g.stats.items():
                    if n:
                        res.feat("bit-runs:" + k, n)
                if sigs:
                    res.feat("bit-runs:aligned run on a 24 / 48 bit storage type (F23 territory)")
                dyn = is_dynamic(tree)
                try:
                    size = T.size if T.size is not None else 40
                except Exception:  # noqa: BLE001
                    size = 40
                pairs = 2 if tier == "quick" else 3
                # (a) parsed from arbitrary bytes
                for _i in range(2):
                    data = rand_bytes(rnd, size + rnd.choice([0, 5, 20]))
                    obj = check_roundtrip(eng, res, L, tree, data, sigs, key=key)
                    if obj is not None:
                        res.feat("bit-runs:parsed values")
                        conventions(eng, res, rnd, L, obj, sigs, key=key, what=f"was parsed from {data.hex()}", files=files, pairs=pairs)
                # (b) constructed from keyword arguments
                for _i in range(2):
                    val = gen_value(rnd, tree)
                    what = "T(" + show(tree, val)[:600] + ")"
                    try:
                        obj = build(rnd, T, tree, val)
                    except Exception as e:  # noqa: BLE001
                        eng.report(f"a value cannot be constructed from keyword arguments ({type(e).__name__}: {str(e)[:120]}): {what}",
                                   eng.case_data(L, constructed=what), sigs)
                        continue
                    res.feat("bit-runs:constructed values")
                    check_constructed(eng, res, L, tree, obj, sigs, key=key, what="bit-runs: " + what)
                    conventions(eng, res, rnd, L, obj, sigs, key=key, what="is " + what, files=files, pairs=pairs)
                # refusals: a bit-field value that does not fit its width must not be written
                val = gen_value(rnd, tree)
                cands = bit_leaves(tree, val)
                for box, k, b, width, path in rnd.sample(cands, min(len(cands), 2)):
                    good = box[k]
                    bad = rnd.choice([1 << b, (1 << b) + 1, 1 << width, -1, (1 << b) | good])
                    box[k] = bad
                    what = f"{path} = {bad} ({b} bits) in T(" + show(tree, val)[:500] + ")"
                    try:
                        obj = build(rnd, T, tree, val, typed=0.0)
                    except Folded:
                        res.feat("bit-runs:refusal:the enum / flag instance does not hold the number (IntFlag folding, F22: not run)")
                        continue
                    except Exception:  # noqa: BLE001
                        res.feat("bit-runs:refusal:refused by the constructor")
                        continue
                    finally:
                        box[k] = good
                    res.count((*key, "misfit", path, bad), True)
                    res.feat("bit-runs:refusal:bit-field")
                    d = impl.dump(T, obj)
                    if d[0] == "ok":
                        eng.report(f"bit-field {path} = {bad} does not fit {b} bits but was written: dumps(v) = {d[1].hex()[:200]}; {what}",
                                   eng.case_data(L, field=path, value=bad, constructed=what), sigs)
            if len(eng.lines) > 3000:
                eng.flush()
    finally:
        files.close()
