"""Size-change histories for C14 (helper of props/c14.py, built on the History / oracle machinery of harness/t4_c14.py).

"Parsing is a pure function of type and bytes: the result does not depend on what was parsed ... before."  The types of these
histories *change between two parses*: structures whose array lengths are expressions that are evaluated at parse time (a member
operand comes first, so that the trial evaluation at definition time stops before it reaches the rest) and that mention
`sizeof(T)` of another type or a `#define`d constant, e.g. `char body[len - sizeof(hdr)]`, `uint16 v[len / sizeof(unit_t)]`,
`uint8 d[(len & 7) * K]`.  Between the parses the meaning of T / K is changed on the same cstruct object by definitional steps:

  * `hdr.add_field(...)` (scalar or array member; the type commits itself), so that sizeof(hdr) grows,
  * `cs.add_type("unit_t", <other scalar>, replace=True)` / `cs.add_type("hdr_t", "hdr2", replace=True)`: a typedef'd name used
    inside sizeof(...) is re-pointed to a type of another size,
  * a further `cs.load("#define K <other value>")`,
  * `cs.endian = ...`.

Parses (good and truncated), default constructions, sizeof observations and dumps happen before and after every such step; a
fixed probe parse of every consumer structure is made at the start and after every definitional step.  Every observation is
compared with the same operation on a brand-new object that performed only the definitional steps of the history (same loads,
add_field, add_type, endian) and none of the earlier parses: anything a parse leaves behind in a type, an array type or an
expression object (a folded sizeof, a cached length) shows up as a difference.
"""
from __future__ import annotations

from . import t4_c14 as t4
from .structprops import rand_bytes

SCALARS = {"uint8": 1, "uint16": 2, "uint32": 4, "uint64": 8, "int16": 2, "int32": 4, "uint24": 3}
# {r}: a member that precedes the array; {t}: a sizeof target; K: a constant.  The member operand comes before sizeof / K in most
# of them (then the whole expression is evaluated at the first parse, not when the definition is loaded).
EXPRS = ["{r} - sizeof({t})", "{r} / sizeof({t})", "({r} & 7) + sizeof({t})", "{r} % sizeof({t}) + 1", "({r} & 3) * sizeof({t})", "{r} * K", "({r} & 7) + K",
         "{r} - sizeof({t}) + K", "{r} / sizeof({t}) + sizeof({u})", "({r} & 3) + sizeof({t}) * 2", "{r} + sizeof({t}) - sizeof({u})", "({r} >> 1) + sizeof({t})",
         "sizeof({t}) + ({r} & 3)", "K + ({r} & 3)", "sizeof({t})", "({r} & 15) - sizeof({t}) - K"]
ELEMS = ["char", "uint8", "uint8", "uint16", "{t}", "uint32"]


def gen_definitions(rnd):
    """-> preamble text, consumer text, names of the consumer structures, sizeof targets {name: kind}"""
    pre = [f"#define K {rnd.randint(1, 4)}"]
    hdr = [rnd.choice(list(SCALARS)) for _ in range(rnd.randint(1, 3))]
    pre.append("struct hdr { " + " ".join(f"{t} h{i};" for i, t in enumerate(hdr)) + " };")
    hdr2 = [rnd.choice(list(SCALARS)) for _ in range(rnd.randint(1, 4))]
    pre.append("struct hdr2 { " + " ".join(f"{t} g{i};" for i, t in enumerate(hdr2)) + " };")
    pre.append(f"typedef {rnd.choice(list(SCALARS))} unit_t;")
    pre.append("typedef hdr hdr_t;")
    targets = {"hdr": "struct", "unit_t": "alias", "hdr_t": "alias"}
    if rnd.random() < 0.5:
        pre.append("union uni { " + " ".join(f"{rnd.choice(list(SCALARS))} u{i};" for i in range(rnd.randint(1, 3))) + " };")
        targets["uni"] = "struct"
    rnd.shuffle(pre)
    # the typedef of hdr has to follow hdr
    pre.sort(key=lambda x: 1 if x.startswith("typedef hdr") else 0)
    consumers, names = [], []
    for ci in range(rnd.randint(1, 3)):
        name = f"msg{ci}"
        names.append(name)
        members = [f"{rnd.choice(['uint8', 'uint8', 'uint16'])} len;"]
        refs = ["len"]
        if rnd.random() < 0.3:
            members.append("uint8 m;")
            refs.append("m")
        for ai in range(rnd.randint(1, 2)):
            tl = list(targets)
            expr = rnd.choice(EXPRS).format(r=rnd.choice(refs), t=rnd.choice(tl), u=rnd.choice(tl))
            elem = rnd.choice(ELEMS).format(t=rnd.choice(tl))
            members.append(f"{elem} a{ai}[{expr}];")
            if rnd.random() < 0.3:
                members.append(f"{rnd.choice(tl)} n{ai};")
        members.append("uint8 tail;")
        consumers.append(f"struct {name} {{ " + " ".join(members) + " };")
    return "\n".join(pre), "\n".join(consumers), names, targets


def size_history(ctx):
    rnd, res = ctx.rnd, ctx.res
    h = t4.History(ctx, rnd.choice("<>"), "sizeof")
    pre, cons, names, targets = gen_definitions(rnd)
    compiled = rnd.random() < 0.5
    if rnd.random() < 0.5:
        h.define(("load", pre + "\n" + cons, (("compiled", compiled),)))
    else:
        h.define(("load", pre, (("compiled", rnd.random() < 0.5),)))
        h.define(("load", cons, (("compiled", compiled),)))
    if h.failed or any(n not in h.cs.typedefs for n in names):
        res.feat("t4:sizeof:definition-rejected")
        return
    res.feat("t4:sizeof:" + ("compiled" if compiled else "interpreted"))
    # probe inputs: a length byte that leaves room for every size the targets can take, then a pattern
    probes = [bytes([rnd.choice([5, 8, 12, 17, 24, 33]), rnd.randint(0, 40)]) + bytes(range(0x41, 0x41 + 120)) for _ in range(2)]

    def probe():
        ok = True
        for n in names:
            for d in probes:
                ok = h.observe(("make", ("parse", n, d)), "probe parse") and ok
                if not ok:
                    return False
        return ok

    if not probe():
        return
    nadd = 0
    changed = set()
    for i in range(rnd.randint(4, 9)):
        r = rnd.random()
        if r < 0.5:
            # a definitional step that changes what an expression means
            k = rnd.choice(["add_field", "add_field", "retarget-scalar", "retarget-struct", "define", "endian"])
            if k == "add_field" and nadd >= 4:
                k = "define"
            if k == "add_field":
                nadd += 1
                T = rnd.choice([t for t, kd in targets.items() if kd == "struct"])
                t = rnd.choice(["uint8", "uint16", "uint32", "uint64"])
                step = ("add_field", T, f"z{nadd}", t, rnd.choice([None, None, 2, 3]))
            elif k == "retarget-scalar":
                step = ("add_type", "unit_t", (rnd.choice(["ref", "obj"]), rnd.choice(list(SCALARS))), True)
            elif k == "retarget-struct":
                step = ("add_type", "hdr_t", ("ref", rnd.choice(["hdr2", "hdr", "unit_t", "uint16"])), True)
            elif k == "define":
                step = ("load", f"#define K {rnd.randint(1, 6)}", ())
            else:
                step = ("endian", rnd.choice("<>"))
            got = h.define(step)
            changed.add(k)
            res.feat("t4:sizeof:change:" + k + (":rejected" if got[0] == "err" else ""))
            if h.failed or not probe():
                break
        else:
            n = rnd.choice(names)
            k = rnd.choice(["parse", "parse", "parse", "short", "default", "sizeof", "dumps", "resolve"])
            if k == "parse":
                op = ("make", ("parse", n, bytes([rnd.randint(0, 40), rnd.randint(0, 40)]) + rand_bytes(rnd, 120)))
            elif k == "short":
                op = ("make", ("parse", n, bytes([rnd.randint(3, 30)]) + rand_bytes(rnd, rnd.randint(0, 6))))
            elif k == "default":
                op = ("make", ("default", n))
            elif k == "sizeof":
                op = ("sizeof", rnd.choice(list(targets)))
            elif k == "dumps":
                op = ("inst", "dumps", ("parse", n, rnd.choice(probes)), None)
            else:
                op = ("resolve", rnd.choice(list(targets) + names))
            h.observe(op)
            if h.failed:
                break
        res.count(("t4:sizeof", tuple(map(repr, h.steps))), len(h.steps) >= 4)
    if not h.failed:
        res.feat("t4:sizeof:history-completed")
        if len(changed) >= 2:
            res.feat("t4:sizeof:several-kinds-of-change")


def run(env, res, viol, rnd, n):
    ctx = t4.Ctx(env, res, viol, rnd)
    for _ in range(n):
        size_history(ctx)
        ctx.cache.clear()
