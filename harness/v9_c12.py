"""C12 layout-twin probes (round 9): ENUMS AND FLAGS OVER EVERY INTEGER TYPE INSIDE STRUCTURES - aligned and packed, compiled and
interpreted - laid out, parsed and dumped exactly like the underlying integer type.

"Parsing an enum or flag field yields an object whose integer value is exactly the underlying integer that was read ... and dumping
writes that integer back through the underlying type ... as scalars, arrays and bit-fields."  An enum is its underlying integer
with names: wherever a structure holds `enum E : T e;` the bytes of `e` are the bytes a plain `T` would occupy at that place.  With
`align=True` the place depends on the ALIGNMENT the enum class advertises, which has to be the underlying type's - for the power-of-two
types alignment = size, but int24/uint24 are 3 bytes aligned to 4, int48/uint48 6 bytes aligned to 8, and a custom integer type
registered with `add_custom_type(name, Int, size, alignment)` has whatever the caller said.

Per case (all choices from the module's seeded PRNG):
  * 1-2 enum/flag classes, each over its own underlying type drawn from: the 8 power-of-two table types, int24/uint24/int48/uint48/
    int128/uint128, alias spellings of the table (`short`, `unsigned long long`, `DWORD`, `__int64`, ...), a `typedef` of a table type
    declared in the text, custom integer types registered through `cs.add_custom_type` (sizes 1..12 with alignments 1..8 that differ
    from the size), and the default type (no `: T`); members implicit / explicit (numbering from the props module's oracle); the class is
    used under its own name or through `typedef E E_t;`;
  * a structure (sometimes a union) S of 2-7 members: plain members (uint8 .. uint64, char[k], uint16[k]) before, between and after
    the enum members; enum members as scalar `E e;`, array `F f[n];`, two-dimensional array `E m[a][b];`, bit-field groups
    `E lo : 3; E hi : 5;`, and inside a nested anonymous `struct { ... } in;` / `union { ... } u;`;
  * its TWIN P: the same text with every enum class replaced by the spelling of its underlying type;
  * both loaded in the same call, in ALL FOUR configurations packed/aligned x interpreted/compiled, random endianness, through one of the
    entry points `load(text)`, two `load()` calls (classes first, without flags), `loadfile(path)`, or `load()` of the first member followed
    by `S.add_field(...)` for the rest;
  * data: random bytes of the structure's size in which the enum places (known from the layout computed here) are overwritten with
    values of every class - type minimum / maximum / 0 / 1 / -1 / member values / random; parsed through one of `S(bytes)`,
    `S(bytearray)`, `S(memoryview)`, `S(BytesIO)`, `S.read(bytes)`, `S.reads(bytes)`, `S.read(BytesIO)`, `S(real file object)`.
Oracles (the property, on observable behaviour):
  * the enum class has the size and the alignment of its underlying type (`E.size`, `len(E)`, `E.alignment`, `E[n]`), equal to the
    harness's own table (custom types: what was registered);
  * S and P have the same size, alignment and field offsets; where C's layout rule decides them (see `c_layout`, computed here from
    the harness's table, nothing read from the library) they are the C values;
  * every enum leaf of the parsed S is an instance of its class whose integer value equals the integer P holds at that place and
    `int.from_bytes` of the data bytes at the C offset (bit-fields: the bits of the storage unit); a value that names members carries
    one of their names and equals the member; every plain member of S equals P's; a second parse through another entry point gives
    equal enum objects with equal hashes;
  * S.dumps() == P.dumps(), of the structure's size, and the bytes at every leaf's place are the data bytes; a structure rebuilt from
    the parsed field values (`S(**fields)`) dumps to the same bytes;
  * the Lean model (its `layout`, `read`, `write` of a structure with `(enum T)` / `(flag T)` members, alignment from the generated
    type table) gives the same size / alignment / offsets, the same values and the same bytes (correspondence; classes over table
    types only - the model has no custom types).
Domain notes:
  * F22 (known): a flag over a SIGNED type folds a negative underlying value; the data generator keeps flag values over signed types
    non-negative most of the time, the remaining cases are classified under F22 (value and dump comparisons; the layout comparisons do
    not depend on values and are never classified).
  * Bit-field groups of more than one member over a type whose alignment differs from its size, in an ALIGNED structure: the library
    re-aligns the running offset before every bit-field, finds it beyond the current storage unit and opens a new unit for each member
    (uint24 `lo:3; hi:5` -> two units, at 0 and 4).  It does the same for the plain type, so the twin comparison stands and is made;
    only the independent C layout (one unit per group) is not evaluated for such a structure (`exact = False`), it belongs to the
    bit-field property (C06/C14), not to C12.
  * Every bit-field group fits one storage unit and two groups never follow each other directly (a plain member is put in between):
    the library keeps filling the open unit across what the generator meant as two groups and rejects a member that does not fit
    the rest ("Straddled bit fields are unsupported") - a documented limit of the bit-field support, not an enum matter.
  * Union members and continuation bit-fields carry no offset in the library (`Field.offset is None`); there S and P must agree, the C
    value is not compared.  Dumps of unions are compared with the twin only (what a union writes is C08's business).
"""
from __future__ import annotations

import io
import os
import tempfile

from . import impl
from .common import A, Case, parse_sexp, run_driver, sx

# the harness's own table: canonical name -> (size, signed, alignment)
TABLE = {
    "int8": (1, True, 1), "uint8": (1, False, 1), "int16": (2, True, 2), "uint16": (2, False, 2), "int32": (4, True, 4), "uint32": (4, False, 4),
    "int64": (8, True, 8), "uint64": (8, False, 8), "int24": (3, True, 4), "uint24": (3, False, 4), "int48": (6, True, 8), "uint48": (6, False, 8),
    "int128": (16, True, 16), "uint128": (16, False, 16),
}
POW2 = ["int8", "uint8", "int16", "uint16", "int32", "uint32", "int64", "uint64"]
ODD = ["int24", "uint24", "int48", "uint48", "int128", "uint128"]
ALIASES = {
    "signed char": "int8", "int8_t": "int8", "BYTE": "uint8", "uint8_t": "uint8", "uchar": "uint8", "short": "int16", "signed short": "int16",
    "int16_t": "int16", "unsigned short": "uint16", "WORD": "uint16", "u2": "uint16", "int": "int32", "long": "int32", "LONG": "int32",
    "unsigned int": "uint32", "DWORD": "uint32", "uint32_t": "uint32", "ulong": "uint32", "long long": "int64", "__int64": "int64",
    "int64_t": "int64", "unsigned long long": "uint64", "QWORD": "uint64", "unsigned __int64": "uint64", "u8": "uint64",
    "__int128": "int128", "int128_t": "int128", "OWORD": "uint128", "uint128_t": "uint128", "unsigned __int128": "uint128",
}
CUSTOM = [(3, 1), (3, 2), (3, 8), (5, 8), (5, 1), (5, 4), (2, 4), (2, 1), (4, 2), (4, 8), (7, 8), (6, 2), (6, 4), (12, 4), (1, 2), (8, 4), (9, 2)]
PLAIN = {"uint8": (1, 1), "int8": (1, 1), "uint16": (2, 2), "int16": (2, 2), "uint32": (4, 4), "uint64": (8, 8), "char": (1, 1)}
ENTRY = ["S(bytes)", "S(bytearray)", "S(memoryview)", "S(BytesIO)", "S.read(bytes)", "S.reads(bytes)", "S.read(BytesIO)", "S(file)"]
NAMES = ["RED", "GREEN", "BLUE", "NONE", "LOW", "HIGH", "ALL", "READ", "WRITE", "EXEC", "FIRST", "LAST"]


def up(off, a):
    return (off + a - 1) // a * a


# ------------------------------------------------------------------------------------------------ classes

class Cls:
    """one enum/flag class of a case"""

    def __init__(self, idx, kw, spelling, canon, size, signed, alignment, custom, typedef_of, default, members, want, use_name):
        self.idx, self.kw, self.spelling, self.canon = idx, kw, spelling, canon
        self.size, self.signed, self.alignment = size, signed, alignment
        self.custom, self.typedef_of, self.default = custom, typedef_of, default
        self.members, self.want, self.use_name = members, want, use_name
        self.name = f"{'F' if kw == 'flag' else 'E'}{idx}"
        self.bits = 8 * size
        self.lo, self.hi = (-(1 << (self.bits - 1)), (1 << (self.bits - 1)) - 1) if signed else (0, (1 << self.bits) - 1)

    @property
    def is_flag(self):
        return self.kw == "flag"

    def category(self):
        if self.default:
            return "default-type"
        if self.custom:
            return "custom-int(" + ("size<alignment" if self.size < self.alignment else "size>alignment, size%alignment" + ("==0" if self.size % self.alignment == 0 else "!=0")) + ")"
        return self.canon + (":alias" if self.spelling != self.canon and not self.typedef_of else "") + (":typedef" if self.typedef_of else "")


def gen_class(rnd, idx, py_oracle, force=None):
    kw = "flag" if rnd.random() < 0.45 else "enum"
    r = rnd.random() if force is None else force
    custom = typedef_of = None
    default = False
    if r < 0.26:
        canon = rnd.choice(POW2)
        spelling = canon
    elif r < 0.58:
        canon = rnd.choice(ODD[:4] * 2 + ODD[4:])
        spelling = canon
    elif r < 0.68:
        spelling = rnd.choice(list(ALIASES))
        canon = ALIASES[spelling]
    elif r < 0.78:
        canon = rnd.choice(POW2 + ODD + ODD[:4])
        spelling = f"td{idx}_{canon}_t"
        typedef_of = canon
    elif r < 0.96:
        size, alignment = rnd.choice(CUSTOM)
        signed = rnd.random() < 0.5
        spelling = canon = f"cint{idx}_{size}a{alignment}{'s' if signed else 'u'}"
        custom = (size, alignment, signed)
    else:
        canon = spelling = "uint32"
        default = True
    if custom:
        size, alignment, signed = custom
    else:
        size, signed, alignment = TABLE[canon]
    bits = 8 * size
    hi = (1 << (bits - 1)) - 1 if signed else (1 << bits) - 1
    lo = -(1 << (bits - 1)) if signed else 0
    n = rnd.randint(1, 4)
    names = rnd.sample(NAMES, n)
    members = []
    for i, nm in enumerate(names):
        q = rnd.random()
        if q < 0.4:
            members.append((nm, None))
        elif kw == "flag":
            members.append((nm, rnd.choice([str(1 << rnd.randrange(0, bits - 2)), hex(1 << rnd.randrange(0, min(bits - 2, 8))), "3", "0"])))
        else:
            v = rnd.choice([0, 1, 2, 5, 100, hi, hi - 1, hi >> 1, rnd.randint(0, hi)] + ([-1, lo, lo + 1, rnd.randint(lo, -1)] if signed else []))
            members.append((nm, str(v) if v < 10 or rnd.random() < 0.5 else hex(v)))
    # the numbering stays inside the underlying type: cut the declaration where an implicit continuation would leave it
    while True:
        want = py_oracle(kw == "flag", members, {})
        if all(lo <= v <= hi for v in want.values()) and (kw != "flag" or all(v >= 0 for v in want.values())):
            break
        members = members[:-1] if len(members) > 1 else [(names[0], None)]
    use_name = None
    c = Cls(idx, kw, spelling, canon, size, signed, alignment, custom, typedef_of, default, members, want, use_name)
    if rnd.random() < 0.2:
        c.use_name = c.name + "_t"
    return c


# ------------------------------------------------------------------------------------------------ members of the structure

def gen_en(rnd, classes, name, allow_bits=True):
    """-> list of member dicts (a bit-field group is several members)"""
    c = rnd.choice(classes)
    r = rnd.random()
    if r < 0.4:
        return [{"k": "en", "name": name, "ci": c.idx, "dims": ()}]
    if r < 0.65:
        return [{"k": "en", "name": name, "ci": c.idx, "dims": (rnd.choice([1, 2, 2, 3, 5]),)}]
    if r < 0.75:
        return [{"k": "en", "name": name, "ci": c.idx, "dims": (rnd.choice([1, 2, 3]), rnd.choice([2, 3]))}]
    if not allow_bits:
        return [{"k": "en", "name": name, "ci": c.idx, "dims": ()}]
    # bit-field group inside one storage unit
    left = c.bits
    ws = []
    for _ in range(rnd.choice([1, 2, 2, 3])):
        if left <= 0:
            break
        w = rnd.choice([1, 2, 3, 4, 5, 7, 8, 9, 12, 16])
        w = min(w, left)
        ws.append(w)
        left -= w
    if left and rnd.random() < 0.4:
        ws.append(left)                                  # the group fills the unit
    return [{"k": "bits", "name": f"{name}b{j}", "ci": c.idx, "w": w, "grp": name} for j, w in enumerate(ws)]


def gen_plain(rnd, name):
    r = rnd.random()
    if r < 0.2:
        return {"k": "plain", "name": name, "ct": "char", "dims": (rnd.choice([1, 2, 3, 5]),)}
    if r < 0.3:
        return {"k": "plain", "name": name, "ct": "uint16", "dims": (rnd.choice([1, 2, 3]),)}
    return {"k": "plain", "name": name, "ct": rnd.choice(["uint8", "uint8", "uint8", "int8", "uint16", "int16", "uint32", "uint64"]), "dims": ()}


def gen_members(rnd, classes, depth=0, union=False):
    """(no bit-fields directly inside a union: one storage unit per member there is the bit-field property's business)"""
    ms = []
    n = rnd.randint(2, 6) if depth == 0 else rnd.randint(1, 3)
    have_en = False
    for i in range(n):
        nm = f"{'m' if depth == 0 else 'n'}{i}"
        r = rnd.random()
        if i == 0 and depth == 0 and r < 0.75:
            ms.append(gen_plain(rnd, nm))                 # something small in front, so that alignment shows
            if rnd.random() < 0.8:
                ms[-1].update(ct=rnd.choice(["uint8", "uint8", "char", "uint16"]), dims=())
                if ms[-1]["ct"] == "char":
                    ms[-1]["dims"] = (rnd.choice([1, 3, 5]),)
        elif r < 0.5 or (i == n - 1 and not have_en):
            new = gen_en(rnd, classes, nm, allow_bits=not union)
            if ms and ms[-1]["k"] == "bits" and new[0]["k"] == "bits":
                ms.append(gen_plain(rnd, nm + "sep"))     # two groups never touch: see the domain notes
            ms += new
            have_en = True
        elif r < 0.62 and depth == 0:
            sub_union = rnd.random() < 0.3
            sub = gen_members(rnd, classes, depth + 1, sub_union)
            ms.append({"k": "agg", "name": nm, "union": sub_union, "ms": sub})
            have_en = True
        else:
            ms.append(gen_plain(rnd, nm))
    if depth and not have_en:
        new = gen_en(rnd, classes, f"n{n}", allow_bits=not union)
        if ms and ms[-1]["k"] == "bits" and new[0]["k"] == "bits":
            ms.append(gen_plain(rnd, f"n{n}sep"))
        ms += new
    return ms


def render(ms, classes, twin, indent="    "):
    out = []
    for m in ms:
        k = m["k"]
        if k == "plain":
            out.append(f"{indent}{m['ct']} {m['name']}{''.join(f'[{d}]' for d in m['dims'])};")
        elif k == "en":
            c = classes[m["ci"]]
            t = c.spelling if twin else (c.use_name or c.name)
            out.append(f"{indent}{t} {m['name']}{''.join(f'[{d}]' for d in m['dims'])};")
        elif k == "bits":
            c = classes[m["ci"]]
            t = c.spelling if twin else (c.use_name or c.name)
            out.append(f"{indent}{t} {m['name']} : {m['w']};")
        else:
            out.append(f"{indent}{'union' if m['union'] else 'struct'} {{\n" + render(m["ms"], classes, twin, indent + "    ") + f"\n{indent}}} {m['name']};")
    return "\n".join(out)


# ------------------------------------------------------------------------------------------------ C layout, computed here

def msize(m, classes, aligned):
    """(size, alignment, exact) of one non-bit-field member"""
    k = m["k"]
    if k == "agg":
        size, al, _, exact = c_layout(m["ms"], classes, aligned, m["union"])
        return size, al, exact
    if k == "plain":
        s, a = PLAIN[m["ct"]]
    else:
        c = classes[m["ci"]]
        s, a = c.size, c.alignment
    for d in m["dims"]:
        s *= d
    return s, a, True


def c_layout(ms, classes, aligned, union):
    """C's rule with the harness's own sizes and alignments: every member at the next multiple of its alignment (aligned) or directly
    behind its predecessor (packed); the structure's alignment is its members' largest (the library reports that attribute for packed
    structures too, where it places nothing), its size padded to it (aligned); the members of a
    bit-field group share one storage unit of the underlying type, placed like a member of that type; union members all at 0.
    -> (size, alignment, [offset per member; ('cont', unit offset) for the later members of a group], exact)"""
    off, al, offs, exact = 0, 1, [], True
    unit = None                                            # [grp, unit offset, bits left]
    size_u = 0
    for m in ms:
        if m["k"] == "bits":
            c = classes[m["ci"]]
            if union:
                offs.append(0)
                size_u, al = max(size_u, c.size), max(al, c.alignment)
                continue
            if unit and unit[0] == m["grp"] and unit[2] >= m["w"]:
                if aligned and c.size % c.alignment:
                    exact = False                          # see the module docstring: the library opens a new unit here, for T as for E
                offs.append(("cont", unit[1]))
                unit[2] -= m["w"]
                continue
            if aligned:
                off = up(off, c.alignment)
            unit = [m["grp"], off, c.bits - m["w"]]
            offs.append(off)
            off += c.size
            al = max(al, c.alignment)
            continue
        unit = None
        s, a, ex = msize(m, classes, aligned)
        exact = exact and ex
        al = max(al, a)
        if union:
            offs.append(0)
            size_u = max(size_u, s)
            continue
        if aligned:
            off = up(off, a)
        offs.append(off)
        off += s
    size = size_u if union else off
    if aligned:
        size = up(size, al)
    return size, al, offs, exact


def leaves(ms, classes, aligned, union=False, base=0, path=(), in_union=False):
    """every leaf with its absolute C offset: (path, kind, member, absolute offset, bit start inside the group, in a union)"""
    _, _, offs, _ = c_layout(ms, classes, aligned, union)
    start = {}
    for m, o in zip(ms, offs):
        p = path + (m["name"],)
        if m["k"] == "agg":
            yield from leaves(m["ms"], classes, aligned, m["union"], base + o, p, in_union or union or m["union"])
        elif m["k"] == "bits":
            uo = o[1] if isinstance(o, tuple) else o
            s = start.get(m["grp"], 0) if isinstance(o, tuple) else 0
            start[m["grp"]] = s + m["w"]
            yield p, "bits", m, base + uo, s, in_union or union
        else:
            yield p, m["k"], m, base + o, 0, in_union or union


def flat(v):
    if isinstance(v, list):
        for x in v:
            yield from flat(x)
    else:
        yield v


def dig(obj, path):
    for p in path:
        obj = getattr(obj, p)
    return obj


# ------------------------------------------------------------------------------------------------ model type

def ty_sexp(ms, classes, aligned, union):
    fs = []
    for m in ms:
        k = m["k"]
        bits = 0
        if k == "agg":
            t = ty_sexp(m["ms"], classes, aligned, m["union"])
        else:
            if k == "plain":
                t = [A("sc"), m["ct"]]
            else:
                c = classes[m["ci"]]
                t = [A(c.kw), c.canon]
                bits = m.get("w", 0)
            for d in reversed(m.get("dims", ())):
                t = [A("arr"), t, [A("fixed"), d]]
        fs.append([A("f"), m["name"], 0, t, bits])
    return [A("union" if union else "struct"), 1 if aligned else 0, fs]


# ------------------------------------------------------------------------------------------------ the probes

def _parse(T, raw, how, dc):
    if how == "S(bytes)":
        return T(raw)
    if how == "S(bytearray)":
        return T(bytearray(raw))
    if how == "S(memoryview)":
        return T(memoryview(raw))
    if how == "S(BytesIO)":
        return T(io.BytesIO(raw))
    if how == "S.read(bytes)":
        return T.read(raw)
    if how == "S.reads(bytes)":
        return T.reads(raw)
    if how == "S.read(BytesIO)":
        return T.read(io.BytesIO(raw))
    with tempfile.TemporaryFile() as fh:
        fh.write(raw)
        fh.seek(0)
        return T(fh)


def _parse_line(how, T, hexs):
    b = f"bytes.fromhex({hexs!r})"
    return {"S(bytes)": f"{T}({b})", "S(bytearray)": f"{T}(bytearray({b}))", "S(memoryview)": f"{T}(memoryview({b}))",
            "S(BytesIO)": f"{T}(io.BytesIO({b}))", "S.read(bytes)": f"{T}.read({b})", "S.reads(bytes)": f"{T}.reads({b})",
            "S.read(BytesIO)": f"{T}.read(io.BytesIO({b}))"}.get(how, f"{T}(io.BytesIO({b}))  # (a real file object in the run)")


def _int_type(dc):
    t = getattr(dc, "Int", None)                           # (no `or`: the truth value of a type class is its length)
    return t if t is not None else dc.types.Int


def _nested(t):
    """(alignment, member offsets) of a nested structure/union type, () for everything else"""
    fs = getattr(t, "__fields__", None)
    return () if fs is None else (t.alignment, [g.offset for g in fs])


def _value_example(S, P, lv, classes, rnd):
    """the layouts of S and its twin differ: one piece of data on which a member reads differently -> (text, repro lines)
    (negative values of a flag over a signed type are not cited: F22)"""
    try:
        raw = bytes(rnd.getrandbits(8) for _ in range(max(len(S), len(P))))
    except Exception:  # noqa: BLE001
        return "", []
    lines = [f"s = cs.S(bytes.fromhex({raw.hex()!r})); p = cs.P(bytes.fromhex({raw.hex()!r})); print(s); print(p)"]
    try:
        s, p = S(raw), P(raw)
        for path, k, m, *_ in lv:
            vs, vp = dig(s, path), dig(p, path)
            a = vs if k == "plain" else [int(x.value) for x in flat(vs)]
            b = vp if k == "plain" else [int(y) for y in flat(vp)]
            if k != "plain" and classes[m["ci"]].is_flag and classes[m["ci"]].signed and len(a) == len(b):
                a = [x for x, y in zip(a, b) if y >= 0]
                b = [y for y in b if y >= 0]
            if a != b:
                return (f"; e.g. data {raw.hex()}: member {'.'.join(path)} reads {vs!r} in the structure with enum/flag members, {vp!r} in "
                        f"the twin"), lines
    except Exception as e:  # noqa: BLE001
        return f"; parsing {raw.hex()} with both raises {type(e).__name__}: {e}", lines
    return "", lines


def _pick_value(rnd, c):
    r = rnd.random()
    vals = list(c.want.values())
    if r < 0.3 and vals:
        v = rnd.choice(vals)
    elif r < 0.55:
        v = rnd.choice([c.lo, c.hi, 0, 1, -1 if c.signed else c.hi - 1, c.lo + 1, c.hi >> 1, 2, 3])
    elif r < 0.7 and vals:
        v = rnd.choice(vals) + rnd.choice([1, -1])
    else:
        v = rnd.randint(c.lo, c.hi)
    v = min(max(v, c.lo), c.hi)
    if c.is_flag and c.signed and v < 0 and rnd.random() < 0.93:
        v = ~v                                            # F22 territory (negative value of a flag over a signed type) is met rarely
    return v


def layout_probes(rnd, res, viol, dc, tier, py_oracle, env):
    ncases = 70 if tier == "quick" else 1200
    lines, cbs = [], []
    tmpdir = None
    for i in range(ncases):
        # ---- declarations
        ncls = rnd.choice([1, 1, 2])
        # the first class of every other case is forced onto the types whose alignment differs from their size (odd table types, customs)
        classes = [gen_class(rnd, j, py_oracle, force=(rnd.uniform(0.26, 0.58) if i % 4 == 0 else rnd.uniform(0.78, 0.96) if i % 4 == 2 else None)
                             if j == 0 else None) for j in range(ncls)]
        top_union = rnd.random() < 0.12
        ms = gen_members(rnd, classes, 0, top_union)
        used = {m["ci"] for _, k, m, *_ in leaves(ms, classes, False, top_union) if k != "plain"}
        classes_used = [c for c in classes if c.idx in used]
        endian = rnd.choice("<>")
        order = "little" if endian == "<" else "big"
        head = ""
        for c in classes:
            if c.typedef_of:
                head += f"typedef {c.typedef_of} {c.spelling};\n"
        for c in classes:
            body = ", ".join(n if e is None else f"{n} = {e}" for n, e in c.members)
            head += f"{c.kw} {c.name}" + ("" if c.default else f" : {c.spelling}") + f" {{ {body} }};\n"
            if c.use_name:
                head += f"typedef {c.name} {c.use_name};\n"
        kwd = "union" if top_union else "struct"
        structs = (f"{kwd} S {{\n{render(ms, classes, False)}\n}};\n" f"{kwd} P {{\n{render(ms, classes, True)}\n}};\n")
        customs = [(c.spelling, *c.custom) for c in classes if c.custom]
        how_load = rnd.choice(["load", "load", "two-loads", "loadfile", "add_field"])
        if how_load == "add_field" and (top_union or any(m["k"] == "agg" or len(m.get("dims", ())) > 1 for m in ms)):
            how_load = "load"
        model_ok = env["driver_ok"] and not any(c.custom for c in classes_used)

        last_real = None
        for aligned in (False, True):
            size, al, offs, exact = c_layout(ms, classes, aligned, top_union)
            lv = list(leaves(ms, classes, aligned, top_union))
            for compiled in (False, True):
                # ---- load
                script = ["import io", "from dissect.cstruct import cstruct", "from dissect.cstruct.types import Int", f"cs = cstruct(endian={endian!r})"]
                script += [f"cs.add_custom_type({n!r}, Int, {s}, {a}, signed={sg})" for n, s, a, sg in customs]
                flags = f"compiled={compiled}, align={aligned}"
                cd = {"endian": endian, "align": aligned, "compiled": compiled, "load": how_load,
                      "classes": [f"{c.name}: {c.kw} over {c.spelling} (size {c.size}, alignment {c.alignment}, {'signed' if c.signed else 'unsigned'})"
                                  for c in classes]}
                try:
                    cs = dc.cstruct(endian=endian)
                    for n, s, a, sg in customs:
                        cs.add_custom_type(n, _int_type(dc), s, a, signed=sg)
                    if how_load == "load":
                        script.append(f"cs.load({head + structs!r}, {flags})")
                        cs.load(head + structs, compiled=compiled, align=aligned)
                    elif how_load == "two-loads":
                        script += [f"cs.load({head!r})", f"cs.load({structs!r}, {flags})"]
                        cs.load(head)
                        cs.load(structs, compiled=compiled, align=aligned)
                    elif how_load == "loadfile":
                        if tmpdir is None:
                            tmpdir = tempfile.mkdtemp(prefix="v9c12-")
                        path = os.path.join(tmpdir, "def.h")
                        with open(path, "w") as fh:
                            fh.write(head + structs)
                        script.append(f"open('/tmp/v9c12_def.h', 'w').write({head + structs!r}); cs.loadfile('/tmp/v9c12_def.h', {flags})")
                        cs.loadfile(path, compiled=compiled, align=aligned)
                    else:
                        first = (f"struct S {{\n{render(ms[:1], classes, False)}\n}};\n" f"struct P {{\n{render(ms[:1], classes, True)}\n}};\n")
                        script.append(f"cs.load({head + first!r}, {flags})")
                        cs.load(head + first, compiled=compiled, align=aligned)
                        for m in ms[1:]:
                            for tn, twin in (("S", False), ("P", True)):
                                if m["k"] == "plain":
                                    tname = m["ct"]
                                else:
                                    c = classes[m["ci"]]
                                    tname = c.spelling if twin else (c.use_name or c.name)
                                script.append(f"cs.{tn}.add_field({m['name']!r}, cs.resolve({tname!r}){''.join(f'[{d}]' for d in m.get('dims', ()))}, bits={m.get('w')})")
                                t = cs.resolve(tname)
                                for d in m.get("dims", ()):
                                    t = t[d]
                                getattr(cs, tn).add_field(m["name"], t, bits=m.get("w"))
                    S, P = cs.S, cs.P
                    real = [cs.resolve(c.name) for c in classes]
                except Exception as e:  # noqa: BLE001
                    viol(f"structure with enum/flag members over {[c.spelling for c in classes_used]} cannot be defined ({how_load}, {flags}): "
                         f"{type(e).__name__}: {e}", dict(cd, definition=head + structs, repro="\n".join(script)))
                    continue
                cd["definition"] = head + structs
                cfgname = ("aligned" if aligned else "packed") + "," + ("compiled" if compiled else "interpreted")
                res.count(("layout", head, structs, endian, aligned, compiled, how_load), True)
                res.feat("layout:config:" + cfgname)
                res.feat("layout:load:" + how_load)
                for c in classes_used:
                    res.feat(f"layout:{c.kw}:{c.category()}")
                    if aligned and c.size != c.alignment:
                        res.feat("layout:aligned structure with a class whose alignment differs from its size")
                for _, k, m, *_ in lv:
                    if k != "plain":
                        res.feat("layout:member:" + ("bit-field" if k == "bits" else "scalar" if not m["dims"] else f"array-{len(m['dims'])}d"))
                if top_union:
                    res.feat("layout:top-level union")

                def bad(what, extra=None, sig=None, _cd=cd, _script=script):
                    d = dict(_cd)
                    d.update(extra or {})
                    d["repro"] = "\n".join(_script + d.pop("more", []))
                    viol(what, d, sig)

                # ---- same layout as the twin; the C layout where C decides
                try:
                    lay_s = (S.size, len(S), S.alignment, [f.offset for f in S.__fields__], [f._name for f in S.__fields__])
                    lay_p = (P.size, len(P), P.alignment, [f.offset for f in P.__fields__], [f._name for f in P.__fields__])
                    sub_s = [(f._name, f.type.size, *_nested(f.type)) for f in S.__fields__]
                    sub_p = [(f._name, f.type.size, *_nested(f.type)) for f in P.__fields__]
                except Exception as e:  # noqa: BLE001
                    bad(f"examining the structure classes raises {type(e).__name__}: {e}")
                    continue
                last_real = (real, script)
                more = ["print(len(cs.S), cs.S.alignment, [(f._name, f.offset) for f in cs.S.__fields__])",
                        "print(len(cs.P), cs.P.alignment, [(f._name, f.offset) for f in cs.P.__fields__])"]
                layout_ok = True
                if lay_s != lay_p or sub_s != sub_p:
                    layout_ok = False
                    eg, egl = _value_example(S, P, lv, classes, rnd)
                    bad(f"structure with enum/flag members: (size, len, alignment, offsets) = {lay_s[:4]} / members (name, size, nested layout) "
                        f"{sub_s}; the same structure with the underlying types instead: {lay_p[:4]} / members {sub_p}{eg}", {"more": more + egl})
                elif exact:
                    woffs = [None if (top_union or isinstance(o, tuple)) else o for o in offs]
                    if lay_s[:4] != (size, size, al, woffs):
                        layout_ok = False
                        bad(f"structure with enum/flag members: (size, len, alignment, offsets) = {lay_s[:4]}, C's layout rule gives "
                            f"{(size, size, al, woffs)}", {"more": more})
                    else:
                        for m, f in zip(ms, S.__fields__):
                            if m["k"] == "agg":
                                s2, a2, o2, _ = c_layout(m["ms"], classes, aligned, m["union"])
                                w2 = [None if (m["union"] or isinstance(o, tuple)) else o for o in o2]
                                g2 = (f.type.size, f.type.alignment, [g.offset for g in f.type.__fields__])
                                if g2 != (s2, a2, w2):
                                    layout_ok = False
                                    bad(f"nested {'union' if m['union'] else 'structure'} {m['name']} with enum/flag members: (size, alignment, "
                                        f"offsets) = {g2}, C's layout rule gives {(s2, a2, w2)}", {"more": more})
                else:
                    res.feat("layout:twin-only (aligned multi-member bit-field group over a type with alignment != size)")
                # ---- model: layout
                tys = cfg = None
                if model_ok:
                    tys = ty_sexp(ms, classes, aligned, top_union)
                    cfg = [A("cfg"), A("le" if endian == "<" else "be"), "uint64", []]
                    lines.append(sx([A("layout"), cfg, tys]))
                    cbs.append(("layout", (lay_s[0], lay_s[2], [] if top_union else lay_s[3]), dict(cd, repro="\n".join(script + more))))
                if not layout_ok:
                    continue                               # values at places that are already known to be wrong say nothing new

                # ---- data
                try:
                    for rep in range(2 if tier == "quick" else 3):
                        raw = bytearray(rnd.getrandbits(8) for _ in range(size)) if exact else bytearray(rnd.getrandbits(8) for _ in range(lay_s[1]))
                        if rep == 0 and rnd.random() < 0.15:
                            raw = bytearray(len(raw))
                        if exact:
                            for path, k, m, o, bstart, inu in lv:
                                if k == "en":
                                    c = classes[m["ci"]]
                                    cnt = 1
                                    for d in m["dims"]:
                                        cnt *= d
                                    for j in range(cnt):
                                        v = _pick_value(rnd, c)
                                        raw[o + j * c.size:o + (j + 1) * c.size] = v.to_bytes(c.size, order, signed=c.signed)
                                elif k == "bits":
                                    c = classes[m["ci"]]
                                    if c.is_flag and c.signed and rnd.random() < 0.93:
                                        # clear the field's top bit: a negative bit-field value of a flag over a signed type is F22 territory
                                        unit = int.from_bytes(raw[o:o + c.size], order)
                                        top = bstart + m["w"] - 1 if endian == "<" else c.bits - bstart - 1
                                        unit &= ~(1 << top)
                                        raw[o:o + c.size] = unit.to_bytes(c.size, order)
                        raw = bytes(raw)
                        how1, how2 = rnd.sample(ENTRY, 2)
                        res.feat("layout:parse:" + how1)
                        res.count(("layout-data", head, structs, endian, aligned, compiled, raw), True)
                        pl = [f"s = {_parse_line(how1, 'cs.S', raw.hex())}", f"p = {_parse_line(how1, 'cs.P', raw.hex())}", "print(s); print(p)",
                              "print(s.dumps().hex()); print(p.dumps().hex())"]
                        try:
                            s, p = _parse(S, raw, how1, dc), _parse(P, raw, how1, dc)
                            s2 = _parse(S, raw, how2, dc)
                        except Exception as e:  # noqa: BLE001
                            bad(f"parsing {len(raw)} bytes ({how1} / {how2}) raises {type(e).__name__}: {e}", {"data": raw.hex(), "more": pl})
                            continue
                        # ---- leaf by leaf
                        f22 = False
                        msg = None
                        try:
                            for path, k, m, o, bstart, inu in lv:
                                where = ".".join(path)
                                vs, vp = dig(s, path), dig(p, path)
                                if k == "plain":
                                    if vs != vp:
                                        msg = f"plain member {where} reads {vs!r} next to enum members, {vp!r} next to their underlying types"
                                        break
                                    continue
                                c, E = classes[m["ci"]], real[m["ci"]]
                                es, ep, e2 = list(flat(vs)), list(flat(vp)), list(flat(dig(s2, path)))
                                if len(es) != len(ep) or len(es) != len(e2):
                                    msg = f"member {where}: {len(es)} elements, the twin has {len(ep)}"
                                    break
                                for j, (x, y, x2) in enumerate(zip(es, ep, e2)):
                                    el = where + (f"[{j}]" if len(es) > 1 else "")
                                    y = int(y)
                                    neg = c.is_flag and c.signed and y < 0
                                    f22 = f22 or neg
                                    if not isinstance(x, E):
                                        msg = f"member {el} of type {c.name} holds a {type(x).__name__}: {x!r}"
                                        break
                                    if int(x.value) != y or int(x) != y:
                                        msg = (f"{c.kw} member {el} over {c.spelling} has value {int(x.value)}, the underlying integer read by the twin "
                                               f"structure at that place is {y}")
                                        break
                                    if exact:
                                        if k == "en":
                                            w = int.from_bytes(raw[o + j * c.size:o + (j + 1) * c.size], order, signed=c.signed)
                                            if y != w:
                                                msg = (f"{c.kw} member {el} over {c.spelling} has value {y}; the integer stored at its C offset "
                                                       f"{o + j * c.size} is {w}")
                                                break
                                        else:
                                            unit = int.from_bytes(raw[o:o + c.size], order)
                                            sh = bstart if endian == "<" else c.bits - bstart - m["w"]
                                            w = (unit >> sh) & ((1 << m["w"]) - 1)
                                            if y % (1 << m["w"]) != w:
                                                msg = (f"{c.kw} bit-field {el} : {m['w']} over {c.spelling} has value {y}; the bits stored in its unit at C "
                                                       f"offset {o} are {w}")
                                                break
                                    if not (x == x2 and not (x != x2) and hash(x) == hash(x2)) and not neg:
                                        msg = f"member {el}: two parses ({how1}, {how2}) of the same bytes give {x!r} and {x2!r}, not equal objects with equal hashes"
                                        break
                                    if not (x == y and not (x != y)) and not neg:
                                        msg = f"member {el} = {x!r} does not compare equal to its integer value {y}"
                                        break
                                    named = [n for n, v in c.want.items() if v == y]
                                    if named and (x.name not in named or not (x == getattr(E, named[0]))):
                                        msg = f"member {el} = {x!r} (name {x.name!r}): value {y} is declared as {named}"
                                        break
                                if msg:
                                    break
                        except Exception as e:  # noqa: BLE001
                            msg = f"examining the parsed structure raises {type(e).__name__}: {e}"
                        if msg:
                            bad(msg, {"data": raw.hex(), "parse": how1, "more": pl}, "F22" if f22 else None)
                            continue
                        # ---- dumps
                        try:
                            ds, dp = s.dumps(), p.dumps()
                            fields = {f._name: getattr(s, f._name) for f in S.__fields__}
                            dr = S(**fields).dumps() if not top_union else ds
                        except Exception as e:  # noqa: BLE001
                            bad(f"dumping the parsed structure raises {type(e).__name__}: {e}", {"data": raw.hex(), "parse": how1, "more": pl}, "F22" if f22 else None)
                            continue
                        sig = "F22" if f22 else None
                        if ds != dp or len(ds) != lay_s[1]:
                            bad(f"structure with enum/flag members dumps to {ds.hex()} ({len(ds)} bytes), its twin with the underlying types to {dp.hex()}",
                                {"data": raw.hex(), "parse": how1, "more": pl}, sig)
                            continue
                        if dr != ds:
                            bad(f"structure rebuilt from the parsed field values dumps to {dr.hex()}, the parsed one to {ds.hex()}",
                                {"data": raw.hex(), "parse": how1, "more": [*pl, "print(cs.S(**{f._name: getattr(s, f._name) for f in cs.S.__fields__}).dumps().hex())"]}, sig)
                            continue
                        if exact:
                            for path, k, m, o, bstart, inu in lv:
                                if inu or k == "bits":
                                    continue                    # unions: C08; unassigned bits of a unit are written as zero: C06
                                n, _, _ = msize(m, classes, aligned)
                                if ds[o:o + n] != raw[o:o + n]:
                                    bad(f"member {'.'.join(path)} is dumped as {ds[o:o + n].hex()} at its C offset {o}, the data bytes there are {raw[o:o + n].hex()}",
                                        {"data": raw.hex(), "parse": how1, "more": pl}, sig)
                                    break
                        # ---- model: read and write
                        if model_ok and exact and not f22:
                            cv = impl.canon(s)
                            lines.append(sx([A("read"), cfg, tys, raw, 0]))
                            cbs.append(("read", (cv, len(raw)), dict(cd, data=raw.hex(), repro="\n".join(script + pl))))
                            if not impl.contains_nan(cv):
                                lines.append(sx([A("write"), cfg, tys, cv]))
                                cbs.append(("write", ds, dict(cd, data=raw.hex(), repro="\n".join(script + pl))))
                except Exception as e:  # noqa: BLE001 - a library that hands out objects of another shape must not trip the harness
                    bad(f"examining the parsed structure / its dump raises {type(e).__name__}: {e}")
        # ---- the class advertises its underlying type's size and alignment (once per case: the class does not depend on the flags)
        if last_real:
            real, script = last_real
            for c, E in zip(classes, real):
                n = rnd.choice([2, 3])
                line = f"E = cs.resolve({c.name!r}); print(E.size, len(E), E.alignment, E[{n}].size, E[{n}].alignment, E.dynamic)"
                res.count(("layout-class", head, c.name), True)
                try:
                    got = (E.size, len(E), E.alignment, E[n].size, E[n].alignment, bool(E.dynamic))
                except Exception as e:  # noqa: BLE001
                    viol(f"{c.kw} {c.name} over {c.spelling}: reading size / alignment raises {type(e).__name__}: {e}",
                         {"definition": head + structs, "repro": "\n".join([*script, line])})
                    continue
                wantc = (c.size, c.size, c.alignment, n * c.size, c.alignment, False)
                if got != wantc:
                    viol(f"{c.kw} {c.name} over {c.spelling}: (size, len, alignment, [{n}].size, [{n}].alignment, dynamic) = {got}, its underlying "
                         f"type has {wantc}", {"definition": head + structs, "repro": "\n".join([*script, line])})
    if tmpdir:
        try:
            for f in os.listdir(tmpdir):
                os.unlink(os.path.join(tmpdir, f))
            os.rmdir(tmpdir)
        except OSError:
            pass
    # ---- model correspondence
    if lines:
        answers = run_driver(lines)
        for (kind, want, data), ans in zip(cbs, answers):
            try:
                s = parse_sexp(ans)
                if kind == "layout":
                    got = (None if s[1] == "none" else int(s[1]), int(s[2]), [None if x == "none" else int(x) for x in s[3]]) if s[0] == "ok" else None
                    ok = got == want
                elif kind == "read":
                    ok = s[0] == "ok" and impl.same_val(want[0], s[1]) and int(s[2]) == want[1]
                else:
                    ok = s[0] == "ok" and str(s[1]) == (want.hex() if want else "-")
            except Exception:  # noqa: BLE001
                ok = False
            res.feat("layout:model:" + kind)
            if not ok and len(res.disagreements) < 50:
                res.disagreements.append(Case("corr", f"structure with enum/flag members, {kind}: model gives {ans[:300]}, implementation gives "
                                              f"{str(want)[:300] if kind != 'write' else want.hex()}", data))
