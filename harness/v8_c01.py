"""Helpers for the C01 check (round 8): MAGNITUDES - values whose encodings are long.

The other families of C01 draw integers (almost) always within 64 bits: random input bytes give LEB128 encodings of a few bytes,
the constructed values of the array family stop at 1 << 40, and boundary integers are only put into structures of fixed size.  The
types whose values are unbounded or wide - uleb128 / ileb128 (any Python int), int128 / uint128, int64 / uint64 - are the ones whose
reader and writer are loops over the value, and a loop that is right for every "usual" number can still stop early, wrap or
sign-extend at the wrong place on a long one.  This module generates

  definitions  structures made of WIDE members (the six types above) in every position the definition syntax has for them - scalar
               member, a[k], a[k][2], a[<expression over an earlier count member>], a[] (null-terminated), a[EOF] (last member), inside
               named and anonymous nested structures and arrays of nested structures - interleaved with narrow members (uint8 / int8 /
               uint16 / int16 / uint32 / char / enum E8) so that a reader that stops early or runs on mis-places everything that
               follows; mostly with LEB128 members (the structure is then dynamically sized and read by the interpreted reader also
               when compilation is requested), sometimes with fixed-width members only (the compiled reader / writer is then used).
  values       per member a Python value of chosen MAGNITUDE: for LEB128 the length n of the encoding is drawn first (1 .. 37 bytes,
               most of the mass on 9, 10, 11, 12, 16, 19 and more) and then a value whose encoding has exactly that length - the
               smallest and the largest such value, of either sign for ileb128, a random one, or a power of two (2**63, 2**64, 2**69,
               2**70, 2**77, 2**126, 2**127, 2**128 ...) plus or minus a little; for the fixed-width types the edges of the type, the
               powers of two inside it and random values of full width.
  origins      (a) constructed: the structure is built from keyword arguments (plain Python ints or instances of the member's type);
               (b) parsed: the same values are encoded by this module's own textbook encoder (LEB128 by the Wikipedia algorithm,
               C layout rule for alignment; sometimes with redundant - non-minimal - trailing LEB128 groups, which make an encoding
               longer than the value needs) followed by foreign bytes, and the structure is parsed from that.
  refusals     a fixed-width member (scalar, array element, member of a nested structure) of a dynamically sized structure is set
               to min-1 / max+1 / max + 2**bits / +-2**200, and a uleb128 member to a negative number: dumps must raise.
  stand-alone  the wide types themselves and array types of them (T[k], T[None], T[EOF], T[K2 + 1], typedef'd: u1_arrays.standalone_types)
               with values of the same magnitudes, dumped from plain ints / typed instances and parsed back, and parsed from bytes.

Nothing here evaluates the property: the predicates are the caller's (props/c01.py: check_roundtrip / check_constructed), which also
send every dump / parse to the Lean model.
"""
from __future__ import annotations

import random
import re

from . import defs, impl, refimpl, u1_arrays
from .structprops import has_eof

LEB = ("uleb128", "ileb128")
FIXED_WIDE = ("int128", "uint128", "int64", "uint64")
WIDE = LEB + FIXED_WIDE
NARROW = ("uint8", "int8", "uint16", "int16", "uint32", "char", "E8")
# encoding lengths (bytes) of LEB128 values; 10 bytes hold a 64 bit number, 19 a 128 bit one
LENGTHS = [1, 2, 5, 8, 9, 9, 10, 10, 10, 11, 11, 11, 12, 12, 13, 16, 16, 18, 19, 19, 20, 27, 37]
POWERS = [63, 64, 69, 70, 76, 77, 126, 127, 128, 133, 200]


def S(n):
    return ("enum", n) if n in defs.ENUMS else ("sc", n)


def F(name, ty):
    return {"name": name, "ty": ty, "bits": None}


# ------------------------------------------------------------------------------------------------ textbook LEB128 (independent of the library)

def leb_encode(v: int, signed: bool) -> bytes:
    """the shortest encoding (en.wikipedia.org/wiki/LEB128, "Encode unsigned / signed integer")"""
    if not signed and v < 0:
        raise ValueError("negative")
    out = bytearray()
    while True:
        byte = v & 0x7F
        v >>= 7
        done = (v == 0 and not byte & 0x40) or (v == -1 and byte & 0x40) if signed else v == 0
        out.append(byte if done else byte | 0x80)
        if done:
            return bytes(out)


def leb_len(v: int, signed: bool) -> int:
    return len(leb_encode(v, signed))


def leb_range(n: int, signed: bool):
    """(lo, hi) of the values that fit n groups of 7 bits"""
    return (-(1 << (7 * n - 1)), (1 << (7 * n - 1)) - 1) if signed else (0, (1 << (7 * n)) - 1)


def leb_stretch(rnd, enc: bytes, signed: bool) -> bytes:
    """the same value with redundant trailing groups (sign extension): a longer, non-minimal encoding"""
    last = enc[-1]
    fill = 0x7F if signed and last & 0x40 else 0x00
    k = rnd.choice([1, 2, 3, 9, 10, 11, 18])
    return enc[:-1] + bytes([last | 0x80]) + bytes([fill | 0x80]) * (k - 1) + bytes([fill])


def leb_value(rnd: random.Random, signed: bool, *, nonzero=False) -> int:
    """a value whose shortest encoding has a drawn length"""
    for _ in range(20):
        mode = rnd.random()
        if mode < 0.3:
            p = rnd.choice(POWERS)
            v = (1 << p) + rnd.choice([-2, -1, 0, 0, 1, 5])
            if signed and rnd.random() < 0.5:
                v = -v
        else:
            n = rnd.choice(LENGTHS)
            lo, hi = leb_range(n, signed)
            plo, phi = leb_range(n - 1, signed) if n > 1 else (0, -1)     # what the shorter encodings cover
            neg = signed and rnd.random() < 0.5
            if mode < 0.65:     # the edges of the length class
                v = rnd.choice([lo, lo + 1, plo - 1] if neg else [hi, hi - 1, phi + 1])
            else:
                v = rnd.randint(lo, plo - 1) if neg else rnd.randint(phi + 1, hi)
        if v or not nonzero:
            return v
    return 1 << 70


def fixed_range(name: str):
    _, size, signed, _ = refimpl.sc(name)
    bits = 8 * size
    return (-(1 << (bits - 1)), (1 << (bits - 1)) - 1) if signed else (0, (1 << bits) - 1)


def fixed_value(rnd: random.Random, name: str, *, nonzero=False) -> int:
    lo, hi = fixed_range(name)
    for _ in range(20):
        mode = rnd.random()
        if mode < 0.4:
            v = rnd.choice([lo, lo + 1, hi, hi - 1, -1, 0, 1, hi // 2, hi // 2 + 1, lo // 2])
        elif mode < 0.7:
            v = (1 << rnd.choice([7, 8, 15, 31, 32, 62, 63, 64, 65, 126, 127])) + rnd.choice([-1, 0, 1])
            if rnd.random() < 0.5:
                v = -v
        else:
            v = rnd.randint(lo, hi)
        if lo <= v <= hi and (v or not nonzero):
            return v
    return 1


# ------------------------------------------------------------------------------------------------ definitions

class WideGen:
    """definition trees (harness/defs.py format) of wide members in every position, interleaved with narrow ones"""

    def __init__(self, rnd: random.Random, *, leb=True):
        self.rnd, self.n = rnd, 0
        self.wide = WIDE if leb else FIXED_WIDE

    def name(self):
        self.n += 1
        return f"f{self.n}"

    def wide_ty(self):
        r = self.rnd
        return S(r.choice(LEB) if self.wide is WIDE and r.random() < 0.7 else r.choice(self.wide))

    def inner(self):
        """a nested structure with at least one wide member"""
        r = self.rnd
        fs = [F(self.name(), S(r.choice(NARROW)))] if r.random() < 0.6 else []
        fs.append(F(self.name(), self.wide_ty()))
        if r.random() < 0.5:
            fs.append(F(self.name(), ("arr", self.wide_ty(), ("fixed", r.randint(1, 3)))))
        if r.random() < 0.5:
            fs.append(F(self.name(), S(r.choice(NARROW))))
        return ("struct", fs)

    def struct(self):
        r = self.rnd
        fs = []
        for _ in range(r.randint(2, 5)):
            k = r.random()
            if k < 0.22:
                fs.append(F(self.name(), S(r.choice(NARROW))))
            elif k < 0.42:
                fs.append(F(self.name(), self.wide_ty()))
            elif k < 0.56:
                fs.append(F(self.name(), ("arr", self.wide_ty(), ("fixed", r.randint(0, 4)))))
            elif k < 0.62:
                fs.append(F(self.name(), ("arr", ("arr", self.wide_ty(), ("fixed", 2)), ("fixed", r.randint(1, 3)))))
            elif k < 0.72:
                cnt = self.name()
                fs.append(F(cnt, S("uint8")))
                fs.append(F(self.name(), ("arr", self.wide_ty(), ("expr", r.choice([cnt, f"{cnt} & 7", f"{cnt} - 1", f"K2 + {cnt} - 2"])))))
            elif k < 0.82:
                fs.append(F(self.name(), ("arr", self.wide_ty(), ("null",))))
            else:
                t = self.inner()
                m = r.random()
                if m < 0.25:
                    fs.append(F(None, t))
                elif m < 0.6:
                    fs.append(F(self.name(), ("arr", t, ("fixed", r.randint(1, 2)))))
                else:
                    fs.append(F(self.name(), t))
        if not any(defs.innermost(f["ty"])[0] == "sc" and defs.innermost(f["ty"])[1] in WIDE or defs.innermost(f["ty"])[0] == "struct" for f in fs):
            fs.insert(r.randint(0, len(fs)), F(self.name(), self.wide_ty()))
        if r.random() < 0.5:
            fs.append(F(self.name(), S(r.choice(NARROW))))     # something to mis-place behind the last wide member
        elif r.random() < 0.25:
            fs.append(F(self.name(), ("arr", self.wide_ty(), ("eof",))))
        return ("struct", fs)


# ------------------------------------------------------------------------------------------------ values (plain Python: int / bytes / list / dict)

def expr_len_to_count(rnd, expr: str, k: int) -> int:
    """a value of the count member for which the expression gives k"""
    if expr.endswith("& 7"):
        return k + 8 * rnd.randrange(0, 31)
    if expr.endswith("- 1"):
        return k + 1
    return k


def gen_value(rnd: random.Random, tree):
    """{member index: value} of a struct tree; nested structures are dicts of the same kind, arrays lists, char members bytes"""
    out = {}
    fields = tree[1]
    names = {f["name"]: i for i, f in enumerate(fields)}
    for i, f in enumerate(fields):
        out[i] = _gen(rnd, f["ty"], out, names)
    return out


def _scalar(rnd, name, nonzero=False):
    if name in LEB:
        return leb_value(rnd, name == "ileb128", nonzero=nonzero)
    if name == "char":
        return bytes([rnd.choice([0x41, 0x00, 0xFF, 0x80, 0x7F]) if not nonzero else 0x41])
    if name == "E8":
        return rnd.choice([1, 2, 7, 0, 200, 0xFF])
    return fixed_value(rnd, name, nonzero=nonzero)


def _gen(rnd, ty, sofar, names):
    k = ty[0]
    if k in ("sc", "enum"):
        return _scalar(rnd, ty[1])
    if k == "struct":
        return gen_value(rnd, ty)
    l = ty[2]
    if l[0] == "fixed":
        n = l[1]
    elif l[0] == "expr":
        n = rnd.choice([0, 1, 2, 2, 3, 4])
        cnt = next(nm for nm in re.findall(r"[A-Za-z_]\w*", l[1]) if nm in names)
        sofar[names[cnt]] = expr_len_to_count(rnd, l[1], n)
    else:
        n = rnd.choice([0, 1, 2, 3, 5])
    if l[0] == "null":
        return [_scalar(rnd, ty[1][1], nonzero=True) for _ in range(n)]
    return [_gen(rnd, ty[1], sofar, names) for _ in range(n)]


def build(rnd, T, tree, val, *, typed=0.3):
    """the real value: T(**keywords); integer leaves are plain ints or (with probability `typed`) instances of the member's type"""
    kw = {}
    for i, (f, rf) in enumerate(zip(tree[1], T.__fields__)):
        kw[rf._name] = _build(rnd, rf.type, f["ty"], val[i], typed)
    return T(**kw)


def _build(rnd, rt, ty, v, typed):
    k = ty[0]
    if k == "struct":
        return build(rnd, rt, ty, v, typed=typed)
    if k == "arr":
        return [_build(rnd, rt.type, ty[1], x, typed) for x in v]
    if k == "enum":
        return rt(v)
    if ty[1] != "char" and rnd.random() < typed:
        lo, hi = fixed_range(ty[1]) if ty[1] not in LEB else (v, v)
        if lo <= v <= hi:
            return rt(v)
    return v


def show(tree, val) -> str:
    """the value as the keyword arguments of a script"""
    def one(ty, v):
        if ty[0] == "struct":
            return "{" + ", ".join(f"{f['name'] or '<anonymous>'}: {one(f['ty'], v[i])}" for i, f in enumerate(ty[1])) + "}"
        if ty[0] == "arr":
            return "[" + ", ".join(one(ty[1], x) for x in v) + "]"
        return repr(v)
    return ", ".join(f"{f['name'] or '<anonymous>'}={one(f['ty'], val[i])}" for i, f in enumerate(tree[1]))


# ------------------------------------------------------------------------------------------------ textbook encoder (C layout rule)

def alignment(ty) -> int:
    k = ty[0]
    if k == "sc":
        return refimpl.sc(ty[1])[3]
    if k == "enum":
        return refimpl.sc(defs.ENUMS[ty[1]][1])[3]
    if k == "arr":
        return alignment(ty[1])
    return max([alignment(f["ty"]) for f in ty[1]] or [1])


def encode(rnd, tree, val, endian: str, align: bool, *, stretch=0.0) -> bytes:
    """the bytes of the value: members in order, each (aligned mode) at the next multiple of its alignment, an aligned structure
    padded at its end to a multiple of its alignment; padding bytes are arbitrary"""
    out = bytearray()
    order = "big" if endian == ">" else "little"
    eof_end = [0]

    def pad(al):
        while align and len(out) % al:
            out.append(rnd.choice([0x00, 0xFF, 0x80, 0xCC]))

    def scalar(name, v):
        if name in LEB:
            e = leb_encode(v, name == "ileb128")
            out.extend(leb_stretch(rnd, e, name == "ileb128") if rnd.random() < stretch else e)
        elif name == "char":
            out.extend(v)
        else:
            size = refimpl.sc(defs.ENUMS[name][1] if name in defs.ENUMS else name)[1]
            out.extend((v % (1 << (8 * size))).to_bytes(size, order))

    def one(ty, v):
        k = ty[0]
        if k in ("sc", "enum"):
            scalar(ty[1], v)
        elif k == "struct":
            for i, f in enumerate(ty[1]):
                pad(alignment(f["ty"]))
                one(f["ty"], v[i])
            pad(alignment(ty))
        else:
            for x in v:
                one(ty[1], x)
            if ty[2][0] == "eof":
                eof_end[0] = len(out)
            if ty[2][0] == "null":
                scalar(ty[1][1], b"\x00" if ty[1][1] == "char" else 0)

    one(tree, val)
    if align and has_eof(tree):
        # (a to-end-of-stream array takes everything up to the end of the input: no tail padding behind it)
        while out and len(out) > eof_end[0]:
            out.pop()
    return bytes(out)


# ------------------------------------------------------------------------------------------------ refusals

def leaves(tree, val):
    """(container, key, scalar type name, path text) of every integer leaf of a value"""
    out = []

    def walk(ty, box, key, p):
        k = ty[0]
        if k == "sc" and ty[1] != "char":
            out.append((box, key, ty[1], p))
        elif k == "struct":
            for i, f in enumerate(ty[1]):
                walk(f["ty"], box[key], i, f"{p}.{f['name'] or '<anonymous>'}")
        elif k == "arr":
            for j in range(len(box[key])):
                walk(ty[1], box[key], j, f"{p}[{j}]")

    for i, f in enumerate(tree[1]):
        walk(f["ty"], val, i, f["name"] or "<anonymous>")
    return out


def misfits(name):
    """integers the type cannot hold"""
    if name == "uleb128":
        return [-1, -(1 << 70), -(1 << 63) - 1, -128]
    lo, hi = fixed_range(name)
    return [lo - 1, hi + 1, hi + (hi - lo + 1), 1 << 200, -(1 << 200), 2 * lo - 1]


# ------------------------------------------------------------------------------------------------ the family

def wide_magnitudes(eng, res, rnd, tier, *, check_roundtrip, check_constructed, load):
    """structures of wide members holding values of long encodings: constructed and parsed, and refusals of what does not fit"""
    ndefs = 380 if tier == "quick" else 6000
    for _ in range(ndefs):
        leb = rnd.random() < 0.85
        tree = WideGen(rnd, leb=leb).struct()
        cfgs = [(e, a, c) for e in "<>" for a in (False, True) for c in (False, True)]
        for endian, align, compiled in rnd.sample(cfgs, 1 if tier == "quick" else 2):
            ptr = rnd.choice(["uint64", "uint32"])
            L, err = load(tree, endian=endian, align=align, compiled=compiled, pointer=ptr)
            if L is None:
                res.feat("magnitudes:definition-rejected:" + type(err).__name__)    # (no type, no values: not this property's business)
                continue
            sigs = eng.sigs(L)
            key = ("magnitudes", L.text, endian, align, compiled)
            res.feat("magnitudes:definitions" + (":with LEB128 members" if leb else ":fixed-width members only"))
            for k, v in defs.features(tree).items():
                res.feat("magnitudes:" + k, v)
            for _v in range(2 if tier == "quick" else 3):
                val = gen_value(rnd, tree)
                lens = [leb_len(box[k], nm == "ileb128") for box, k, nm, _ in leaves(tree, val) if nm in LEB]
                for n in lens:
                    res.feat("magnitudes:LEB128 encoding of " + ("1..8" if n <= 8 else str(n) if n <= 12 else "13..18" if n <= 18 else "19 and more") + " bytes")
                what = "magnitudes: T(" + show(tree, val)[:700] + ")"
                # (a) constructed
                try:
                    obj = build(rnd, L.T, tree, val)
                except Exception as e:  # noqa: BLE001
                    res.feat("magnitudes:constructor-raised:" + type(e).__name__)
                    continue
                res.feat("magnitudes:constructed values")
                check_constructed(eng, res, L, tree, obj, sigs, key=key, what=what)
                # (b) parsed from this module's own encoding of the same values (sometimes with non-minimal LEB128 encodings)
                stretch = 0.25 if rnd.random() < 0.4 else 0.0
                data = encode(rnd, tree, val, endian, align, stretch=stretch)
                d = impl.dump(L.T, obj)
                if not stretch:
                    res.feat("magnitudes:parsed input " + ("equals" if d[0] == "ok" and d[1] == data else "differs from (padding bytes aside)"
                                                           if d[0] == "ok" and len(d[1]) == len(data) else "DIFFERS IN LENGTH FROM") + " dumps(constructed value)")
                else:
                    res.feat("magnitudes:parsed inputs with non-minimal LEB128 encodings")
                if not has_eof(tree):
                    data += bytes(rnd.choice([0x80, 0xFF, 0x00, 0x41]) for _ in range(rnd.choice([0, 3, 20])))
                if check_roundtrip(eng, res, L, tree, data, sigs, key=key) is not None:
                    res.feat("magnitudes:parsed values")
            # refusals: what does not fit must not be written
            val = gen_value(rnd, tree)
            cands = [c for c in leaves(tree, val) if c[2] in FIXED_WIDE + NARROW + ("uleb128",)]
            for box, k, nm, p in rnd.sample(cands, min(len(cands), 2 if tier == "quick" else 4)):
                good, bad = box[k], rnd.choice(misfits(nm))
                box[k] = bad
                what = f"magnitudes: {p} = {bad} in T(" + show(tree, val)[:500] + ")"
                try:
                    obj = build(rnd, L.T, tree, val, typed=0.0)
                except Exception:  # noqa: BLE001
                    res.feat("magnitudes:refusal:refused by the constructor")
                    continue
                finally:
                    box[k] = good
                res.count((*key, "misfit", p, bad), True)
                res.feat(f"magnitudes:refusal:{nm}")
                d = impl.dump(L.T, obj)
                if d[0] == "ok":
                    eng.report(f"{p} = {bad} does not fit {nm} but was written: dumps(v) = {d[1].hex()[:300]} (truncated or wrapped); {what}",
                               eng.case_data(L, field=p, value=bad, constructed=what), sigs)
        if len(eng.lines) > 3000:
            eng.flush()


def wide_standalone(eng, res, rnd, tier):
    """the wide types on their own and array types of them: dumps of plain ints / typed instances of long encodings parsed back
    (followed by foreign bytes), and values parsed from this module's own encodings; what does not fit must be refused"""
    for si in range(100 if tier == "quick" else 2000):
        endian = rnd.choice("<>")
        sess = impl.Session(endian=endian, pointer=rnd.choice(["uint64", "uint32"]))
        name = rnd.choice(LEB) if rnd.random() < 0.7 else rnd.choice(FIXED_WIDE)
        signed = name in ("ileb128", "int128", "int64")
        order = "big" if endian == ">" else "little"
        try:
            et = sess.cs.resolve(name)
            types = [("scalar", et, f"cs.resolve({name!r})", None)] + u1_arrays.standalone_types(rnd, sess, ("sc", name), f"W{si}")
        except Exception as e:  # noqa: BLE001
            res.feat("magnitudes:standalone:type-rejected:" + type(e).__name__)
            continue
        res.feat("magnitudes:standalone:instances")

        def enc1(v):
            if name in LEB:
                return leb_encode(v, signed)
            size = refimpl.sc(name)[1]
            return (v % (1 << (8 * size))).to_bytes(size, order)

        for form, t, text, k in rnd.sample(types, 4 if tier == "quick" else len(types)):
            per = 2 if form in ("fixed2d", "eof2d") else 1
            n = 1 if form == "scalar" else k if k is not None else rnd.choice([1, 2, 3, 5])
            nz = form == "null"
            flat = [(leb_value(rnd, signed, nonzero=nz) if name in LEB else fixed_value(rnd, name, nonzero=nz)) for _ in range(n * per)]
            foreign = b"" if form in ("eof", "eof2d") else b"\xEE\xEE"
            body = b"".join(enc1(v) for v in flat) + (enc1(0) if nz else b"")
            typed = rnd.random() < 0.3
            try:
                vals = [et(v) for v in flat] if typed else list(flat)
            except Exception as e:  # noqa: BLE001
                res.feat("magnitudes:standalone:constructor-raised:" + type(e).__name__)
                continue
            val = vals[0] if form == "scalar" else [vals[i: i + 2] for i in range(0, len(vals), 2)] if per == 2 else vals
            res.feat(f"magnitudes:standalone:{form}:{name}")
            if name in LEB:
                for v in flat:
                    m = leb_len(v, signed)
                    res.feat("magnitudes:LEB128 encoding of " + ("1..8" if m <= 8 else str(m) if m <= 12 else "13..18" if m <= 18 else "19 and more") + " bytes")
            for origin, x in (("constructed", val), ("parsed", body)):
                cd = {"history": list(sess.steps), "type": text, "endian": endian, origin: x.hex() if origin == "parsed" else repr(x)[:600]}
                if origin == "parsed":
                    r = impl.parse(t, x + foreign)
                    cd["repro"] = sess.script([f"t = {text}; v = t(bytes.fromhex({(x + foreign).hex()!r})); d = t.dumps(v); assert t(d) == v"])
                    if r[0] != "ok":
                        res.feat("input-rejected:" + r[1])      # (no value: the property speaks of values)
                        continue
                    v, obj = impl.canon(r[1]), r[1]
                else:
                    v, obj = impl.canon(x), x
                    cd["repro"] = sess.script([f"t = {text}; v = {x!r}; d = t.dumps(v); assert t(d + b'\\xee\\xee') == v"])
                res.count(("magnitudes-standalone", text, endian, origin, repr(v)), True)
                d = impl.dump(t, obj)
                if d[0] != "ok":
                    eng.report(f"a {origin} {text} value cannot be dumped: {d[1]}; v = {str(v)[:300]}", cd, [])
                    continue
                back = impl.parse(t, d[1] + foreign)
                if back[0] != "ok" or not impl.same_val(v, impl.canon(back[1])) or back[1] != obj or back[2] != len(d[1]):
                    eng.report(f"{text} ({origin} value): parse(dumps(v)) = {str(impl.canon(back[1]))[:300] if back[0] == 'ok' else back} "
                               f"consuming {back[2] if back[0] == 'ok' else '-'} of {len(d[1])}; v = {str(v)[:300]}, dumps(v) = {d[1].hex()}", cd, [])
            # refusal
            if name != "ileb128" and flat:
                bad = rnd.choice(misfits(name))
                j = rnd.randrange(len(flat))
                flat2 = list(flat)
                flat2[j] = bad
                val2 = flat2[0] if form == "scalar" else [flat2[i: i + 2] for i in range(0, len(flat2), 2)] if per == 2 else flat2
                res.count(("magnitudes-standalone", text, endian, "misfit", repr(val2)), True)
                res.feat(f"magnitudes:standalone:refusal:{name}")
                d = impl.dump(t, val2)
                if d[0] == "ok":
                    eng.report(f"{text}: {bad} does not fit {name} but dumps({str(val2)[:200]}) = {d[1].hex()[:300]} (truncated or wrapped)",
                               {"history": list(sess.steps), "type": text, "endian": endian, "value": repr(val2)[:600],
                                "repro": sess.script([f"t = {text}; t.dumps({val2!r})   # must raise"])}, [])
