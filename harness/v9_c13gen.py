"""C13 unknown / cyclic aliases in every position: the generators (see harness/v9_c13.py for the family, the oracle and the domain notes).

One SCENARIO = instance options (endianness spelling, pointer width, load options) + a prelude of good definitions + a position / form
with a hole for a type name + an entry point + a presentation (one text / prelude apart / one load() per definition) + a layout.  It
is instantiated twice: with a name that does not resolve (the case proper, followed by its repair) and with a name that does (control).
Every case is a JSON-able dict whose "steps" are a script for v9_c13.run_steps (so that a recorded case replays exactly).
"""
from __future__ import annotations

import random
import sys

from . import v1_c13 as v1
from .v9_c13 import (BAD_POOL, ENDIANS, ENTRIES, EXPRS, INTS, INTS_MULTI, LAYOUTS, LIMIT, OPTS, OTHERS, POINTERS, PRESENTATIONS, READS, STRUCT_FIELDS,
                     struct_size)

SCALAR_SIZES = {**INTS, **OTHERS}
ELEMS = {"uint8": 1, "int8": 1, "char": 1, "uint16": 2, "uint32": 4}
WRAPPERS = {"alone": None, "in-struct": "struct W { uint8 pre; %s s; uint8 post; };", "in-union": "union W { %s s; uint8 raw[2]; };",
            "array-of": "typedef %s W[2];"}


def _tok(text):
    return text.split(" ")


def expr_tokens(text):
    """split an expression text at its top-level blanks, keeping `sizeof (X)` and everything inside parentheses together (those blanks are
    part of the shape); the layout mutants put their blanks / comments between these tokens"""
    if "/" in text:
        return [text]       # (a `/` operator as a token of its own would form `//` or `/*` with a comment the mutants put next to it)
    out, depth, cur = [], 0, ""
    for i, ch in enumerate(text):
        if ch == " " and depth == 0 and not (cur.endswith("sizeof") and text[i + 1: i + 2] == "("):
            if cur:
                out.append(cur)
            cur = ""
            continue
        depth += ch == "("
        depth -= ch == ")"
        cur += ch
    if cur:
        out.append(cur)
    return out


# ------------------------------------------------------------------------------------------------ prelude, good and bad names

def gen_prelude(rnd, m, align):
    """good definitions that come before the offending one -> items, info (sizes by the harness's own tables)"""
    k0 = rnd.choice([2, 3, 4, 5])
    base = rnd.choice(sorted(SCALAR_SIZES))
    depth = rnd.randint(1, 3)
    fields = [(f"m{i}", rnd.choice(sorted(STRUCT_FIELDS))) for i in range(rnd.randint(1, 4))]
    ebase = rnd.choice(["uint8", "uint16", "uint32", "int32", "uint64", "unsigned short", "WORD"])
    items = [m.Item([(f"#define K0 {k0}\n",)], {"K0"}, set(), line=True)]
    prev = base
    for i in range(depth):
        items.append(m.Item(["typedef", prev, f"g{i}", ";"], {f"g{i}"}, set()))
        prev = f"g{i}"
    body = []
    for n, t in fields:
        body += [t, n, ";"]
    items.append(m.Item(["struct", "G", "{"] + body + ["}", ";"], {"G"}, set()))
    items.append(m.Item(["enum", "GE", ":"] + _tok(ebase) + ["{", "GE_A", ",", "GE_B", "=", "4", "}", ";"], {"GE"}, set(), enum=True))
    sizes = {f"g{i}": SCALAR_SIZES[base] for i in range(depth)}
    sizes["G"] = struct_size(fields, align)
    sizes["GE"] = {**INTS, **INTS_MULTI}[ebase]
    return items, {"k0": k0, "sizes": sizes, "ints": [f"g{i}" for i in range(depth)] if base in INTS else [], "typedefs": [f"g{i}" for i in range(depth)],
                   "deepest": f"g{depth - 1}"}


def gen_good(rnd, pre, need_int, one_word, builtin):
    """a name that resolves -> (name, size, api steps that build it, description)"""
    r = rnd.random()
    pool = dict(INTS) if need_int else dict(SCALAR_SIZES)
    if not one_word:
        pool.update(INTS_MULTI)
    if r < 0.35:
        n = rnd.choice(sorted(pool))
        return n, pool[n], [], "built-in" + (":synonym" if isinstance(builtin.get(n), str) else "")
    if r < 0.6:
        cands = pre["ints"] if need_int else pre["typedefs"]
        if cands:
            n = rnd.choice(cands)
            return n, pre["sizes"][n], [], "prelude-typedef"
    if r < 0.75 and not need_int:
        n = rnd.choice(["G", "GE"])
        return n, pre["sizes"][n], [], "prelude-" + ("struct" if n == "G" else "enum")
    # a chain of text aliases built through the API, ending in a built-in or prelude name; up to exactly LIMIT lookups
    end = rnd.choice(sorted(INTS) if need_int else sorted(SCALAR_SIZES) + ["G", "GE", pre["deepest"]])
    size = pre["sizes"][end] if end in pre["sizes"] else SCALAR_SIZES[end]
    extra = 2 if isinstance(builtin.get(end), str) else 1          # lookups from `end` to the type object
    length = rnd.choice([1, 1, 2, 3, 5, LIMIT - extra, LIMIT - extra])
    names = [f"ok{i}_t" for i in range(length)]
    how = rnd.choice(["add_type", "add_type", "typedefs"])
    steps = [["api", how, a, b] for a, b in zip(names, names[1:] + [end])]
    rnd.shuffle(steps)
    return names[0], size, steps, f"api-chain:lookups={length + extra}"


def gen_bad(rnd, pre, builtin, multiword_ok, allow_later=True):
    """a name that does not resolve -> dict(kind, detail, name, steps (api), later (tokens of its later definition | None), later_enum,
    repair (api steps), repaired_size (None: no repair), repaired_int, later_fields)"""
    taken = set(builtin) | set(pre["sizes"]) | {"K0", "S", "S2", "_S", "A", "E", "W", "N", "Z8", "Z9"}
    pool = [n for n in BAD_POOL if n not in taken]
    kinds = ["unknown", "unknown", "later", "later", "dangling", "dangling", "cycle", "cycle", "overlong"]
    kind = rnd.choice([k for k in kinds if allow_later or k != "later"])
    base = rnd.choice(pool)
    good = rnd.choice(["uint16", "uint32", "uint8", "uint64", "DWORD", "int16"])
    gsize = INTS[good]
    b = {"kind": kind, "detail": kind, "name": base, "steps": [], "later": None, "later_enum": False, "repair": [], "repaired_size": None,
         "repaired_int": True, "later_fields": None}
    if kind == "unknown":
        if multiword_ok and rnd.random() < 0.4:
            name = rnd.choice(["unsigned", "signed", "long", "struct_t"]) + " " + base
            if name not in builtin:
                b.update(name=name, detail="unknown:two-words")
        return b
    if kind == "later":
        form = rnd.choice(["typedef", "typedef", "struct", "enum", "typedef-struct"])
        b["detail"] = "later:" + form
        if form == "typedef":
            b.update(later=["typedef", good, base, ";"], repaired_size=gsize)
        elif form == "struct":
            b.update(later=["struct", base, "{", good, "q0", ";", "uint8", "q1", ";", "}", ";"], later_fields=[("q0", good), ("q1", "uint8")], repaired_int=False)
        elif form == "enum":
            b.update(later=["enum", base, ":", good, "{", base + "_A", "}", ";"], later_enum=True, repaired_size=gsize, repaired_int=False)
        else:
            b.update(later=["typedef", "struct", "{", good, "q0", ";", "}", base, ";"], repaired_size=gsize, repaired_int=False)
        return b
    if kind == "dangling":
        n = rnd.randint(1, 4)
        names = [base] + [f"{base}{i}" for i in range(1, n)]
        missing = rnd.choice([p for p in pool if p not in names])
        hows = [rnd.choice(["add_type", "add_type", "typedefs", "legacy-typedef"]) for _ in names]
        steps = [["api", h, a, t] for h, a, t in zip(hows, names, names[1:] + [missing])]
        rnd.shuffle(steps)
        b.update(name=rnd.choice(names), steps=steps, repair=[["api", "add_type", missing, good]], repaired_size=gsize,
                 detail=f"dangling:chain={n}:" + "+".join(sorted(set(hows))))
        return b
    if kind == "cycle":
        n, lead = rnd.randint(1, 4), rnd.randint(0, 2)
        names = [f"{base}_l{i}" for i in range(lead)] + [f"{base}_c{i}" for i in range(n)]
        steps = [["api", rnd.choice(["add_type", "add_type", "add_type", "typedefs"]), a, t] for a, t in zip(names, names[1:] + [names[lead]])]
        rnd.shuffle(steps)
        # the repair replaces the link that closes the cycle: every name then reaches `good` within lead + n + 2 <= 8 lookups
        b.update(name=rnd.choice(names), steps=steps, repair=[["api", "add_type-replace", names[-1], good]], repaired_size=gsize,
                 detail=f"cycle:length={n}:lead-in={lead}")
        return b
    # overlong: more lookups than resolve() follows, ending in a real type
    end = rnd.choice(["uint8", "uint32", "DWORD", "G", pre["deepest"]])
    extra = 2 if isinstance(builtin.get(end), str) else 1
    length = rnd.choice([LIMIT - extra + 1, LIMIT - extra + 1, LIMIT, LIMIT + 2, LIMIT + 5])
    names = [f"{base}_o{i}" for i in range(length)]
    steps = [["api", rnd.choice(["add_type", "typedefs"]), a, t] for a, t in zip(names, names[1:] + [end])]
    rnd.shuffle(steps)
    b.update(name=names[0], steps=steps, detail=f"overlong:lookups={length + extra}")
    return b


# ------------------------------------------------------------------------------------------------ positions

def filler(rnd, i, legacy):
    simple = [["uint8", f"p{i}", ";"], ["uint16", f"p{i}", ";"], ["char", (f"p{i}[3]",), ";"]]
    return rnd.choice(simple if legacy else simple + [["uint32", "*", f"p{i}", ";"], ["unsigned", "int", f"p{i}", ";"]])


def gen_position(rnd, legacy):
    """one position / form with a hole for a type name -> dict:
    position, form, expr (sizeof positions), lazy, need_int, one_word, enum, line, consts_defined,
    build(name tokens) -> (tokens of the offending definition, type names it registers, the name to reach it by, top-level tag?)   [pure]
    control(via, name, size, k0) -> steps that check the binding when the name resolves                                        [pure]"""
    positions = ["field", "field", "typedef", "typedef", "enum-base", "define-sizeof", "define-sizeof", "enum-value-sizeof", "array-dim-sizeof", "array-dim-sizeof"]
    if legacy:
        positions = ["field", "enum-base", "enum-value-sizeof", "array-dim-sizeof"]
    pos = rnd.choice(positions)
    p = {"position": pos, "expr": None, "lazy": False, "need_int": False, "one_word": legacy, "enum": False, "line": False, "consts_defined": []}
    if pos == "field":
        form = rnd.choice(["plain", "plain", "pointer", "array", "array-nt"] if legacy else
                          ["plain", "plain", "pointer", "array", "array-nt", "array-2d", "array-const", "bit-field", "struct-kw", "nested-struct", "nested-union"])
        before = sum((filler(rnd, i, legacy) for i in range(rnd.randint(0, 2))), [])
        after = sum((filler(rnd, 5 + i, legacy) for i in range(rnd.randint(0, 2))), [])
        decl = {"plain": ["f", ";"], "pointer": ["*f", ";"] if legacy else ["*", "f", ";"], "array": [("f[2]",), ";"], "array-nt": [("f[]",), ";"],
                "array-2d": [("f[2][3]",), ";"], "array-const": [("f[K0]",), ";"], "bit-field": ["f", ":", "3", ";"], "struct-kw": ["f", ";"]}
        hops = {"plain": ["f"], "pointer": ["f", "*"], "array": ["f", "[]"], "array-nt": ["f", "[]"], "array-2d": ["f", "[]", "[]"], "array-const": ["f", "[]"],
                "bit-field": ["f"], "struct-kw": ["f"], "nested-struct": ["n", "f"], "nested-union": ["n", "f"]}[form]
        cform = "struct" if legacy else rnd.choice(["struct", "struct", "union", "typedef-anon", "typedef-anon-list", "typedef-tagged", "anon-declarator"])
        ckw = rnd.choice(["struct", "union"])
        second = rnd.random() < 0.5
        extra = rnd.random() < 0.5
        p.update(form=form + "/" + cform, need_int=form == "bit-field", one_word=legacy or form == "struct-kw")

        def build(xt):
            if form in ("nested-struct", "nested-union"):
                member = ["struct" if form == "nested-struct" else "union", "{"] + xt + ["f", ";"] + (["uint8", "g", ";"] if extra else []) + ["}", "n", ";"]
            else:
                member = (["struct"] if form == "struct-kw" else []) + xt + decl[form]
            body = before + member + after
            if cform in ("struct", "union"):
                # (the legacy parser registers the name after the members are read: nothing is left behind there)
                return [cform, "S", "{"] + body + ["}", ";"], ["S"], "S", not legacy
            if cform == "typedef-anon":
                return ["typedef", "struct", "{"] + body + ["}", "S", ";"], ["S"], "S", False
            if cform == "typedef-anon-list":
                return ["typedef", ckw, "{"] + body + ["}", "S", ",", "S2", ";"], ["S", "S2"], "S2" if second else "S", False
            if cform == "typedef-tagged":
                return ["typedef", "struct", "_S", "{"] + body + ["}", "S", ";"], ["_S", "S"], "_S" if second else "S", False
            return ["struct", "{"] + body + ["}", "S", ";"], ["S"], "S", False
        p["build"] = build
        p["control"] = lambda via, name, size, k0: [["binds", ["type", via], hops, name, None]]
        return p
    if pos == "typedef":
        form = rnd.choice(["plain", "plain", "pointer", "array"])
        p.update(form=form)
        p["build"] = lambda xt: (["typedef"] + xt + {"plain": ["A", ";"], "pointer": ["*", "A", ";"], "array": [("A[3]",), ";"]}[form], ["A"], "A", False)
        p["control"] = lambda via, name, size, k0: [["binds", ["type", "A"], {"plain": [], "pointer": ["*"], "array": ["[]"]}[form], name, 3 if form == "array" else None]]
        return p
    if pos == "enum-base":
        form = "named" if legacy else rnd.choice(["named", "named", "anonymous", "flag", "anonymous-flag"])
        kw = "flag" if "flag" in form else "enum"
        p.update(form=form, need_int=True, enum=True)
        if form.startswith("anonymous"):
            # (the keyword of an anonymous enum carries its blank: `enum:` is rejected by the scanner, see v8_c13)
            p["consts_defined"] = ["EA", "EB"]
            p["build"] = lambda xt: ([kw + " ", ":"] + xt + ["{", "EA", "=", "1", ",", "EB", "}", ";"], [], None, False)
            p["control"] = lambda via, name, size, k0: [["binds", ["const", "EA"], ["base"], name, None], ["const", "EB", 2]]
        else:
            p["build"] = lambda xt: ([kw, "E", ":"] + xt + ["{", "EA", "=", "1", ",", "EB", "}", ";"], ["E"], "E", False)
            p["control"] = lambda via, name, size, k0: [["binds", ["type", "E"], ["base"], name, None], ["members", "E", {"EA": 1, "EB": 2}]]
        return p
    # ---- sizeof positions (sizeof takes one word)
    text, fn, _needs_k0 = rnd.choice(EXPRS)
    p.update(one_word=True, expr=text, fn=fn)
    if pos == "define-sizeof":
        p.update(form="define", line=True, consts_defined=["N"])
        p["build"] = lambda xt: ([("#define N " + text.replace("{X}", xt[0]) + "\n",)], [], None, False)
        p["control"] = lambda via, name, size, k0: [["const", "N", fn(size, k0)]]
        return p
    if pos == "enum-value-sizeof":
        with_member = not legacy and rnd.random() < 0.5       # (legacy enum values do not see earlier members)
        kw = "enum" if legacy else rnd.choice(["enum", "enum", "flag"])
        p.update(form=kw + ("-value-after-member" if with_member else "-value"), enum=True)
        p["build"] = lambda xt: ([kw, "E", ":", "uint32", "{", "VA", "=", "1", ",", "VB", "="] + (["VA", "+", "(" + text.replace("{X}", xt[0]) + ")"] if with_member else
                                                                                              expr_tokens(text.replace("{X}", xt[0]))) +
                                 [",", "VC", "}", ";"], ["E"], "E", False)

        def control(via, name, size, k0):
            vb = (1 + fn(size, k0)) if with_member else fn(size, k0)
            return [["members", "E", {"VA": 1, "VB": vb, "VC": vb + 1 if kw == "enum" else 2 ** vb.bit_length()}]]
        p["control"] = control
        return p
    # array dimension: looked up when data is read
    elem = rnd.choice(["uint8", "uint8", "char", "uint16", "uint32", "int8"])
    form = "struct" if legacy else rnd.choice(["struct", "struct", "struct-2d", "typedef"])
    p.update(form="array-dim:" + form, lazy=True, elem=elem, dimform=form)
    if form == "typedef":
        p["build"] = lambda xt: (["typedef", elem, ("A[" + text.replace("{X}", xt[0]) + "]",), ";"], ["A"], "A", False)
    else:
        p["build"] = lambda xt: (["struct", "S", "{", "uint8", "n", ";", elem, (("a[2][" if form == "struct-2d" else "a[") + text.replace("{X}", xt[0]) + "]",), ";",
                                  "uint8", "tail", ";", "}", ";"], ["S"], "S", True)
    p["control"] = None
    return p


def expected_read(p, count, data: bytes, endian, where):
    """what a read of the array-dimension position gives when the dimension is `count`: the harness's own slicing of the data (every
    generated layout is the packed one: members of alignment > 1 are only generated without align=True)"""
    order = "big" if endian in (">", "!") else "little" if endian == "<" else sys.byteorder
    es = ELEMS[p["elem"]]

    def elems(off, n):
        if p["elem"] == "char":
            return data[off: off + n].hex()
        return [int.from_bytes(data[off + i * es: off + (i + 1) * es], order, signed=p["elem"] == "int8") for i in range(n)]

    def one(off):
        if p["dimform"] == "typedef":
            return elems(off, count), off + count * es
        n = data[off]
        off += 1
        if p["dimform"] == "struct-2d":
            a = [elems(off + r * count * es, count) for r in range(2)]
            off += 2 * count * es
        else:
            a = elems(off, count)
            off += count * es
        return {"n": n, "a": a, "tail": data[off]}, off + 1
    if where == "alone":
        return one(0)[0]
    if where == "in-struct":
        v, off = one(1)
        return {"pre": data[0], "s": v, "post": data[off]}
    if where == "in-union":
        return {"s": one(0)[0], "raw": list(data[:2])}
    v0, off = one(0)
    return [v0, one(off)[0]]


def needed_bytes(p, count):
    return 2 * (2 + 2 * count * ELEMS[p["elem"]]) + 4


# ------------------------------------------------------------------------------------------------ scenarios

def gen_scenario(rnd, m, builtin, tier):
    """-> [the case with a name that does not resolve, its control]"""
    entry = rnd.choice(ENTRIES)
    legacy = entry == "legacy"
    opts = dict(rnd.choice(OPTS))
    endian, pointer = rnd.choice(ENDIANS), rnd.choice(POINTERS)
    p = gen_position(rnd, legacy)
    if p["lazy"] and ELEMS[p["elem"]] > 1:
        opts.pop("align", None)           # (expected_read slices the packed layout)
    # (the prelude and the later definition are loaded by the token parser with the options, also where the offending one goes to the legacy parser)
    pre_items, pre = gen_prelude(rnd, m, bool(opts.get("align")))
    bad = gen_bad(rnd, pre, builtin, not p["one_word"])
    if p["need_int"] and not bad["repaired_int"]:
        # (an enum base / bit-field type has to be an integer type once it is defined)
        bad.update(later=["typedef", "uint16", bad["name"], ";"], later_enum=False, repaired_size=2, repaired_int=True, later_fields=None)
    if bad["later_fields"]:
        bad["repaired_size"] = struct_size(bad["later_fields"], bool(opts.get("align")))
    good_name, good_size, good_steps, good_detail = gen_good(rnd, pre, p["need_int"], p["one_word"], builtin)
    if p["position"] == "field" and p["form"].startswith("struct-kw"):
        good_name, good_size, good_steps, good_detail = "G", pre["sizes"]["G"], [], "prelude-struct"
    presentation = rnd.choice(PRESENTATIONS)
    layout = "compact" if legacy else rnd.choice(LAYOUTS)
    post_items = [m.Item(["typedef", "uint8", "Z9", ";"], {"Z9"}, set())] if rnd.random() < 0.4 else []
    if rnd.random() < 0.3:
        post_items.append(m.Item(["struct", "Z8", "{", "uint16", "z", ";", "}", ";"], {"Z8"}, set()))
    late_api = rnd.random() < 0.3              # the API aliases are added after the prelude is loaded (else before anything is)
    later_same_text = rnd.random() < 0.5
    layout_seed = rnd.getrandbits(48)
    where = rnd.choice(sorted(WRAPPERS)) if p["lazy"] else None
    reads = rnd.sample(READS, 3 if tier == "quick" else 5) if p["lazy"] else []
    counts = [p["fn"](s, pre["k0"]) for s in (good_size, bad["repaired_size"]) if s is not None] if p["lazy"] else []
    data = bytes(rnd.randrange(256) for _ in range(max([needed_bytes(p, c) for c in counts] + [48])))
    base = {"family": "unresolved", "endian": endian, "pointer": pointer, "position": p["position"], "form": p["form"], "expr": p["expr"], "entry": entry,
            "presentation": presentation, "layout": layout, "options": opts}

    def render(items):
        if layout == "compact":
            return m.render(items)
        kw = {"rich": True} if layout == "layout-rich" else {"sepgen": v1.comment_only_sep} if layout == "comment-only" else {}
        return m.render(items, random.Random(layout_seed), **kw)

    def script(name, is_bad):
        toks, types, via, tagged = p["build"](_tok(name))
        off_item = m.Item(toks, set(types), set(), line=p["line"], enum=p["enum"])
        apis = bad["steps"] if is_bad else good_steps
        later_item = m.Item(bad["later"], {name}, set(), enum=bad["later_enum"]) if is_bad and bad["later"] else None
        pre_entry = "load" if legacy else entry           # (the prelude uses forms the legacy grammar does not have)
        expect = "ok" if not is_bad else "ok|resolve" if p["lazy"] else "resolve"
        ld = lambda items, exp, ent=entry: ["load", render(items), ent, opts, exp]  # noqa: E731
        tail_same = ([later_item] if later_item is not None and later_same_text else []) + post_items
        steps = [] if (late_api and apis) else list(apis)
        if presentation == "one-text" and not legacy and not (late_api and apis):
            steps.append(ld(pre_items + [off_item] + tail_same, expect))
            not_loaded = []
        else:
            steps += [ld([it], "ok", pre_entry) for it in pre_items] if presentation == "per-definition" else [ld(pre_items, "ok", pre_entry)]
            if late_api:
                steps += apis
            if presentation == "per-definition" or legacy:
                steps.append(ld([off_item], expect))
                not_loaded = tail_same
            else:
                steps.append(ld([off_item] + tail_same, expect))
                not_loaded = []
        wrapper = WRAPPERS[where] % via if where and where != "alone" else None
        use_name = "W" if wrapper else via

        def uses(count):
            return [["use", use_name, how, data.hex(), "resolve" if count is None else ["value", expected_read(p, count, data, endian, where)]] for how in reads]
        if not is_bad:
            steps += [ld([it], "ok", pre_entry) for it in not_loaded]
            if p["lazy"]:
                return steps + ([["load", wrapper, "load", opts, "ok"]] if wrapper else []) + uses(p["fn"](good_size, pre["k0"]))
            return steps + p["control"](via, name, good_size, pre["k0"])
        repaired = bad["repaired_size"]
        if p["lazy"]:
            # accepted: everything of the text is loaded; the dimension is looked up by every read
            steps += [ld([it], "ok", pre_entry) for it in not_loaded]
            if wrapper:
                steps.append(["load", wrapper, "load", opts, "ok"])
            if later_item is not None and later_same_text:
                return steps + uses(p["fn"](repaired, pre["k0"]))         # defined further down in the same text: bound when data is read
            steps += uses(None)
            steps += [ld([later_item], "ok", pre_entry)] if later_item is not None else bad["repair"]
            return steps + (uses(p["fn"](repaired, pre["k0"])) if repaired is not None else [])
        # refused: nothing after the offending definition is loaded, nothing of it is left behind, the instance still works
        steps.append(["clean", p["consts_defined"], [t for t in types if not (tagged and t == "S")]])
        steps += [ld([it], "ok", pre_entry) for it in ([later_item] if later_item is not None else []) + post_items]
        if later_item is None:
            steps += bad["repair"]
        if repaired is not None and not tagged:
            # once the name is defined the same text is accepted and binds to that type
            steps.append(ld([off_item], "ok"))
            steps += p["control"](via, name, repaired, pre["k0"])
        return steps

    tables = {"prelude": m.render(pre_items)}
    out = []
    for is_bad in (True, False):
        name = bad["name"] if is_bad else good_name
        steps = script(name, is_bad)
        out.append(dict(base, kind=bad["detail"] if is_bad else "control:" + good_detail, bad_name=name if is_bad else None, name=name,
                        role="unresolved" if is_bad else "control", steps=steps,
                        alias_table=dict(tables, apis=bad["steps"] if is_bad else good_steps)))
    return out


def gen_api_case(rnd, m, builtin):
    """Expression / cs.resolve / cs.NAME / cs.read / cs.add_type on a name that does not resolve, and the control"""
    pre_items, pre = gen_prelude(rnd, m, False)
    bad = gen_bad(rnd, pre, builtin, False, allow_later=False)
    good_name, good_size, good_steps, good_detail = gen_good(rnd, pre, False, True, builtin)
    text, fn, _k = rnd.choice(EXPRS)
    ctx = rnd.choice([None, None, {}, {"n": 3}, {"K0": 7}])
    k0 = (ctx or {}).get("K0", pre["k0"])
    data = (bytes([rnd.randrange(0x20, 0x7f)]) * 40).hex()     # (any fixed-size good type reads 40 equal ASCII bytes: no surrogate in a wchar)
    late = rnd.random() < 0.5
    base = {"family": "unresolved", "endian": rnd.choice(ENDIANS), "pointer": rnd.choice(POINTERS), "position": "api", "form": "api", "expr": text, "entry": "api",
            "presentation": "api", "layout": "compact", "options": {}}
    out = []
    state = rnd.getstate()
    for is_bad in (True, False):
        rnd.setstate(state)
        name = bad["name"] if is_bad else good_name
        apis = bad["steps"] if is_bad else good_steps
        load = [["load", m.render(pre_items), "load", {}, "ok"]]
        steps = load + apis if late else apis + load
        exp = "resolve" if is_bad else None
        calls = [["expr", text.replace("{X}", name), ctx, exp or ["value", fn(good_size, k0)]],
                 ["call", "resolve", name, None, exp or ["is", name]],
                 ["call", "cs.read", name, data, exp or ["ok"]]]
        if is_bad:
            # a re-declaration is compared through resolve: an existing name cannot be re-declared as something that does not resolve
            calls.append(["call", "add_type", rnd.choice(["uint8", "G", "g0", "DWORD"]), name, "resolve"])
        if apis:
            calls.append(["call", "getattr", name, None, "auto"])
        rnd.shuffle(calls)
        steps += calls
        if is_bad and bad["repair"]:
            steps += bad["repair"] + [["expr", text.replace("{X}", name), ctx, ["value", fn(bad["repaired_size"], k0)]], ["call", "resolve", name, None, ["is", name]]]
        out.append(dict(base, kind=bad["detail"] if is_bad else "control:" + good_detail, bad_name=name if is_bad else None, name=name,
                        role="unresolved" if is_bad else "control", steps=steps, alias_table={"prelude": m.render(pre_items), "apis": apis}))
    return out
