"""C06, round 9: BIT-FIELDS DECLARED THROUGH THE API - the same layout built along every public construction route.

The other families of C06 declare their structures through `cs.load(text)` (token parser) only.  A structure class can be brought
into being along several other routes, and every one of them has its own code in front of the layout / reader / writer:

  load      cs.load(text, compiled=, align=) in one piece (nested structures inline or as named definitions)           [baseline]
  loadfile  cs.loadfile(path, compiled=, align=) of the same text written to a real file
  legacy    cs.load(text, deftype=cstruct.DEF_LEGACY, compiled=): the regex parser (see LEGACY below for its domain)
  fields    Field(name, type, bits) objects handed to cs._make_struct(name, fields, align=), compiler.compile(T) for compiled
  add       a base class with the first k fields (k = 0: an empty class; made by cs.load or by _make_struct) and the remaining
            members added ONE BY ONE with T.add_field(name, type, bits) - bits positional or as keyword, as drawn
  update    the same, the remaining members added in chunks, each chunk either inside a `with T.start_update():` block or directly

Family (all choices from the module's seeded PRNG): definitions made of runs - bit-field runs over every storage type (uint8 ..
uint128, signed, char, enum / flag storage, the odd widths, typedef aliases; exhausted units continued by the same type; a type and
its alias / its enum sharing a unit; type switches), plain members, fixed arrays, null-terminated arrays, nested structures that
hold bit-fields themselves (built along the same route as the outer one) - under {<, >} x {packed, aligned} x {interpreted,
compiled}; every definition is built along every route (add / update with several drawn split points), each on its own cstruct
instance, and every class parses the same inputs (zeros, ones, 0x80.., 0x01.., random) through a drawn call form
(T(stream), T(bytes), T.read(stream), T.reads(bytes), T.read(bytearray), T(memoryview)).

Oracle (the property; the prescribed values come from harness/refimpl.py, the independent bit-slicing / C layout reference):
  * every route builds the class (a definition whose fields fit their units is never rejected);
  * declaration: field names, per-field bits, field type names, size, alignment and the offset of every member / storage unit are
    those of the reference (consecutive bit-fields of one storage type share ONE unit: the structure does not grow by a unit per
    field) and identical to what the baseline route `load` gives for the same declaration;
  * reading: every class parses the reference's values from the same bytes - each bit-field an integer (an enum member for enum
    storage) in [0, 2^bits), little endian first field in the least significant bits, big endian in the most significant - and
    consumes the reference's number of bytes;
  * writing inverts reading: the parsed object dumps to the input's data bits (every other bit zero), and an object BUILT from the
    field values (`T(a=.., b=..)`, bit-field values taken from the reference, not from the reader) dumps to the same bytes.
Correspondence: read (interpreted classes) and write of the API-built classes are sent to the Lean model like those of the loaded
ones (the model type is derived from the generator tree and the real class's field names).

Known-finding territory: aligned structures with bit-fields on a storage type smaller than its alignment (uint24/int24/uint48/
int48) are classified F23 exactly as in the other families (the layout gives such fields separate units; reader and writer do not).

LEGACY: the regex parser reads `type name:bits;` only (no blanks around the colon), resolves ONE word as the type name, has no
notion of nested structure definitions and does not take the `align` argument (its structures are always packed).  The legacy
route is therefore run for packed configurations of definitions whose type names are single words and that have no nested
structure; the text is rendered in that spelling.  That is the parser's documented input language, not a statement of C06.
"""
from __future__ import annotations

import importlib
import io
import os
import tempfile
from enum import Enum

from . import defs, impl, refimpl
from .structprops import rand_bytes, small_unit_bits

PRE = defs.PREAMBLE

# bit-field storage types of the family; aliases: those both the reference and the Lean model know (defs.ALIASES)
BASE_STORAGE = ["uint8", "int8", "char", "E8", "uint16", "int16", "F16", "uint24", "int24", "E24", "uint32", "int32", "E32",
                "uint48", "int48", "uint64", "int64", "uint128", "int128"]
ALIAS_STORAGE = ["BYTE", "WORD", "DWORD", "QWORD", "short", "unsigned int", "long long", "u1", "u2", "__u32", "uint64_t", "signed char"]
STORAGE = BASE_STORAGE + ALIAS_STORAGE
PLAIN = ["uint8", "uint16", "uint32", "char", "int64", "uint24", "int8", "WORD", "unsigned int", "E8", "F16"]

FORMS = {
    "T(BytesIO)": (True, lambda T, s: T(s), "T(io.BytesIO(data))"),
    "T.read(BytesIO)": (True, lambda T, s: T.read(s), "T.read(io.BytesIO(data))"),
    "T(bytes)": (False, lambda T, d: T(bytes(d)), "T(data)"),
    "T.reads(bytes)": (False, lambda T, d: T.reads(bytes(d)), "T.reads(data)"),
    "T.read(bytearray)": (False, lambda T, d: T.read(bytearray(d)), "T.read(bytearray(data))"),
    "T(memoryview)": (False, lambda T, d: T(memoryview(bytes(d))), "T(memoryview(data))"),
}


def base_of(st):
    b = defs.ENUMS[st][1] if st in defs.ENUMS else st
    return refimpl.ALIAS.get(b, b)


def unit_bits(st):
    return refimpl.sc(base_of(st))[1] * 8


def ty_of(st):
    return ("enum", st) if st in defs.ENUMS else ("sc", st)


def bitfield(name, st, b):
    return {"name": name, "ty": ty_of(st), "bits": b}


# ------------------------------------------------------------------------------------------------ generator

def gen_fields(rnd, depth=0, prefix="f"):
    """one definition: a list of fields made of runs"""
    same_unit = {}
    for st in STORAGE:
        same_unit.setdefault(base_of(st), []).append(st)
    fields, n = [], 0
    for _run in range(rnd.randint(1, 4) if depth == 0 else rnd.randint(1, 2)):
        k = rnd.random()
        if k < 0.6:
            st = rnd.choice(STORAGE if rnd.random() < 0.7 else ["uint8", "int8", "char", "E8", "BYTE", "uint16", "F16"])
            left = unit_bits(st)
            for _ in range(rnd.randint(1, 5)):
                if not left:
                    if rnd.random() < 0.5:
                        left = unit_bits(st)  # exhausted unit: the next field of the same type starts a new unit
                    else:
                        break
                elif rnd.random() < 0.15:
                    st = rnd.choice(same_unit[base_of(st)])  # an alias / an enum over the same storage type shares the unit
                p = rnd.randint(1, min(left, rnd.choice([3, 8, 17, 128])))
                fields.append(bitfield(f"{prefix}{n}", st, p))
                n += 1
                left -= p
        elif k < 0.78:
            fields.append({"name": f"{prefix}{n}", "ty": ty_of(rnd.choice(PLAIN)), "bits": None})
            n += 1
        elif k < 0.85:
            fields.append({"name": f"{prefix}{n}", "ty": ("arr", ("sc", rnd.choice(["uint8", "char", "uint16", "int24"])), ("fixed", rnd.randint(1, 3))),
                           "bits": None})
            n += 1
        elif k < 0.9 and depth == 0:
            fields.append({"name": f"{prefix}{n}", "ty": ("arr", ("sc", rnd.choice(["char", "uint8", "uint16"])), ("null",)), "bits": None})
            n += 1
        elif depth == 0:
            inner = gen_fields(rnd, 1, f"g{n}_")
            if any(f["bits"] for f in inner):
                fields.append({"name": f"{prefix}{n}", "ty": ("struct", inner), "bits": None})
                n += 1
    return fields


def gen_trees(rnd, count):
    out = []
    while len(out) < count:
        fields = gen_fields(rnd)
        try:
            # (a run that continues the storage type of the run before it shares that unit and may not fit it: such a definition has
            #  to be rejected - that half of the property is family (c) of props/c06.py - and is not part of this family)
            refimpl.struct_layout(fields, refimpl.Cfg("<", False, "uint64", impl.CONSTS))
        except refimpl.Bad:
            continue
        if sum(1 for f in fields if f["bits"]) >= (2 if rnd.random() < 0.85 else 1):
            out.append(("struct", fields))
    return out


def legacy_ok(tree):
    """the legacy parser's input language (module docstring, LEGACY)"""
    for f in tree[1]:
        ty = f["ty"]
        if ty[0] == "arr":
            ty = ty[1]
        if ty[0] == "struct" or " " in ty[1]:
            return False
    return True


def gen_routes(rnd, tree, align, tier):
    """the routes one (definition, configuration) is built along; every parameter is explicit (replayable)"""
    n = len(tree[1])
    routes = [{"kind": "load", "inline": rnd.random() < 0.5}]
    if rnd.random() < (0.35 if tier == "quick" else 0.6):
        routes.append({"kind": "loadfile", "inline": rnd.random() < 0.5})
    if not align and legacy_ok(tree):
        routes.append({"kind": "legacy"})
    routes.append({"kind": "fields"})
    for kind in ("add", "update"):
        for _ in range(1 if tier == "quick" else 2):
            k = rnd.choice([0, 0, rnd.randint(0, n - 1), rnd.randint(0, n - 1)])
            r = {"kind": kind, "k": k, "base": rnd.choice(["make", "load"]), "kw": [rnd.random() < 0.6 for _ in range(n)]}
            if kind == "update":
                chunks, left = [], n - k
                while left:
                    c = rnd.randint(1, left)
                    chunks.append([c, rnd.random() < 0.75])
                    left -= c
                if not any(b for _, b in chunks):
                    chunks[rnd.randrange(len(chunks))][1] = True
                r["chunks"] = chunks
            routes.append(r)
    return routes


# ------------------------------------------------------------------------------------------------ building

class Hist:
    """the construction history of one class, as a script (what Engine.case_data prints as the reproduction)"""

    def __init__(self):
        self.steps = []

    def script(self, extra=()):
        return "\n".join([*self.steps, *extra])


def render_field(f, inline, legacy=False):
    ty, suffix = f["ty"], ""
    if ty[0] == "arr":
        suffix = "[]" if ty[2][0] == "null" else f"[{ty[2][1]}]"
        ty = ty[1]
    if ty[0] == "struct":
        if inline:
            return "struct { " + " ".join(render_field(g, inline) for g in ty[1]) + f" }} {f['name']};"
        return f"N_{f['name']} {f['name']};"
    bits = "" if not f["bits"] else (f":{f['bits']}" if legacy else f" : {f['bits']}")
    return f"{ty[1]} {f['name']}{suffix}{bits};"


def render(name, fields, inline, legacy=False):
    text = ""
    if not inline:
        for f in fields:
            if f["ty"][0] == "struct":
                text += render(f"N_{f['name']}", f["ty"][1], inline)
    return text + f"struct {name} {{\n  " + "\n  ".join(render_field(f, inline, legacy) for f in fields) + "\n};\n"


class Builder:
    def __init__(self, endian, align, compiled):
        m = impl.dc()
        self.m, self.endian, self.align, self.compiled = m, endian, align, compiled
        self.Field = m.Field
        self.compiler = importlib.import_module("dissect.cstruct.compiler")
        self.cs = m.cstruct(endian=endian)
        self.h = Hist()
        self.h.steps += ["import io; from dissect.cstruct import cstruct, compiler, Field", f"cs = cstruct(endian={endian!r})", f"cs.load({PRE!r})"]
        self.cs.load(PRE)

    def do(self, line, fn):
        self.h.steps.append(line)
        return fn()

    def type_of(self, ty):
        """-> (type object, its spelling in the script)"""
        if ty[0] == "sc":
            return self.cs.resolve(ty[1]), f"cs.resolve({ty[1]!r})"
        if ty[0] == "enum":
            return getattr(self.cs, ty[1]), f"cs.{ty[1]}"
        if ty[0] == "arr":
            t, s = self.type_of(ty[1])
            n = None if ty[2][0] == "null" else ty[2][1]
            return t[n], f"{s}[{n}]"
        raise ValueError(ty[0])

    def load(self, text):
        self.do(f"cs.load({text!r}, compiled={self.compiled}, align={self.align})", lambda: self.cs.load(text, compiled=self.compiled, align=self.align))

    def make(self, name, fields):
        """a class of the given fields through Field objects + _make_struct (+ compiler.compile), registered under its name"""
        fl, sp = [], []
        for f in fields:
            t, s = self.member_type(f)
            fl.append(self.Field(f["name"], t, f["bits"]))
            sp.append(f"Field({f['name']!r}, {s}, {f['bits']})")
        T = self.do(f"{name} = cs._make_struct({name!r}, [{', '.join(sp)}], align={self.align})", lambda: self.cs._make_struct(name, fl, align=self.align))
        if self.compiled:
            T = self.do(f"{name} = compiler.compile({name})", lambda: self.compiler.compile(T))
        self.do(f"cs.add_type({name!r}, {name})", lambda: self.cs.add_type(name, T))
        return T

    def member_type(self, f):
        if f["ty"][0] == "struct":
            return self.nested[f["name"]], f"cs.N_{f['name']}"
        return self.type_of(f["ty"])

    def add(self, T, name, f, kw):
        t, s = self.member_type(f)
        if kw:
            self.do(f"{name}.add_field({f['name']!r}, {s}, bits={f['bits']})", lambda: T.add_field(f["name"], t, bits=f["bits"]))
        elif f["bits"]:
            self.do(f"{name}.add_field({f['name']!r}, {s}, {f['bits']})", lambda: T.add_field(f["name"], t, f["bits"]))
        else:
            self.do(f"{name}.add_field({f['name']!r}, {s})", lambda: T.add_field(f["name"], t))

    def build(self, name, fields, route):
        kind = route["kind"]
        cs = self.cs
        if kind in ("load", "loadfile", "legacy"):
            text = render(name, fields, route.get("inline", True), legacy=kind == "legacy")
            if kind == "load":
                self.load(text)
            elif kind == "legacy":
                self.h.steps.append(f"cs.load({text!r}, deftype=cstruct.DEF_LEGACY, compiled={self.compiled})")
                cs.load(text, deftype=self.m.cstruct.DEF_LEGACY, compiled=self.compiled)
            else:
                fd, path = tempfile.mkstemp(prefix="c06api-", suffix=".h")
                try:
                    with os.fdopen(fd, "w") as fh:
                        fh.write(text)
                    self.h.steps.append(f"open(path, 'w').write({text!r}); cs.loadfile(path, compiled={self.compiled}, align={self.align})")
                    cs.loadfile(path, compiled=self.compiled, align=self.align)
                finally:
                    os.unlink(path)
            return getattr(cs, name)
        # the API routes: nested structures first, along the same kind of route in its simplest form, registered as N_<member>
        self.nested = getattr(self, "nested", {})
        for f in fields:
            if f["ty"][0] == "struct":
                sub = {"kind": kind, "k": 0, "base": "make", "kw": [True] * len(f["ty"][1]), "chunks": [[len(f["ty"][1]), True]]}
                outer, self.nested = self.nested, {}
                N = self.build(f"N_{f['name']}", f["ty"][1], sub)
                self.nested = outer
                self.nested[f["name"]] = N
        if kind == "fields":
            return self.make(name, fields)
        k = route["k"]
        if route["base"] == "load":
            # (nested structures are registered as N_<member> by now: the text refers to them by name)
            self.load(f"struct {name} {{\n  " + "\n  ".join(render_field(f, False) for f in fields[:k]) + "\n};\n")
            T = getattr(cs, name)
            self.h.steps.append(f"{name} = cs.{name}")
        else:
            T = self.make(name, fields[:k])
        rest = list(enumerate(fields))[k:]
        if kind == "add":
            for i, f in rest:
                self.add(T, name, f, route["kw"][i])
        else:
            for c, block in route["chunks"]:
                part, rest = rest[:c], rest[c:]
                if block:
                    self.h.steps.append(f"with {name}.start_update():")
                    n0 = len(self.h.steps)
                    with T.start_update():
                        for i, f in part:
                            self.add(T, name, f, route["kw"][i])
                    self.h.steps[n0:] = ["    " + s for s in self.h.steps[n0:]]
                else:
                    for i, f in part:
                        self.add(T, name, f, route["kw"][i])
        return getattr(cs, name)


def build_view(tree, route, endian, align, compiled):
    """-> (a Loaded-like view of the class built along the route, None) | (None, exception)"""
    b = Builder(endian, align, compiled)
    try:
        T = b.build("T", tree[1], route)
    except Exception as e:  # noqa: BLE001
        V = None
        err = e
    else:
        err = None
        V = object.__new__(impl.Loaded)
        V.tree, V.endian, V.align, V.compiled, V.pointer = tree, endian, align, compiled, "uint64"
        V.cs, V.T, V.text, V.session, V.route = b.cs, T, render("T", tree[1], True), b.h, route
    return V, err, b.h


def route_key(route):
    r = route["kind"]
    if r in ("add", "update"):
        r += f":k={route['k']}:{route['base']}:" + "".join("k" if x else "p" for x in route["kw"])
    if route.get("chunks"):
        r += ":" + ",".join(f"{c}{'b' if b else 'd'}" for c, b in route["chunks"])
    if "inline" in route:
        r += ":inline" if route["inline"] else ":named"
    return r


# ------------------------------------------------------------------------------------------------ oracle

def case_data(tree, route, endian, align, compiled, hist, data=None, form=None):
    d = {"definition": render("T", tree[1], True), "route": route_key(route), "endian": endian, "align": align, "compiled": compiled,
         "apibits": {"fields": tree[1], "route": route, "endian": endian, "align": align, "compiled": compiled,
                     "data": None if data is None else bytes(data).hex(), "form": form}}
    tail = ["T = cs.T", "print(T.size, [(f._name, f.offset, f.bits) for f in T.__fields__])"]
    if data is not None:
        d["data"] = bytes(data).hex()
        tail += [f"data = bytes.fromhex({bytes(data).hex()!r})", f"v = {FORMS[form][2] if form else 'T(data)'}; print(v, v.dumps().hex())"]
    d["repro"] = hist.script(tail)
    return d


def declaration(T, tree):
    """what the class declares, in comparable form"""
    fs = list(T.__fields__)
    return {"names": [f._name for f in fs], "bits": [f.bits or 0 for f in fs], "types": ["struct" if hasattr(f.type, "__fields__") else getattr(f.type, "__name__", repr(f.type)) for f in fs],
            "size": T.size, "alignment": T.alignment, "offsets": [f.offset for f in fs]}


def check_declaration(eng, V, lay, base_decl, cd, sigs):
    """-> True when the class declares what the reference prescribes (and what the baseline route declares)"""
    tree = V.tree
    try:
        decl = declaration(V.T, tree)
    except Exception as e:  # noqa: BLE001
        eng.report(f"route {route_key(V.route)}: the class cannot be inspected: {type(e).__name__}: {e}", cd, sigs)
        return False
    want = {"names": [f["name"] for f in tree[1]], "bits": [f["bits"] or 0 for f in tree[1]], "size": lay["size"],
            "alignment": lay["align"], "offsets": lay["offsets"]}
    bad = [key for key in ("names", "bits", "size", "offsets", "alignment") if decl[key] != want[key]]
    if bad:
        eng.report(f"route {route_key(V.route)}: the class declares " + ", ".join(f"{key} {decl[key]}" for key in bad) + "; the declaration prescribes " +
                   ", ".join(f"{key} {want[key]}" for key in bad) + " (consecutive bit-fields of one storage type share one storage unit, "
                   "a new unit starts on a type switch, an exhausted unit or a non-bit member)", cd, sigs)
        return False
    if base_decl is not None and decl != base_decl:
        diff = {k: (decl[k], base_decl[k]) for k in decl if decl[k] != base_decl[k]}
        eng.report(f"route {route_key(V.route)} and cs.load of the same declaration give different classes: {diff}", cd, sigs)
        return False
    return True


def ref_parse(tree, data, cfg):
    try:
        rv, rend, rmask = refimpl.parse(tree, data, 0, cfg)
        return ("ok", rv, rend), rmask
    except refimpl.Short:
        return ("err", "EOFError"), None
    except refimpl.Bad:
        return ("err", "Bad"), None


def bit_values(tree, rv):
    """(field, reference value as int) for the top-level bit-fields"""
    return [(f, int(v[1])) for f, v in zip(tree[1], rv[1:]) if f["bits"]]


def check_input(eng, res, V, cfg, data, form, sigs, cd, model=True):
    """the reading / writing half for one class and one input -> number of complaints"""
    tree, T = V.tree, V.T
    before = len(res.violations) + sum(res.known_seen.values())
    is_stream, call, _ = FORMS[form]
    ref, rmask = ref_parse(tree, data, cfg)
    try:
        if is_stream:
            s = io.BytesIO(data)
            obj = call(T, s)
            used = s.tell()
        else:
            obj, used = call(T, data), None
        got = ("ok", impl.canon(obj), used)
    except Exception as e:  # noqa: BLE001
        obj, got = None, ("err", impl.err_class(e), f"{type(e).__name__}: {str(e)[:120]}")
    if got[0] == "err":
        if ref[0] == "ok":
            eng.report(f"route {route_key(V.route)}: {form} raises {got[2]} where the reference parses {str(ref[1])[:200]}", cd, sigs)
        elif model and "F23" not in sigs and not V.compiled and ref[1] == "EOFError":
            eng.model_read(V, data, 0, ("err", got[1]), f"bit-field read, class built through {V.route['kind']}")
        return len(res.violations) + sum(res.known_seen.values()) - before
    if ref[0] != "ok" or not impl.same_val(got[1], ref[1]) or (used is not None and used != ref[2]):
        eng.report(f"route {route_key(V.route)}: {form} parses {str(got[1])[:200]} consuming {used}; the bit-slicing reference gives {str(ref)[:200]}", cd, sigs)
        return len(res.violations) + sum(res.known_seen.values()) - before
    end = ref[2]
    # each bit-field value: an integer (enum member) in [0, 2^bits)
    for f, rf in zip(tree[1], T.__fields__):
        if f["bits"]:
            try:
                v = getattr(obj, rf._name)
            except Exception as e:  # noqa: BLE001
                eng.report(f"route {route_key(V.route)}: bit-field {rf._name} cannot be read from the parsed object: {type(e).__name__}: {e}", cd, sigs)
                continue
            if f["ty"][0] == "enum":
                if not isinstance(v, Enum):
                    eng.report(f"route {route_key(V.route)}: bit-field {rf._name} ({f['ty'][1]} : {f['bits']}) parsed as {v!r}, not a member of the enum", cd, sigs)
                    continue
                v = v.value
            if isinstance(v, bool) or not isinstance(v, int) or not 0 <= v < (1 << f["bits"]):
                eng.report(f"route {route_key(V.route)}: bit-field {rf._name} : {f['bits']} has value {v!r}", cd, sigs)
    # writing is the inverse: the data bits of the input, zero elsewhere
    padded = bytes(data[:end]) + bytes(max(0, end - len(data)))
    exp = bytes(b & m for b, m in zip(padded, rmask))
    d = impl.dump(T, obj)
    if d[0] != "ok":
        eng.report(f"route {route_key(V.route)}: dumping the parsed value raises {d[1]}", cd, sigs)
    elif d[1] != exp:
        eng.report(f"route {route_key(V.route)}: dumps gives {d[1].hex()}; the data bits of the input are {exp.hex()}", cd, sigs)
    # ... and from values: bit-field values from the reference, the other members as parsed
    try:
        kw = {rf._name: getattr(obj, rf._name) for rf in T.__fields__}
        for (f, v), name in zip(bit_values(tree, ref[1]), [rf._name for f, rf in zip(tree[1], T.__fields__) if f["bits"]]):
            kw[name] = getattr(V.cs, f["ty"][1])(v) if f["ty"][0] == "enum" else v
        built = T(**kw).dumps()
        if built != exp:
            eng.report(f"route {route_key(V.route)}: T(**values).dumps() = {built.hex()} for the values {str(ref[1])[:160]}; composing the units "
                       f"by bit-slicing gives {exp.hex()}", cd, sigs)
    except Exception as e:  # noqa: BLE001
        eng.report(f"route {route_key(V.route)}: a structure built from the field values {str(ref[1])[:160]} cannot be dumped: {type(e).__name__}: {e}", cd, sigs)
    if model and "F23" not in sigs:
        try:
            V.ty_sexp()
        except Exception:  # noqa: BLE001 - a class of another shape: reported by the declaration check
            return len(res.violations) + sum(res.known_seen.values()) - before
        if not V.compiled:
            sizes = sorted((k, v) for k, v in getattr(obj, "_sizes", {}).items() if v)
            eng.model_read(V, bytes(data), 0, ("ok", got[1], end, sizes), f"bit-field read, class built through {V.route['kind']}")
        if d[0] == "ok":
            eng.model_write(V, got[1], d, f"bit-field write, class built through {V.route['kind']}")
    return len(res.violations) + sum(res.known_seen.values()) - before


def check_definition(eng, res, rnd, tree, endian, align, compiled, routes, inputs, forms=None, model=True):
    """one (definition, configuration) along all its routes"""
    cfg = refimpl.Cfg(endian, align, "uint64", impl.CONSTS)
    sigs = ["F23"] if align and small_unit_bits(tree) else []
    lay = refimpl.struct_layout(tree[1], cfg)
    nbits = sum(1 for f in tree[1] if f["bits"])
    base_decl = None
    for ri, route in enumerate(routes):
        V, err, hist = build_view(tree, route, endian, align, compiled)
        if V is None:
            eng.report(f"route {route_key(route)}: a declaration whose bit-fields fit their units is rejected: {type(err).__name__}: {err}",
                       case_data(tree, route, endian, align, compiled, hist), sigs)
            continue
        really = "compiled" if getattr(V.T, "__compiled__", False) else "interpreted"
        res.feat(f"api:route:{route['kind']}:{really}")
        res.count(("apibits-decl", V.text, route_key(route), endian, align, compiled), nbits >= 2)
        ok = check_declaration(eng, V, lay, base_decl if route["kind"] != "load" else None, case_data(tree, route, endian, align, compiled, hist), sigs)
        if route["kind"] == "load" and ok and base_decl is None:
            base_decl = declaration(V.T, tree)
        if not ok and not sigs:
            continue  # the class is not the declared one: its reader has nothing to be compared with
        complaints = 0
        for di, data in enumerate(inputs):
            if complaints >= 2:
                break
            form = forms[di] if forms else rnd.choice(list(FORMS))
            res.count(("apibits", V.text, route_key(route), endian, align, compiled, form, data), nbits >= 2)
            res.feat(f"api:parse:{route['kind']}:{form}")
            complaints += check_input(eng, res, V, cfg, data, form, sigs, case_data(tree, route, endian, align, compiled, hist, data, form),
                                      model=model and route["kind"] != "load")


ALL_CFG = [(e, a, c) for e in "<>" for a in (False, True) for c in (False, True)]


def run(env, eng, res, rnd):
    tier = env["tier"]
    quick = tier == "quick"
    for tree in gen_trees(rnd, 95 if quick else 600):
        for endian, align, compiled in rnd.sample(ALL_CFG, 2 if quick else 4):
            cfg0 = refimpl.Cfg(endian, align, "uint64", impl.CONSTS)
            size = refimpl.struct_layout(tree[1], cfg0)["size"] or 24
            n = size + 4
            inputs = [rnd.choice([bytes(n), b"\xff" * n]), bytes([rnd.choice([0x80, 0x01, 0xA5])]) * n] + \
                     [rand_bytes(rnd, n) for _ in range(2 if quick else 5)]
            check_definition(eng, res, rnd, tree, endian, align, compiled, gen_routes(rnd, tree, align, tier), inputs)
        if len(eng.lines) > 5000:
            eng.flush()
    eng.flush()


# ------------------------------------------------------------------------------------------------ replay

def _ty(t):
    if t[0] == "struct":
        return ("struct", _fields(t[1]))
    if t[0] == "arr":
        return ("arr", _ty(t[1]), tuple(t[2]))
    return tuple(t)


def _fields(raw):
    return [{"name": f["name"], "ty": _ty(f["ty"]), "bits": f["bits"]} for f in raw]


def replay_case(case) -> int:
    """re-evaluate one recorded case of this family on the current tree -> 1 when it still fails"""
    from .common import Result, mkrng
    from .structprops import Engine

    c = case["apibits"]
    tree = ("struct", _fields(c["fields"]))
    res = Result()
    eng = Engine({"findings": [], "driver_ok": False, "seed": 0, "tier": "quick"}, res, "C06")
    routes = [c["route"]] if c["route"]["kind"] == "load" else [{"kind": "load", "inline": True}, c["route"]]
    inputs = [bytes.fromhex(c["data"])] if c.get("data") is not None else []
    check_definition(eng, res, mkrng(0, "c06-api-replay"), tree, c["endian"], c["align"], c["compiled"], routes, inputs,
                     forms=[c.get("form") or "T(BytesIO)"], model=False)
    for v in res.violations[:3]:
        print("replay:", v.what[:300])
    return 1 if res.violations else 0
