"""C16 (v9): POINTER DECLARATOR SPELLINGS.

"A pointer field occupies exactly the configured pointer width ... dereferencing returns what parsing the target type at that absolute
stream offset returns (a NUL-terminated string for char pointers)" - however the declarator that made the field a pointer was SPELLED.
In the definition syntax (as in C) every `*` in front of the declared name adds one pointer level, and blanks, tabs, line breaks (LF,
CRLF) and comments (`/* */`, `//` to the end of the line; with stars, brackets and semicolons inside) may stand between the type and
the first star, BETWEEN the stars, between the last star and the name and between the name / the `[n]` and the `;`:

    char **p;    char * *p;    char*\n*p;    char */**/* p;    char * // first level\n * p ;    struct X\t*\t*\t* p[ 2 ][3] /* c */ ;

declarator_spellings - one generated definition per round:

    [targets]   struct X { ... };  #define K2 2  (+ the harness preamble with enum E8)
    [typedefs]  typedef T <stars 1..3, spelled> PTi;   typedef T <stars> PAi[2];   typedef struct X <stars> PTi;  typedef struct {...} <stars> PTi;
    struct REC { [scalar] T <stars 1..3, spelled> p0; T <stars> p1[2]; T <stars> p2[ 2 ][K2]; PTi <stars 0..2> q3; struct X <stars> p4;
                 struct { ... } <stars> p5; unsigned int <stars> p6; ... [scalar] };

T out of: integers of every width, multi-word integer names (`unsigned int`, `long long`), floats, enum, `char` (string), `wchar`, `void`, a
structure by name / by `struct X` / inline (anonymous or tagged).  Every gap of every declarator is drawn independently (nothing, blanks,
a comment, both).  The text goes through cs.load, cs.loadfile (a real file), two consecutive loads (targets and typedefs first) or the
chained `cstruct(...).load(...)`; packed or aligned.  An image is generated with the record at offset 0, slots for the typedef'd pointer
types (read on their own with the stream standing at the slot) and, behind them, for every element of every pointer member a CHAIN: the
slot holds the address of a cell of pointer width holding the address of the next cell ... holding the address of the target's bytes;
chains are now and then shared, cut by a null, or point beyond the data.  The record is parsed from a BytesIO, or from bytes / bytearray
through T(x), T.read(x), cs.read(name, x).

Oracle (computed by the harness from the generated plan and the image, not by the library):
  * the record's field names are exactly the declared names in order - no star, no blank, no comment text in a name -, every declared
    typedef name is an attribute of the instance, no typedef name contains a star or white space;
  * the type of member / typedef k: its array dimensions are the declared ones, below them exactly (stars of the declarator + levels of
    the typedef it starts from) pointer classes, below those the target type (the very class `cs.resolve(name)` gives; an inline
    structure with the declared member names); EVERY level's class has the configured pointer width as its size, the member's offset
    and the record's size are what that width gives (packed, and aligned to the pointer type's alignment), parsing consumes that many
    bytes, dumps() is that long and writes every address back;
  * every element is a Pointer whose value is the unsigned integer in its slot; dereferencing LEVEL BY LEVEL: at every level but the last
    the result is a Pointer one level lower (of the class the type promised) whose value is the unsigned integer stored in the cell,
    the last dereference gives the target - for `char` the bytes up to the NUL, for integers int.from_bytes of the bytes there, for
    `void` nothing, otherwise what a separately loaded copy of the target type parses at that absolute offset of a fresh stream (value or
    exception class) -, a null at any level raises NullPointerDereference, a cell beyond the data an error that is not a null dereference;
    the stream stays where it was, a repeated dereference agrees, `p + k` is of p's class and walks the chain that starts k bytes
    further; a member of a default-constructed record has no stream: NullPointerDereference.
Correspondence: the last-level dereferences go to the Lean model (`deref`); every definition text goes to the model of the definition
parser (`parsedecls`) and, per declarator, (pointer depth, name, number of dimensions) of the model is compared with what the real
classes show.

legacy_spellings - the same walk through the LEGACY parser (cs.load(text, deftype=cstruct.DEF_LEGACY)) in the part of the syntax it
implements: `T<blanks>*name;` members, one level, blanks / tabs / line breaks between the type and the star.
EXCLUDED there, because the unmodified legacy parser does not implement it (reported as observations, not silenced failures of the
main family): more than one star (`T **p` becomes a member named '*p' of type T*), arrays of pointers (`T *p[2]` becomes a pointer to
T[2]), anything between the star and the name (`T * p`, `T* p`: ResolveError) or in front of the `;` (`T *p ;`: the member is silently
dropped), comments, `struct X *p`.

EXCLUDED from declarator_spellings: white space between the name and `[` (`T *p [2];` is rejected at load time by the unmodified
library: array-declarator territory, C07/C13) and line breaks inside `[ ]` (the NAME token's count excludes them).  The NAME of the
target of `typedef struct {...} **P;` is not looked at (finding F39: the anonymous structure is named after the raw declarator).
"""
from __future__ import annotations

import io
import os
import sys
import tempfile

from . import defs, impl, v1_c13
from .common import A, Case, run_driver, sx
from .s2_ptr import ALL_PTRS
from .v4_c16 import read_target

S = lambda n: ("sc", n)  # noqa: E731
F = lambda n, ty: {"name": n, "ty": ty, "bits": None}  # noqa: E731

PALIGN = {1: 1, 2: 2, 3: 4, 4: 4, 6: 8, 8: 8, 16: 16}          # alignment of the configured pointer integer
SCAL = {"uint8": 1, "uint16": 2, "uint32": 4, "uint64": 8}     # the scalars between the pointer members (alignment == size)
INTS = {"uint8": (1, False), "int8": (1, True), "uint16": (2, False), "int16": (2, True), "uint24": (3, False), "int24": (3, True),
        "uint32": (4, False), "int32": (4, True), "uint48": (6, False), "uint64": (8, False), "int64": (8, True), "int128": (16, True)}
# multi-word names of the library's default typedefs (`unsigned char` is left out: the library maps it to `char`, a string behind a pointer)
MULTI = {"unsigned int": "uint32", "unsigned __int8": "uint8", "unsigned short": "uint16", "long long": "int64", "signed char": "int8",
         "unsigned long long": "uint64", "signed int": "int32", "signed long long": "int64"}
SMALL = ["uint8", "uint16", "uint32", "int8", "int16"]

BLANKS = [" ", " ", "  ", "\t", "\n", "\r\n", " \t ", "\n\n", "\n\t", " \n "]
COMMENTS = ["/**/", "/* c */", "/* * */", "/* **p */", "/***/", "/*\n*/", "/* a\n * b\n */", "// c\n", "//\n", "// * *\n", "// x\r\n", "/* ; */",
            "/* [2] */", "/* // */", "// ; }\n"]


# ------------------------------------------------------------------------------------------------------------ generator
def gap(rnd, kinds, need_sep=False):
    """what stands in one gap of a declarator; `kinds` records which kind was drawn"""
    r = rnd.random()
    if r < 0.30 and not need_sep:
        kinds.append("nothing")
        return ""
    if r < 0.65:
        kinds.append("blanks")
        return rnd.choice(BLANKS)
    kinds.append("comment")
    return rnd.choice(["", rnd.choice(BLANKS)]) + rnd.choice(COMMENTS) + rnd.choice(["", rnd.choice(BLANKS)])


def dims_text(rnd, dims):
    out = ""
    for n in dims:
        t = "K2" if n == 2 and rnd.random() < 0.2 else str(n)
        pad = rnd.choice(["", "", "", " ", "\t", "  "])
        out += "[" + pad + t + rnd.choice(["", pad]) + "]"
    return out


def declarator(rnd, stars, name, dims):
    """-> (text that follows the type up to and including the `;`, info about the spelling)"""
    kinds = []
    gs = [gap(rnd, kinds, need_sep=(stars == 0 and i == 0)) for i in range(stars + 1)]
    inner = gs[1:stars] if stars >= 2 else []
    text = "".join(g + "*" for g in gs[:stars]) + gs[stars] + name + dims_text(rnd, dims) + gap(rnd, kinds) + ";"
    info = {"separated": any(inner), "inner_comment": any("/" in g for g in inner), "inner_newline": any("\n" in g for g in inner), "kinds": set(kinds)}
    return text, info


def gen_targets(rnd):
    """-> (definition text of the named targets, text for the reference instance, [spec]); spec: kind, texts (spellings of the type in a
    declarator), ref (name on the reference instance), tree (generator tree, for the model), names (member names of a structure)"""
    xt = ("struct", [F("f0", S(rnd.choice(SMALL))), F("f1", S(rnd.choice(SMALL)))] + ([F("s", ("arr", S("char"), ("fixed", rnd.randint(1, 3))))] if rnd.random() < 0.5 else []))
    it = ("struct", [F("i0", S(rnd.choice(SMALL))), F("i1", S(rnd.choice(SMALL)))])
    pre = defs.render_struct("X", xt)
    body = "{ " + " ".join(defs.render_field(f, None) for f in it[1]) + " }"
    specs = []
    for t in rnd.sample(sorted(INTS), 2):
        specs.append({"kind": "int", "texts": [t], "ref": t, "tree": S(t), "int": INTS[t]})
    mw = rnd.choice(sorted(MULTI))
    a, _, b = mw.partition(" ")
    specs.append({"kind": "multiword", "texts": [mw, a + "\t" + b, a + "  " + b, a + "\n" + b], "ref": MULTI[mw], "tree": S(MULTI[mw]), "int": INTS[MULTI[mw]]})
    fl = rnd.choice(["float16", "float", "double"])
    specs.append({"kind": "float", "texts": [fl], "ref": fl, "tree": S(fl)})
    specs.append({"kind": "enum", "texts": ["E8"], "ref": "E8", "tree": ("enum", "E8")})
    specs.append({"kind": "char", "texts": ["char"], "ref": "char", "tree": S("char")})
    specs.append({"kind": "char", "texts": ["char"], "ref": "char", "tree": S("char")})
    specs.append({"kind": "wchar", "texts": ["wchar"], "ref": "wchar", "tree": S("wchar")})
    specs.append({"kind": "void", "texts": ["void"], "ref": "void", "tree": S("void")})
    specs.append({"kind": "struct", "texts": ["X", "struct X", "struct\tX", "struct\nX"], "ref": "X", "tree": xt, "names": ["f0", "f1", "s"][:len(xt[1])]})
    specs.append({"kind": "inline", "texts": ["struct " + body, "struct" + body, "struct TAG%d " + body], "ref": "INL", "tree": it, "names": ["i0", "i1"]})
    return pre, pre + defs.render_struct("INL", it), specs


def type_text(rnd, spec, counter):
    t = rnd.choice(spec["texts"])
    if "%d" in t:
        counter[0] += 1
        t = t % counter[0]
    return t


def gen_plan(rnd, psz, tier):
    """-> plan: texts, members [{name, stars, base levels, levels, dims, spec, via}], typedefs [{name, levels, dims, spec}], scalars"""
    pre, refpre, specs = gen_targets(rnd)
    counter = [0]
    small = psz == 1                       # an 8-bit address space: the whole image has to fit into 256 bytes
    sep = lambda: rnd.choice([" ", "\n", "\n  ", "\t", "\n  /* m */ ", " // m\n  "])  # noqa: E731
    typedefs, ttext = [], ""
    for i in range(rnd.randint(1, 2 if small else 3)):
        spec = rnd.choice(specs)
        stars = rnd.choice([1, 2, 2, 2, 3])
        dims = [2] if rnd.random() < 0.25 else []
        name = f"P{'A' if dims else 'T'}{i}"
        d, info = declarator(rnd, stars, name, dims)
        ttext += "typedef" + rnd.choice([" ", "\t", "\n", "  "]) + type_text(rnd, spec, counter) + d + rnd.choice(["\n", " ", "\r\n"])
        typedefs.append({"name": name, "levels": stars, "stars": stars, "dims": dims, "spec": spec, "info": info, "base": None})
    members, scalars, fields = [], [], []
    nm = rnd.randint(2, 3) if small else rnd.randint(3, 6)

    def scalar():
        if rnd.random() < 0.5:
            t = rnd.choice(sorted(SCAL))
            n = f"s{len(fields)}"
            fields.append(("scalar", n, t))
            return f"{t} {n};"
        return None

    parts = [scalar()]
    for i in range(nm):
        bases = [t for t in typedefs if not t["dims"]]
        if bases and rnd.random() < 0.25:
            base = rnd.choice(bases)
            stars = rnd.choice([0, 1, 1, 2])
            spec, blv, ttxt = base["spec"], base["levels"], base["name"]
        else:
            base = None
            stars = rnd.choice([1, 2, 2, 2, 3, 3])
            spec = rnd.choice(specs)
            blv, ttxt = 0, type_text(rnd, spec, counter)
        r = rnd.random()
        dims = [] if r < 0.6 else [rnd.randint(1, 2 if small else 3)] if r < 0.85 else [rnd.randint(1, 2), 2 if small else rnd.randint(1, 3)]
        name = f"{'q' if base else 'p'}{i}"
        d, info = declarator(rnd, stars, name, dims)
        parts.append(ttxt + d)
        m = {"name": name, "stars": stars, "levels": stars + blv, "dims": dims, "spec": spec, "info": info, "base": base["name"] if base else None}
        members.append(m)
        fields.append(("ptr", name, m))
        parts.append(scalar())
    rec = "struct REC" + rnd.choice([" ", "\n", " /* record */ "]) + "{" + sep() + sep().join(p for p in parts if p) + rnd.choice([" ", "\n"]) + "}" + rnd.choice(["", " "]) + ";\n"
    head = defs.PREAMBLE + "#define K2 2\n" + pre + ttext
    return {"head": head, "rec": rec, "text": head + rec, "refpre": defs.PREAMBLE + refpre, "members": members, "typedefs": typedefs, "fields": fields, "specs": specs}


def layout(plan, psz, align):
    """independent layout of REC: -> ({member name: offset}, size)"""
    off, offs, maxal = 0, {}, 1
    for kind, name, x in plan["fields"]:
        if kind == "scalar":
            size = al = SCAL[x]
        else:
            n = 1
            for d in x["dims"]:
                n *= d
            size, al = n * psz, PALIGN[psz]
        if align:
            off += -off & (al - 1)
            maxal = max(maxal, al)
        offs[name] = off
        off += size
    if align:
        off += -off & (maxal - 1)
    return offs, off


# ------------------------------------------------------------------------------------------------------------ image
class Image:
    """the record's bytes followed by slots, cells and targets; addresses are planted by a bump allocator"""

    def __init__(self, rnd, psz, order, start, size):
        self.rnd, self.psz, self.order = rnd, psz, order
        self.top = (1 << (8 * psz)) - 1
        self.buf = bytearray(rnd.choice([0, 0, 1, 2, 0x41, 0x42, 0x7F, 0x80, 0xFF, rnd.randrange(256)]) for _ in range(size))
        self.free = start
        self.known = {}                     # (levels left, target) -> addresses planted so far

    def alloc(self, n):
        a = self.free
        if a + n > len(self.buf) or a + n - 1 > self.top:
            return None
        self.free += n
        return a

    def put(self, a, v):
        self.buf[a:a + self.psz] = v.to_bytes(self.psz, self.order)

    def blob(self, spec, refsize):
        rnd = self.rnd
        if spec["kind"] == "char":
            return bytes(rnd.choice(b"abcxyzAB*_ ") for _ in range(rnd.randint(0, 5))) + b"\x00"
        return bytes(rnd.randrange(256) for _ in range(max(1, refsize or 1)))

    def address(self, k, spec, refsize):
        """an address to store into a pointer with k levels left (what it points at has k - 1 levels)"""
        rnd = self.rnd
        r = rnd.random()
        if r < 0.07:
            return 0
        if r < 0.12:
            return min(self.top, len(self.buf) + rnd.randint(0, 8))
        key = (k, spec["ref"])
        if r < 0.30 and self.known.get(key):
            return rnd.choice(self.known[key])
        if k == 1:
            b = self.blob(spec, refsize)
            a = self.alloc(len(b))
            if a is not None:
                self.buf[a:a + len(b)] = b
        else:
            a = self.alloc(self.psz)
            if a is not None:
                self.put(a, self.address(k - 1, spec, refsize))
        if a is None:
            return rnd.choice(self.known[key]) if self.known.get(key) else 0
        self.known.setdefault(key, []).append(a)
        return a


def elements(dims):
    """index tuples of an array with the given dimensions (() for a scalar member), row-major"""
    out = [()]
    for d in dims:
        out = [ix + (i,) for ix in out for i in range(d)]
    return out


def levels_of(m, t):
    n = 0
    while isinstance(t, type) and issubclass(t, m.Pointer):
        n += 1
        t = t.type
    return n, t


def peel_arrays(t):
    impl.dc()
    BaseArray = sys.modules["dissect.cstruct.types.base"].BaseArray
    dims = []
    while isinstance(t, type) and issubclass(t, BaseArray):
        dims.append(t.num_entries)
        t = t.type
    return dims, t


def canonv(v):
    return [A("void")] if v is None else impl.canon(v)


def short(x, n=160):
    s = x if isinstance(x, str) else sx(x)
    return s if len(s) <= n else s[:n] + "..."


# ------------------------------------------------------------------------------------------------------------ one round
class Round:
    def __init__(self, m, pname, endian, compiled, align, res, viol, lines, metas):
        self.m, self.pname, self.endian, self.compiled, self.align = m, pname, endian, compiled, align
        self.psz = ALL_PTRS[pname]
        self.order = "little" if endian == "<" else "big"
        self.res, self.viol, self.lines, self.metas = res, viol, lines, metas
        self.sent, self.seen = 0, set()

    # -- oracle
    def want_cell(self, data, a):
        if a == 0:
            return ("null",)
        cell = data[a:a + self.psz] if a <= len(data) else b""
        if len(cell) < self.psz:
            return ("err",)
        return ("ptr", int.from_bytes(cell, self.order))

    def want_target(self, spec, data, a):
        if a == 0:
            return ("null",)
        k = spec["kind"]
        if k == "void":
            return ("ok", [A("void")])
        if k in ("int", "multiword"):
            size, signed = spec["int"]
            b = data[a:a + size] if a <= len(data) else b""
            return ("ok", [A("int"), int.from_bytes(b, self.order, signed=signed)]) if len(b) == size else ("err",)
        if k == "char":
            end = data.find(b"\x00", a) if a <= len(data) else -1
            return ("ok", [A("bytes"), data[a:end]]) if end >= 0 else ("err",)
        if a > len(data) + 8:
            return ("err",)
        r = read_target(spec["reftype"], io.BytesIO(data), a)
        return ("ok", impl.canon(r[1])) if r[0] == "ok" else ("err",)

    # -- the dereference predicate, level by level
    def walk(self, p, a, levels, spec, what, cd, data, stream, promised=None):
        """p: a pointer with `levels` levels whose address must be a; follows the chain to the target"""
        m, res, viol = self.m, self.res, self.viol
        NPD = m.NullPointerDereference
        cur, addr = p, a
        for h in range(1, levels + 1):
            last = h == levels
            hop = what + "".join(" -> dereferenced" for _ in range(h - 1))
            lv, base = levels_of(m, type(cur))
            if lv != levels - h + 1:
                viol(f"{hop}: the pointer @ {addr} is a {type(cur).__name__} with {lv} pointer level(s), the declarator leaves {levels - h + 1} at this point", cd)
                return
            want = self.want_target(spec, data, addr) if last else self.want_cell(data, addr)
            before = stream.tell() if stream is not None else None
            v = None
            try:
                v = cur.dereference()
                got = ("ok", v)
            except NPD:
                got = ("null",)
            except Exception as e:  # noqa: BLE001
                got = ("err", e)
            if stream is not None and stream.tell() != before:
                viol(f"{hop}: dereferencing moved the stream {before} -> {stream.tell()}", cd)
            res.count(("v9-decl", self.pname, self.endian, self.compiled, cd["definition"], cd.get("data"), hop, addr), addr != 0)
            if last and not isinstance(v, m.Pointer):
                self.model_deref(spec, data, addr, cd, ("ok", canonv(v)) if got[0] == "ok" else ("null",) if got[0] == "null" else ("err", impl.err_class(got[1])))
            res.feat(f"v9:decl:hop {h} of {levels}:{'target' if last else 'pointer'}:{want[0]}")
            shown = "raises NullPointerDereference" if got[0] == "null" else f"raises {type(got[1]).__name__}: {str(got[1])[:60]}" if got[0] == "err" else "gives " + short(repr(v) if isinstance(v, m.Pointer) else canonv(v))
            if want[0] == "null":
                if got[0] != "null":
                    viol(f"{hop}: the pointer is null, dereferencing it {shown} instead of raising NullPointerDereference", cd)
                return
            if want[0] == "err":
                if got[0] != "err":
                    viol(f"{hop}: the address {addr} lies beyond the {len(data)} bytes of the stream, dereferencing {shown}", cd)
                return
            if got[0] != "ok":
                viol(f"{hop}: dereferencing the pointer @ {addr} {shown}; " + (f"the bytes there hold {short(want[1])}" if last else f"the {self.psz} bytes there hold the address {want[1]}"), cd)
                return
            try:
                v2 = cur.dereference()
                same = v2 is v or (v is not None and v2 is not None and type(v2) is type(v) and impl.same_val(canonv(v), canonv(v2)))
                if not same:
                    viol(f"{hop}: a repeated dereference of the pointer @ {addr} gives {short(canonv(v2))}, the first gave {short(canonv(v))}", cd)
            except Exception as e:  # noqa: BLE001
                viol(f"{hop}: a repeated dereference of the pointer @ {addr} raises {type(e).__name__}", cd)
            if last:
                if isinstance(v, m.Pointer) or not impl.same_val(want[1], canonv(v)):
                    viol(f"{hop}: dereferencing the pointer @ {addr} gives {short(repr(v) if isinstance(v, m.Pointer) else canonv(v))}, the target "
                         f"({spec['kind']} {spec['ref']}) stored at offset {addr} is {short(want[1])}", cd)
                elif spec["kind"] in ("struct", "inline"):
                    try:
                        n0 = spec["names"][0]
                        if not impl.same_val(want[1][1], impl.canon(getattr(cur, n0))):
                            viol(f"{hop}: attribute {n0} through the pointer gives {getattr(cur, n0)!r}, the structure at offset {addr} has {short(want[1][1])}", cd)
                    except Exception as e:  # noqa: BLE001
                        viol(f"{hop}: attribute access through the pointer raises {type(e).__name__}: {e}", cd)
                return
            # an intermediate level: a pointer one level lower holding the unsigned integer stored in the cell
            if not isinstance(v, m.Pointer):
                viol(f"{hop}: dereferencing the pointer @ {addr} gives {short(canonv(v))} ({type(v).__name__}), the declarator has {levels - h} more pointer "
                     f"level(s): a pointer holding the address {want[1]} stored there", cd)
                return
            if type(v) is not type(cur).type:
                viol(f"{hop}: dereferencing gives a {type(v).__name__}, the type of the pointer promises {getattr(type(cur).type, '__name__', '?')}", cd)
            if int(v) != want[1]:
                viol(f"{hop}: dereferencing the pointer @ {addr} gives {v!r}, the unsigned integer stored in the {self.psz} bytes there is {want[1]}", cd)
                return
            try:
                if v.dumps() != want[1].to_bytes(self.psz, self.order):
                    viol(f"{hop}: the pointer found @ {addr} dumps as {v.dumps().hex()}, it was read from {want[1].to_bytes(self.psz, self.order).hex()}", cd)
            except Exception as e:  # noqa: BLE001
                viol(f"{hop}: dumps() of the pointer found @ {addr} raises {type(e).__name__}: {e}", cd)
            cur, addr = v, want[1]

    def model_deref(self, spec, data, addr, cd, got):
        """the last-level dereference on the Lean model as well (a few per image)"""
        if self.sent >= 6 or (spec["kind"] == "wchar" and got[0] == "err") or addr < 0 or (addr, spec["ref"]) in self.seen:
            return
        self.seen.add((addr, spec["ref"]))
        try:
            tsexp = impl.real_ty_sexp(spec["tree"], spec["reftype"], self.align)
        except Exception:  # noqa: BLE001
            return
        self.sent += 1
        cfg = [A("cfg"), A("le" if self.endian == "<" else "be"), self.pname, [[A(k), v] for k, v in impl.CONSTS.items()]]
        self.lines.append(sx([A("deref"), cfg, tsexp, data, addr, 1]))
        self.metas.append((dict(cd, addr=addr), got))

    # -- static part: names, levels, widths
    def check_type(self, t, decl, what, cd, cs):
        """t: the class of member / typedef `decl`; -> True when dimensions, levels, widths and target are as declared"""
        m, viol, psz = self.m, self.viol, self.psz
        dims, below = peel_arrays(t)
        if dims != decl["dims"]:
            viol(f"{what}: the type is {getattr(t, '__name__', t)!r} with array dimensions {dims}, declared {decl['dims']}", cd)
            return False
        lv, base = levels_of(m, below)
        if lv != decl["levels"]:
            viol(f"{what}: the type is {getattr(t, '__name__', t)!r} with {lv} pointer level(s); the declarator has {decl['stars']} star(s)"
                 + (f" on top of the {decl['levels'] - decl['stars']} of {decl['base']}" if decl.get("base") else "") + f": {decl['levels']} level(s)", cd)
            return False
        c = below
        for i in range(lv):
            if c.size != psz:
                viol(f"{what}: level {i + 1} of the pointer type ({c.__name__}) has size {c.size}, the configured pointer ({self.pname}) is {psz} bytes wide", cd)
                return False
            c = c.type
        spec = decl["spec"]
        if spec["kind"] == "inline" or (spec["kind"] == "struct" and decl.get("is_typedef")):
            ok = isinstance(base, type) and issubclass(base, m.Structure) and [f._name for f in base.__fields__] == spec["names"]
        else:
            try:
                ok = base is cs.resolve(spec["ref"])
            except Exception:  # noqa: BLE001
                ok = False
        if not ok:
            viol(f"{what}: below its {lv} pointer level(s) the type is {getattr(base, '__name__', base)!r}, declared as {spec['kind']} {spec['ref']}", cd)
            return False
        n = 1
        for d in dims:
            n *= d
        if t.size != n * psz:
            viol(f"{what}: {n} pointer(s) of {psz} bytes occupy {n * psz} bytes, the type's size is {t.size}", cd)
            return False
        return True


def spelling_round(m, pname, endian, compiled, rnd, tier, res, viol, lines, metas, decl_lines, decl_metas):
    psz = ALL_PTRS[pname]
    order = "little" if endian == "<" else "big"
    align = rnd.random() < 0.3
    plan = gen_plan(rnd, psz, tier)
    text = plan["text"]
    entry = rnd.choice(["load", "load", "loadfile", "two loads", "chained load"])
    R = Round(m, pname, endian, compiled, align, res, viol, lines, metas)
    cd0 = {"definition": text, "endian": endian, "compiled": compiled, "pointer": pname, "align": align, "load": entry}
    kw = f"compiled={compiled}, align={align}"
    new = f"cstruct(endian={endian!r}, pointer={pname!r})"
    script = {"load": f"cs = {new}; cs.load(TEXT, {kw})", "chained load": f"cs = {new}.load(TEXT, {kw})",
              "loadfile": f"cs = {new}; open('/tmp/def.h', 'wb').write(TEXT.encode()); cs.loadfile('/tmp/def.h', {kw})",
              "two loads": f"cs = {new}; cs.load(TEXT[:{len(plan['head'])}], {kw}); cs.load(TEXT[{len(plan['head'])}:], {kw})"}[entry]
    setup = ["import io; from dissect.cstruct import cstruct", f"TEXT = {text!r}", script]
    cd0["repro"] = "\n".join(setup)
    # ---- load
    try:
        ref = m.cstruct(endian=endian, pointer=pname)
        ref.load(plan["refpre"], compiled=False, align=align)
        for spec in plan["specs"]:
            spec["reftype"] = ref.resolve(spec["ref"])
    except Exception as e:  # noqa: BLE001
        viol(f"the target types of the reference instance cannot be loaded: {type(e).__name__}: {e}", cd0)
        return
    try:
        if entry == "chained load":
            cs = m.cstruct(endian=endian, pointer=pname).load(text, compiled=compiled, align=align)
        else:
            cs = m.cstruct(endian=endian, pointer=pname)
            if entry == "load":
                cs.load(text, compiled=compiled, align=align)
            elif entry == "two loads":
                cs.load(plan["head"], compiled=compiled, align=align)
                cs.load(plan["rec"], compiled=compiled, align=align)
            else:
                fd, path = tempfile.mkstemp(prefix="v9c16-", suffix=".h")
                try:
                    with os.fdopen(fd, "wb") as fh:
                        fh.write(text.encode())
                    cs.loadfile(path, compiled=compiled, align=align)
                finally:
                    os.unlink(path)
        T = cs.REC
    except Exception as e:  # noqa: BLE001
        viol(f"a definition whose pointer declarators have blanks / line breaks / comments around their stars is rejected ({entry}): {type(e).__name__}: {str(e)[:160]}", cd0)
        return
    res.feat(f"v9:decl:load:{entry}")
    res.feat(f"v9:decl:{'aligned' if align else 'packed'}")
    for d in plan["members"] + plan["typedefs"]:
        res.feat(f"v9:decl:levels:{d['levels']}")
        res.feat(f"v9:decl:stars:{d['stars']}")
        res.feat(f"v9:decl:target:{d['spec']['kind']}")
        res.feat(f"v9:decl:dims:{len(d['dims'])}")
        if d["info"]["separated"]:
            res.feat("v9:decl:something between the stars")
        if d["info"]["inner_comment"]:
            res.feat("v9:decl:comment between the stars")
        if d["info"]["inner_newline"]:
            res.feat("v9:decl:line break between the stars")
        for k in d["info"]["kinds"]:
            res.feat(f"v9:decl:gap:{k}")
    # ---- the definition parser's model on the same text
    try:
        shown = real_decls(m, plan, cs)
    except Exception as e:  # noqa: BLE001
        shown = ("failed", f"{type(e).__name__}: {e}")
    decl_lines.append(v1_c13.request(text))
    decl_metas.append((cd0, shown))
    # ---- names
    declared = [name for _, name, _ in plan["fields"]]
    try:
        real = [f._name for f in T.__fields__]
    except Exception as e:  # noqa: BLE001
        viol(f"the fields of the loaded record cannot be listed: {type(e).__name__}: {e}", cd0)
        return
    if real != declared:
        viol(f"the record's field names are {real}, the declarators declare {declared} (stars, blanks and comments are not part of a name)", cd0)
    bad = sorted(k for k in cs.typedefs if isinstance(k, str) and ("*" in k or k != k.strip() or "/" in k))
    if bad:
        viol(f"type names {bad} were registered: stars / white space of a declarator ended up in a typedef's name", cd0)
    # ---- types, widths, layout
    offs, size = layout(plan, psz, align)
    good = {}
    for d in plan["members"]:
        fld = T.fields.get(d["name"]) if hasattr(T, "fields") else None
        if fld is None:
            viol(f"member {d['name']} (declared with {d['stars']} star(s)) is not a field of the record: fields {real}", cd0)
            continue
        if R.check_type(fld.type, d, f"member {d['name']}", cd0, cs):
            if fld.offset != offs[d["name"]]:
                viol(f"member {d['name']} lies at offset {fld.offset}; with {psz}-byte pointers ({'aligned' if align else 'packed'}) the members before it end at {offs[d['name']]}", cd0)
            else:
                good[d["name"]] = d
    if len(good) == len(plan["members"]) and real == declared and T.size != size:
        viol(f"the record's size is {T.size}; its members with {psz}-byte pointers ({'aligned' if align else 'packed'}) occupy {size} bytes", cd0)
        return
    tgood = []
    for d in plan["typedefs"]:
        d["is_typedef"] = True
        try:
            PT = getattr(cs, d["name"])
        except Exception as e:  # noqa: BLE001
            viol(f"typedef {d['name']} (declared with {d['stars']} star(s)) is not defined on the instance ({type(e).__name__}); typedef names with a star: {bad}", cd0)
            continue
        if R.check_type(PT, d, f"typedef {d['name']}", cd0, cs):
            tgood.append((d, PT))
    if not good and not tgood:
        return
    # ---- image: record, typedef slots, chains
    refsize = lambda spec: getattr(spec["reftype"], "size", None)  # noqa: E731
    nel = sum(len(elements(d["dims"])) for d in plan["members"] + plan["typedefs"])
    start = max(size, T.size or 0)
    tslots = {}
    for d, PT in tgood:
        tslots[d["name"]] = start
        start += len(elements(d["dims"])) * psz
    N = start + min(nel * (2 * psz + 6) + 24, 4000)
    if psz == 1:
        N = min(N, 256)
    img = Image(rnd, psz, order, start, max(N, start))
    planted = {}
    for d in plan["members"]:
        if d["name"] in good:
            for j, ix in enumerate(elements(d["dims"])):
                a = img.address(d["levels"], d["spec"], refsize(d["spec"]))
                img.put(offs[d["name"]] + j * psz, a)
                planted[(d["name"], ix)] = a
    for d, PT in tgood:
        for j, ix in enumerate(elements(d["dims"])):
            a = img.address(d["levels"], d["spec"], refsize(d["spec"]))
            img.put(tslots[d["name"]] + j * psz, a)
            planted[(d["name"], ix)] = a
    data = bytes(img.buf)
    ikind = rnd.choice(["BytesIO", "BytesIO", "BytesIO", "bytes: T(x)", "bytes: T.read(x)", "bytearray: cs.read('REC', x)"])
    cd = dict(cd0, data=data.hex(), input=ikind)
    call = {"BytesIO": "st = io.BytesIO(DATA); o = cs.REC(st)", "bytes: T(x)": "o = cs.REC(DATA)", "bytes: T.read(x)": "o = cs.REC.read(DATA)",
            "bytearray: cs.read('REC', x)": "o = cs.read('REC', bytearray(DATA))"}[ikind]
    cd["repro"] = "\n".join(setup + [f"DATA = bytes.fromhex({data.hex()!r})", call])
    stream = None
    try:
        if ikind == "BytesIO":
            stream = io.BytesIO(data)
            o = T(stream)
        elif ikind == "bytes: T(x)":
            o = T(data)
        elif ikind == "bytes: T.read(x)":
            o = T.read(data)
        else:
            o = cs.read("REC", bytearray(data))
    except Exception as e:  # noqa: BLE001
        viol(f"parsing the record ({ikind}) raises {type(e).__name__}: {e}", cd)
        o = None
    if o is not None:
        res.feat(f"v9:decl:input:{ikind.split(':')[0]}")
        if stream is not None and stream.tell() != size:
            viol(f"parsing the record of {size} bytes left the stream at {stream.tell()}", cd)
        for d in plan["members"]:
            if d["name"] not in good:
                continue
            try:
                val = getattr(o, d["name"])
            except Exception as e:  # noqa: BLE001
                viol(f"member {d['name']} cannot be read from the parsed record: {type(e).__name__}: {e}", cd)
                continue
            for j, ix in enumerate(elements(d["dims"])):
                label = "o." + d["name"] + "".join(f"[{i}]" for i in ix)
                a = planted[(d["name"], ix)]
                cdp = dict(cd, pointer_read=label, addr=a, repro=cd["repro"] + f"\np = {label}; print(repr(p)); print(repr(p.dereference()))")
                try:
                    p = val
                    for i in ix:
                        p = p[i]
                    if not isinstance(p, m.Pointer) or int(p) != a:
                        viol(f"{label} reads as {p!r}, the unsigned integer stored in its {psz} bytes at offset {offs[d['name']] + j * psz} is {a}", cdp)
                        continue
                except Exception as e:  # noqa: BLE001
                    viol(f"{label} cannot be read from the parsed record: {type(e).__name__}: {e}", cdp)
                    continue
                R.walk(p, a, d["levels"], d["spec"], label, cdp, data, stream)
                # arithmetic: same class, the chain that starts k bytes further
                if a and rnd.random() < 0.35:
                    k = rnd.choice([0, psz, 1, -1, 2 * psz])
                    cda = dict(cdp, arithmetic=f"{label} + {k}", addr=a + k)
                    try:
                        r = p + k
                    except Exception as e:  # noqa: BLE001
                        viol(f"{label} + {k}: pointer arithmetic raises {type(e).__name__}: {e}", cda)
                        continue
                    if type(r) is not type(p) or int(r) != a + k:
                        viol(f"{label} + {k}: the result is {r!r} ({type(r).__name__}), not a {type(p).__name__} @ {a + k}", cda)
                    elif a + k > 0:
                        res.feat("v9:decl:arithmetic")
                        R.walk(r, a + k, d["levels"], d["spec"], f"({label} + {k})", cda, data, stream)
        # the addresses are written back
        try:
            out = o.dumps()
            wrong = [d["name"] for d in plan["members"] if d["name"] in good
                     and out[offs[d["name"]]:offs[d["name"]] + len(elements(d["dims"])) * psz] != data[offs[d["name"]]:offs[d["name"]] + len(elements(d["dims"])) * psz]]
            if wrong or len(out) != size or (not align and out != data[:size]):
                viol(f"dumps() of the parsed record gives {out.hex()} ({len(out)} bytes; record size {size}); the addresses of {wrong} were read from {data[:size].hex()}", cd)
        except Exception as e:  # noqa: BLE001
            viol(f"dumps() of the parsed record raises {type(e).__name__}: {e}", cd)
        if stream is not None and stream.tell() != size:
            viol(f"the stream moved from {size} to {stream.tell()} while the record's pointers were followed", cd)
    # ---- typedef'd pointer types read on their own, the stream standing at their slot
    for d, PT in tgood:
        slot = tslots[d["name"]]
        st = io.BytesIO(data)
        st.seek(slot)
        cdt = dict(cd, input="BytesIO", typedef=d["name"], slot=slot, repro="\n".join(setup + [f"DATA = bytes.fromhex({data.hex()!r})", f"st = io.BytesIO(DATA); st.seek({slot}); v = cs.{d['name']}(st)"]))
        try:
            v = PT(st)
        except Exception as e:  # noqa: BLE001
            viol(f"reading typedef {d['name']} at offset {slot} raises {type(e).__name__}: {e}", cdt)
            continue
        width = len(elements(d["dims"])) * psz
        if st.tell() != slot + width:
            viol(f"reading typedef {d['name']} ({width} bytes) at offset {slot} left the stream at {st.tell()}", cdt)
            continue
        res.feat("v9:decl:typedef read on its own")
        for j, ix in enumerate(elements(d["dims"])):
            label = f"cs.{d['name']}(st)" + "".join(f"[{i}]" for i in ix)
            a = planted[(d["name"], ix)]
            cdp = dict(cdt, pointer_read=label, addr=a)
            try:
                p = v
                for i in ix:
                    p = p[i]
                if not isinstance(p, m.Pointer) or int(p) != a:
                    viol(f"{label} reads as {p!r}, the unsigned integer stored in its {psz} bytes at offset {slot + j * psz} is {a}", cdp)
                    continue
            except Exception as e:  # noqa: BLE001
                viol(f"{label} cannot be read: {type(e).__name__}: {e}", cdp)
                continue
            R.walk(p, a, d["levels"], d["spec"], label, cdp, data, st)
        try:
            if v.dumps() != data[slot:slot + width]:
                viol(f"cs.{d['name']}(st).dumps() gives {v.dumps().hex()}, the addresses were read from {data[slot:slot + width].hex()}", cdt)
        except Exception as e:  # noqa: BLE001
            viol(f"cs.{d['name']}(st).dumps() raises {type(e).__name__}: {e}", cdt)
    # ---- no stream: a default-constructed record
    if good:
        d = good[sorted(good)[0]]
        try:
            p = getattr(T(), d["name"])
            for _ in d["dims"]:
                p = p[0]
            p.dereference()
            viol(f"member {d['name']} of a default-constructed record (no stream) could be dereferenced", cd0)
        except m.NullPointerDereference:
            res.feat("v9:decl:streamless null")
        except Exception as e:  # noqa: BLE001
            viol(f"member {d['name']} of a default-constructed record: dereferencing raises {type(e).__name__}, not NullPointerDereference", cd0)


def real_decls(m, plan, cs):
    """what the real classes show per declarator: (pointer depth, name, number of dimensions) for the fields of REC and the typedefs"""
    def real_decl(t, name, base):
        dims, below = peel_arrays(t)
        lv, _ = levels_of(m, below)
        if base:
            lv -= levels_of(m, cs.resolve(base))[0]
        return (lv, name, len(dims))

    by_name = {d["name"]: d for d in plan["members"]}
    rec = []
    for f in cs.REC.__fields__:
        d = by_name.get(f._name)
        rec.append(real_decl(f.type, f._name, d["base"] if d else None))
    tds = {}
    for d in plan["typedefs"]:
        try:
            tds[d["name"]] = real_decl(getattr(cs, d["name"]), d["name"], None)
        except Exception as e:  # noqa: BLE001
            tds[d["name"]] = ("undefined", type(e).__name__)
    return rec, tds


def compare_decls(ans, real):
    """the model's declarators of REC and of the typedefs against what the real classes showed -> None | description"""
    if real[0] == "failed":
        return f"the real classes cannot be inspected: {real[1]}"
    events, err = v1_c13.model_events(ans)
    if err is not None:
        return f"the implementation accepts the text, the model of the definition parser stops with {err}"
    mrec, mtd = None, {}
    for e in events:
        if e[0] == "aggr" and e[1][1] == "REC":
            mrec = [f[2] for f in e[1][2] if f[0] == "field"]
        elif e[0] == "typedef":
            for d in e[2]:
                mtd[d[1]] = d
    if mrec is None:
        return "the model of the definition parser finds no structure REC in the text"
    model = [(d[0], d[1], len(d[2])) for d in mrec]
    if model != real[0]:
        return f"declarators of REC (pointer depth, name, dimensions): model {model}, implementation {real[0]}"
    for name, rd in real[1].items():
        md = mtd.get(name)
        if md is None or (md[0], md[1], len(md[2])) != rd:
            return f"typedef {name} (pointer depth, name, dimensions): model {md and (md[0], md[1], len(md[2]))}, implementation {rd}"
    return None


def declarator_spellings(m, env, res, viol, rnd, lines, metas):
    tier = env["tier"]
    decl_lines, decl_metas = [], []
    for pname in ALL_PTRS:
        for endian in "<>":
            for compiled in (False, True):
                for _ in range(5 if tier == "quick" else 20):
                    spelling_round(m, pname, endian, compiled, rnd, tier, res, viol, lines, metas, decl_lines, decl_metas)
    if env["driver_ok"] and decl_lines:
        answers = run_driver(decl_lines)
        for (cd, shown), ans in zip(decl_metas, answers):
            try:
                diff = compare_decls(ans, shown)
            except Exception as e:  # noqa: BLE001
                diff = f"the declarations cannot be compared: {type(e).__name__}: {e}"
            if diff and len(res.disagreements) < 20:
                res.disagreements.append(Case("corr", "pointer declarators: " + diff, cd))
            res.feat("v9:decl:definition parser model compared")


# ------------------------------------------------------------------------------------------------------------ legacy parser
def legacy_spellings(m, env, res, viol, rnd):
    """one-level pointer members through cs.load(text, deftype=cstruct.DEF_LEGACY); see the module docstring for what is excluded"""
    tier = env["tier"]
    for pname in ALL_PTRS:
        psz = ALL_PTRS[pname]
        for endian in "<>":
            order = "little" if endian == "<" else "big"
            for compiled in (False, True):
                for _ in range(2 if tier == "quick" else 8):
                    R = Round(m, pname, endian, compiled, False, res, viol, [], [])
                    xt = ("struct", [F("f0", S(rnd.choice(SMALL))), F("f1", S(rnd.choice(SMALL)))])
                    specs = [{"kind": "int", "texts": [t], "ref": t, "tree": S(t), "int": INTS[t]} for t in rnd.sample(sorted(INTS), 3)]
                    specs += [{"kind": "char", "texts": ["char"], "ref": "char", "tree": S("char")}, {"kind": "void", "texts": ["void"], "ref": "void", "tree": S("void")},
                              {"kind": "float", "texts": ["double"], "ref": "double", "tree": S("double")},
                              {"kind": "struct", "texts": ["X"], "ref": "X", "tree": xt, "names": ["f0", "f1"]}]
                    pre = "struct X { " + " ".join(defs.render_field(f, None) for f in xt[1]) + " };\n"
                    fields, parts, members = [], [], []
                    for i in range(rnd.randint(2, 3 if psz == 1 else 5)):
                        if rnd.random() < 0.5:
                            t = rnd.choice(sorted(SCAL))
                            fields.append(("scalar", f"s{i}", t))
                            parts.append(f"{t} s{i};")
                        spec = rnd.choice(specs)
                        d = {"name": f"p{i}", "stars": 1, "levels": 1, "dims": [], "spec": spec, "base": None}
                        members.append(d)
                        fields.append(("ptr", d["name"], d))
                        parts.append(spec["texts"][0] + rnd.choice([" ", "  ", "\t", "\n", " \t", "\n  "]) + "*" + d["name"] + ";")
                    text = pre + "struct REC {" + rnd.choice([" ", "\n  "]) + rnd.choice([" ", "\n  "]).join(parts) + rnd.choice([" ", "\n"]) + "};\n"
                    plan = {"fields": fields, "members": members}
                    cd0 = {"definition": text, "endian": endian, "compiled": compiled, "pointer": pname, "load": "legacy parser",
                           "repro": f"import io; from dissect.cstruct import cstruct\ncs = cstruct(endian={endian!r}, pointer={pname!r}); cs.load({text!r}, deftype=cstruct.DEF_LEGACY, compiled={compiled})"}
                    try:
                        ref = m.cstruct(endian=endian, pointer=pname)
                        ref.load(pre, compiled=False)
                        for spec in specs:
                            spec["reftype"] = ref.resolve(spec["ref"])
                        cs = m.cstruct(endian=endian, pointer=pname)
                        cs.load(text, deftype=m.cstruct.DEF_LEGACY, compiled=compiled)
                        T = cs.REC
                        real = [f._name for f in T.__fields__]
                    except Exception as e:  # noqa: BLE001
                        viol(f"a definition with one-level pointer members is rejected by the legacy parser: {type(e).__name__}: {str(e)[:160]}", cd0)
                        continue
                    res.feat("v9:decl:load:legacy parser")
                    declared = [n for _, n, _ in fields]
                    if real != declared:
                        viol(f"legacy parser: the record's field names are {real}, the declarators declare {declared}", cd0)
                        continue
                    offs, size = layout(plan, psz, False)
                    ok = True
                    for d in members:
                        fld = T.fields[d["name"]]
                        if not R.check_type(fld.type, d, f"legacy parser: member {d['name']}", cd0, cs):
                            ok = False
                        elif fld.offset != offs[d["name"]]:
                            ok = False
                            viol(f"legacy parser: member {d['name']} lies at offset {fld.offset}; with {psz}-byte pointers the members before it end at {offs[d['name']]}", cd0)
                    if not ok:
                        continue
                    if T.size != size:
                        viol(f"legacy parser: the record's size is {T.size}; its members with {psz}-byte pointers occupy {size} bytes", cd0)
                        continue
                    N = size + len(members) * 10 + 16
                    img = Image(rnd, psz, order, size, min(N, 256) if psz == 1 else N)
                    planted = {}
                    for d in members:
                        planted[d["name"]] = img.address(1, d["spec"], getattr(d["spec"]["reftype"], "size", None))
                        img.put(offs[d["name"]], planted[d["name"]])
                    data = bytes(img.buf)
                    cd = dict(cd0, data=data.hex(), repro=cd0["repro"] + f"\nst = io.BytesIO(bytes.fromhex({data.hex()!r})); o = cs.REC(st)")
                    stream = io.BytesIO(data)
                    try:
                        o = T(stream)
                    except Exception as e:  # noqa: BLE001
                        viol(f"legacy parser: parsing the record raises {type(e).__name__}: {e}", cd)
                        continue
                    if stream.tell() != size:
                        viol(f"legacy parser: parsing the record of {size} bytes left the stream at {stream.tell()}", cd)
                    for d in members:
                        a = planted[d["name"]]
                        label = "o." + d["name"]
                        cdp = dict(cd, pointer_read=label, addr=a)
                        try:
                            p = getattr(o, d["name"])
                            if not isinstance(p, m.Pointer) or int(p) != a:
                                viol(f"legacy parser: {label} reads as {p!r}, the unsigned integer stored in its {psz} bytes is {a}", cdp)
                                continue
                        except Exception as e:  # noqa: BLE001
                            viol(f"legacy parser: {label} cannot be read: {type(e).__name__}: {e}", cdp)
                            continue
                        R.walk(p, a, 1, d["spec"], "legacy parser: " + label, cdp, data, stream)
                    try:
                        if o.dumps() != data[:size]:
                            viol(f"legacy parser: dumps() gives {o.dumps().hex()}, the record was read from {data[:size].hex()}", cd)
                    except Exception as e:  # noqa: BLE001
                        viol(f"legacy parser: dumps() raises {type(e).__name__}: {e}", cd)
