"""C15, round-10 family: BY-NAME RESOLUTION UNDER INTERLEAVING.

Fields of a structure hold classes that were resolved when the structure was defined, so an ordinary parse never asks the cstruct
object for a type by name.  The public entry points that DO resolve a name at run time, on the cstruct object that all threads
share, are walked here:

  * `sizeof(<name>)` inside an array dimension of a shared structure (Expression.evaluate -> cstruct.resolve(str)), the structure
    being parsed through every calling convention: class call on bytes / bytearray / memoryview / a file object, `.read(stream)`,
    `.reads(bytes)`, followed by `.dumps()`;
  * `cs.read(name, stream-or-bytes)`;
  * attribute access `cs.<name>` (class call and `.reads`);
  * `cs.resolve(name)` (`.reads` and `.dumps` of the resolved class).

<name> is the top of a chain of 1..9 string references made with `cs.add_type('b', 'a')` (documented as legal up to 10 hops) over a
base that is a built-in scalar, a built-in alias (DWORD: itself a reference), a structure, an enum or an array typedef; the chain
length is biased towards the edge of the documented limit, and the first scenario of every mode sits exactly on it.  A fraction of
the threads use a name that does NOT resolve (a chain beyond the limit, a dangling reference): the error they obtain alone is the
error they must obtain under every schedule, and their failing resolve must not disturb the others.  Threads use their own chain or
the same one.  Endianness of the cstruct object, interpreted / compiled structures, base types, expression shapes, entry points and
inputs come from the seeded PRNG.

Oracle (the property as stated): under every explored schedule each thread obtains exactly what it obtains running alone.  The
"alone" reference itself is checked against values the harness computes independently: a name whose chain needs at most 10 lookups
must resolve (the job succeeds), the array sized by `sizeof(name) <op> n` has the length computed from the table of base sizes, and
a value read by name is the value read through the base class directly.

Schedules (line granularity inside the library, harness/sched.py): every single pre-emption on a grid ("thread A runs k lines, B
runs to completion, A finishes", both directions: the one that leaves A suspended in the middle of a resolve while B performs a
whole one), two pre-emptions on a coarser grid, seeded random and burst schedules; three threads in the thorough tier.
"""
from __future__ import annotations

import io

from . import common, impl
from .common import Case
from .sched import Scheduler, count_steps

# (name known to a fresh cstruct object, size in bytes, lookups cstruct.resolve needs for the name itself)
SCALARS = [("uint8", 1, 1), ("int8", 1, 1), ("uint16", 2, 1), ("int16", 2, 1), ("uint32", 4, 1), ("int32", 4, 1), ("uint64", 8, 1),
           ("int64", 8, 1), ("char", 1, 1), ("float", 4, 1), ("double", 8, 1), ("int24", 3, 1), ("uint48", 6, 1),
           ("WORD", 2, 2), ("DWORD", 4, 2), ("QWORD", 8, 2), ("BYTE", 1, 2)]

EXPRS = [  # (text with {N} for the name, python function of (size, n) giving the expected array length)
    ("sizeof({N}) + n % 3", lambda s, n: s + n % 3),
    ("n % 3 + sizeof({N})", lambda s, n: n % 3 + s),
    ("sizeof({N}) * 2 - n % 2", lambda s, n: s * 2 - n % 2),
    ("(sizeof({N}) & 15) + 1", lambda s, n: (s & 15) + 1),
    ("sizeof({N})", lambda s, n: s),
    ("-n % 2 + sizeof({N}) + sizeof({N})", lambda s, n: (-n) % 2 + 2 * s),
    ("(n & 1) * sizeof({N}) + 1", lambda s, n: (n & 1) * s + 1),
]

STRUCT_ENTRIES = ["call-bytes", "call-bytearray", "call-memoryview", "call-file", "read-file", "reads-bytes"]
NAME_ENTRIES = ["cs.read-file", "cs.read-bytes", "attr-call", "attr-reads", "resolve-reads", "cs.read-roundtrip"]


def _lookups(typedefs, name, cap=40):
    """the harness' own walk of the reference chain: number of dictionary lookups until a class is reached, or None"""
    n = 0
    cur = name
    while isinstance(cur, str):
        if cur not in typedefs or n >= cap:
            return None
        cur = typedefs[cur]
        n += 1
    return n


def _depth(rnd, edge):
    if edge:
        return 9
    r = rnd.random()
    if r < 0.35:
        return rnd.choice((8, 9))
    if r < 0.5:
        return rnd.choice((5, 6, 7))
    return rnd.randint(1, 9)


class _Thread:
    """what one thread does: its name, its job and the values the harness expects from the run alone"""


def _build(dc, rnd, compiled, nthreads, edge, pick_entry):
    """-> (description, cstruct object, [thread]) ; everything a scenario needs, or raises (reported by the caller)"""
    endian = rnd.choice("<>")
    cs = dc.cstruct(endian=endian)
    sn = rnd.randint(1, 3)
    pre = f"struct S {{ uint8 p; uint16 q[{sn}]; }};\nenum E : uint16 {{ A, B, C }};\ntypedef uint16 V[3];\n"
    cs.load(pre, compiled=compiled)
    bases = SCALARS + [("S", 1 + 2 * sn, 1), ("E", 2, 1), ("V", 6, 1)]
    steps = [f"cs = cstruct(endian={endian!r}); cs.load({pre!r}, compiled={compiled})"]
    threads = []
    share = nthreads > 1 and not edge and rnd.random() < 0.25
    for t in range(nthreads):
        th = _Thread()
        th.kind = "legal"
        if not edge and t > 0 and rnd.random() < 0.22:
            th.kind = rnd.choice(("too-deep", "dangling"))
        if share and t > 0 and th.kind == "legal" and threads[0].kind == "legal":
            th.top, th.base, th.size, th.depth, th.basecls = threads[0].top, threads[0].base, threads[0].size, threads[0].depth, threads[0].basecls
        else:
            base, size, own = rnd.choice(bases)
            k = _depth(rnd, edge)
            k = min(k, 10 - own)                      # legal: at most 10 lookups in all
            if th.kind == "too-deep":
                k = rnd.randint(11, 14)               # beyond the limit for every entry point (attribute access needs one lookup less)
            first = base if th.kind != "dangling" else f"nosuch{t}"
            names = [f"r{t}_{i}" for i in range(1, k + 1)]
            prev = first
            for nm in names:
                cs.add_type(nm, prev)
                steps.append(f"cs.add_type({nm!r}, {prev!r})")
                prev = nm
            th.top, th.base, th.size, th.depth = names[-1], base, size, k
            cur = base
            while isinstance(cur, str):               # the class behind the base, by the harness' own walk
                cur = cs.typedefs[cur]
            th.basecls = cur
        th.lookups = _lookups(cs.typedefs, th.top)
        th.legal = th.lookups is not None and th.lookups <= 10
        threads.append(th)
    # one structure per thread, sized by name; a field typed by the name as well (resolved at definition time) when it resolves
    for t, th in enumerate(threads):
        etext, efn = rnd.choice(EXPRS)
        th.expr, th.efn = etext.format(N=th.top), efn
        fld = f" {th.top} v;" if th.legal and rnd.random() < 0.5 else ""
        th.has_v = bool(fld)
        text = f"struct T{t} {{ uint8 n;{fld} uint8 a[{th.expr}]; uint16 tail; }};"
        cs.load(text, compiled=compiled)
        steps.append(f"cs.load({text!r}, compiled={compiled})")
        th.T = getattr(cs, f"T{t}")
        th.text = text
        th.entry = pick_entry()
        th.data = bytes([rnd.randint(0, 9)]) + bytes(rnd.randrange(1, 255) for _ in range(56))
        steps.append(f"thread {t}: {th.entry} name={th.top} data={th.data.hex()}")
    return {"endian": endian, "compiled": compiled, "setup": steps}, cs, threads


def _job(cs, th):
    T, top, d, entry = th.T, th.top, th.data, th.entry
    canon = impl.canon

    def f():
        if entry in STRUCT_ENTRIES:
            if entry == "call-bytes":
                o = T(d)
            elif entry == "call-bytearray":
                o = T(bytearray(d))
            elif entry == "call-memoryview":
                o = T(memoryview(d))
            elif entry == "call-file":
                o = T(io.BytesIO(d))
            elif entry == "read-file":
                o = T.read(io.BytesIO(d))
            else:
                o = T.reads(d)
            return ("struct", canon(o), o.dumps(), len(o.a), int(o.n))
        if entry == "cs.read-file":
            v = cs.read(top, io.BytesIO(d))
        elif entry == "cs.read-bytes":
            v = cs.read(top, d)
        elif entry == "attr-call":
            v = getattr(cs, top)(d)
        elif entry == "attr-reads":
            v = getattr(cs, top).reads(d)
        elif entry == "resolve-reads":
            v = cs.resolve(top).reads(d)
        else:
            v = cs.read(top, io.BytesIO(d))
            return ("value", canon(v), cs.resolve(top).dumps(v), len(getattr(cs, top)))
        return ("value", canon(v))
    return f


def _check_alone(cs, th, r):
    """the reference run against the harness' own expectations; -> None or a description of what is wrong"""
    if not th.legal:
        return None   # (which error a name that does not resolve gives is not C15's business: only that it is the same under every schedule)
    if r[0] != "ok":
        return f"the name {th.top} ({th.lookups} lookups, documented limit 10) does not resolve / parse alone: {r}"
    v = r[1]
    if v[0] == "struct":
        want = th.efn(th.size, v[4])
        if v[3] != want:
            return f"a[{th.expr}] has {v[3]} entries alone, expected {want} (sizeof({th.base}) = {th.size}, n = {v[4]})"
    else:
        try:
            direct = impl.canon(th.basecls.reads(th.data))
        except Exception as e:  # noqa: BLE001
            return f"reading {th.base} directly raises {type(e).__name__}: {e}"
        if v[1] != direct:
            return f"the value read by the name {th.top} is {str(v[1])[:120]}, read through the class of {th.base} it is {str(direct)[:120]}"
        if len(v) > 3 and v[3] != th.size:
            return f"len(cs.{th.top}) is {v[3]}, expected {th.size}"
    return None


def _schedules(rnd, lens, tier):
    n = len(lens)
    quick = tier == "quick"
    out = []
    rest = lambda: [t for t in range(n) for _ in range(lens[t] + 2)]  # noqa: E731
    # every single pre-emption (on a grid): A runs k lines, then the others run to completion one after the other, then A finishes
    for a in range(n):
        cap = 40 if quick else 400
        step = max(1, lens[a] // cap)
        others = [t for t in range(n) if t != a]
        for k in range(0, lens[a], step):
            if n > 2 and rnd.random() < 0.5:
                others = others[::-1]
            s = [a] * k
            for o in others:
                s += [o] * (lens[o] + 2)
            out.append(("one-preemption", s + rest()))
    # two pre-emptions on a coarser grid (A k lines, B j lines, A to the end, B to the end), both orders
    ga, gb = (8, 6) if quick else (30, 20)
    pairs = [(0, 1)] if quick else [(a, b) for a in range(n) for b in range(n) if a != b]
    for a, b in pairs:
        for k in range(1, lens[a], max(1, lens[a] // ga)):
            for j in range(1, lens[b], max(1, lens[b] // gb)):
                out.append(("two-preemptions", [a] * k + [b] * j + [a] * (lens[a] + 2) + rest()))
    L = sum(lens)
    for _ in range(12 if quick else 200):
        out.append(("random", [rnd.randrange(n) for _ in range(L)]))
    for _ in range(8 if quick else 100):
        s, cur = [], rnd.randrange(n)
        while len(s) < L:
            s += [cur] * rnd.randint(1, 9)
            cur = rnd.randrange(n)
        out.append(("bursts", s))
    return out


def run(env, res, viol):
    """the family; `viol(what, data)` reports a violation of the property"""
    dc = impl.dc()
    rnd = common.mkrng(env["seed"], "c15-v10-byname")
    tier = env["tier"]
    prefix = str(common.REPO / "dissect" / "cstruct")
    nscen = 4 if tier == "quick" else 14
    nthreads = 2 if tier == "quick" else 3
    deck = []

    def pick_entry():   # the entry points are dealt from a shuffled deck: every run walks all of them
        if not deck:
            deck.extend(STRUCT_ENTRIES + NAME_ENTRIES)
            rnd.shuffle(deck)
        return deck.pop()

    for compiled in (False, True):
        for i in range(nscen):
            edge = i == 0
            nt = 2 if edge else nthreads
            try:
                desc, cs, threads = _build(dc, rnd, compiled, nt, edge, pick_entry)
            except Exception as e:  # noqa: BLE001  - building reference chains of documented length and structures sized by them must work
                viol(f"by-name: setting up a scenario raises {type(e).__name__}: {str(e)[:200]}", {"compiled": compiled, "scenario": i})
                continue
            jobs = [_job(cs, th) for th in threads]
            alone, lens = [], []
            for th, j in zip(threads, jobs):
                n, r = count_steps(j, prefix)
                lens.append(n)
                alone.append(r)
                bad = _check_alone(cs, th, r)
                if bad:
                    viol("by-name (sequential reference): " + bad, dict(desc, thread=threads.index(th)))
            tag = "+".join(f"{th.entry}/{th.kind}/{th.depth}" for th in threads)
            for th in threads:
                res.feat(f"byname:entry:{th.entry}")
                res.feat(f"byname:chain:{th.kind}:{th.depth if th.kind != 'too-deep' else '11+'}")
                res.feat(f"byname:base:{th.base}")
            reported = False
            for kind, sch in _schedules(rnd, lens, tier):
                sc = Scheduler(nt, sch, prefix)
                got, _ = sc.run(jobs)
                res.count(("byname", desc["endian"], compiled, tag, tuple(sch[:240])), True)
                res.feat(f"byname:{kind}")
                for t in range(nt):
                    if got[t] != alone[t] and not reported:
                        reported = True
                        viol(f"by-name resolution: thread {t} ({threads[t].entry}, name {threads[t].top}: {threads[t].lookups} lookups) obtains "
                             f"{str(got[t])[:160]} under an interleaving, {str(alone[t])[:160]} alone",
                             dict(desc, thread=t, schedule="".join(map(str, sch[:400])), kind=kind))
            res.sample({"family": "by-name", "setup": desc["setup"][-nt - 1:], "endian": desc["endian"], "compiled": compiled,
                        "line_steps_alone": lens}, 6)
