"""C20, round 9: DEEP ANONYMOUS NESTING and DEFINITIONS LOADED THROUGH EVERY LOADING ROUTE.

Both families share one generator (`DefGen`) that writes definition sets as an ABSTRACT list of items (constants, enums / flags,
typedef aliases with plain / pointer / array declarators, structures and unions in the three naming forms `struct S {...};`,
`typedef struct _S {...} S, S2;`, `typedef struct {...} S, S2;`), whose field lists are trees (scalars of every kind, user types
by any of their names, arrays - fixed, multi-dimensional, constant-sized, null-terminated, zero-length -, pointers, bit-fields,
named nested members with and without a tag and as arrays, ANONYMOUS nested members to any depth, self references).  Because the
harness wrote the items, it knows - without asking the library - which names every definition set defines and which data
attributes an instance of every structure has (an anonymous member contributes the fields of its body, recursively; a named
member contributes its name).  The items are rendered to text (token-parser syntax or the restricted legacy syntax) or replayed
through the construction API, so the same set can be loaded through every public loading route:

    load            cs.load(text, compiled=, align=)
    loadfile        cs.loadfile(<real file>, compiled=, align=)
    split           one cs.load() call per group of items (2-4 calls)
    legacy          cs.load(text, deftype=cstruct.DEF_LEGACY, compiled=)        [legacy-compatible sets only, see below]
    legacy-file     cs.loadfile(<real file>, deftype=cstruct.DEF_LEGACY, ...)   [the same]
    api             cs._make_struct / _make_union / _make_enum / _make_flag / _make_array / _make_pointer + Field + cs.add_type
                    (aliases by object or by name), constants through cs.consts
    api-addfield    the same, but every top-level structure is created empty, registered, and filled through
                    Structure.add_field (one commit per field, or inside start_update())
    mixed           the first items through load(), the rest through the API
    file-stub       a real Python module holding `<var> = cstruct(...).load(text)` run through stubgen.generate_file_stub

Legacy-compatible sets (what CStyleParser registers faithfully on the unmodified tree; everything else is silently dropped or
mis-registered by that regex parser and is therefore not generated for it): `#define NAME literal`, named enums / flags,
`typedef <one-word type> NAME;` (no pointer / array declarator: the declarator text would become the name), structures only (the
keyword `union` is ignored by it) with a non-empty body WITHOUT nested braces, one-word field types, one array dimension,
`type *name;`, `type name:bits;`, no self reference (the tag is registered after the body), no multi-word types.

Oracle per (set, route) - the property as stated, from what the harness wrote and what instances do, not from Structure.fields:

* the module's AST oracle (valid Python; declared names == the user names the cstruct object provides; every hint resolves to
  the live type);
* NAMES: the stub declares every name the harness defined (constant, enum, alias, tag, every typedef name) exactly once and
  nothing else - in particular all three of `typedef struct _Foo {...} Foo, FooAlias;`;
* FIELDS: the stub class of every structure (and, recursively, every inline class of a nested member) annotates exactly the
  data attribute names of the definition, in order (the fields of anonymous members folded in, at any depth; never a generated
  `__anonymous_N__` name), the keyword `__init__` overload repeats them, and every hint has the shape the declaration
  prescribes (cstruct.<name> resolving to the declared type, Array[..] / Pointer[..] / CharArray / WcharArray, or an inline class
  that itself passes this check); the same for stubgen.generate_structure_stub called directly on the type;
* INSTANCES: a value parsed from bytes through a random calling convention (class call / read / reads / cs.read; bytes /
  bytearray / memoryview / BytesIO / a real file) provides every name the stub class declares and every name the definition has
  (getattr and item access); the parsed value is an instance of what the hint names; repr() works and lists the data attributes
  in order; bool() works and is any(bool(attribute)); parsing the same bytes twice gives equal objects; hash() works and agrees
  between the two whenever every attribute value is hashable; every keyword the stub's __init__ declares is accepted by the class.

Documented exclusions (behaviour of the UNMODIFIED library met while writing this probe):
* keyword __init__ of a structure WITH an anonymous member: the stub declares the folded names (a, b, c) as __init__ parameters, but
  the real __init__ takes the raw member name (`__anonymous_N__`) and `T(a=1)` raises TypeError.  Counted as
  `v9:kwinit:anonymous-member:*`, not reported (the round's brief defines the declared parameters as the folded names).
* the value of a bit-field member is a plain int, not an instance of the hinted type: bit-fields are left out of the
  value-is-instance-of-the-hint check.
* keyword __init__ of a dynamically sized union raises NotImplementedError (documented by the library): not called; comparing values
  that hold a dynamically sized union raises the same (unions compare by their bytes): then only hash() not raising is checked.
* null-terminated arrays (`T x[]`) are only generated for built-in scalars and enums: reading `T x[]` never ends when T has size 0
  and is truthy (`union Z { uint8 p[2][0]; }; struct T { Z x[]; };` then T(bytes(16))) - a parsing matter, but instances are parsed here.
* field names that collide with class attributes of structure types (size, type, fields, lookup, ...) are not generated: a folded
  field of that name is overwritten by the class attribute (not a stub matter).
"""
from __future__ import annotations

import ast
import io
import json
import os
import random
import shutil
import tempfile

SCALARS = ["uint8", "int8", "uint16", "int16", "uint32", "int32", "uint64", "int64", "uint24", "int48", "uint128", "float", "double", "char",
           "wchar", "uleb128", "ileb128", "BYTE", "WORD", "DWORD", "QWORD", "UCHAR", "ULONG", "int", "short", "INT16", "wchar_t", "int8_t"]
MULTIWORD = ["unsigned int", "long long", "unsigned short", "signed char", "unsigned long long"]
BITS = {"uint8": ("uint8", 8), "BYTE": ("uint8", 8), "int8": ("int8", 8), "uint16": ("uint16", 16), "WORD": ("uint16", 16),
        "uint32": ("uint32", 32), "DWORD": ("uint32", 32), "int32": ("int32", 32), "uint64": ("uint64", 64), "int16": ("int16", 16)}
LEB = {"uleb128", "ileb128"}
# no Python keywords (F38), nothing that is a class attribute of structure types (see the module docstring)
FIELD_NAMES = ["a", "b", "c", "x", "y", "z", "len", "data", "next", "prev", "flags", "hdr", "_pad", "v1", "v2", "Name", "ID", "kind", "value",
               "count", "list", "str", "int", "id", "obj", "fh", "match", "case", "print", "overload", "Array", "Pointer", "Literal", "lo", "hi",
               "_x", "cstruct", "self_", "m_0", "w", "q", "r"]
LOAD_ROUTES = ["load", "loadfile", "split", "api", "api-addfield", "mixed"]
LEGACY_ROUTES = ["legacy", "legacy-file"]


# --------------------------------------------------------------------------------------------- trees

def wrap(base, stars, dims):
    """declarator `base *..* name[d0][d1]..` -> type tree: arrays (outermost first) of pointers to base"""
    t = base
    for _ in range(stars):
        t = ["ptr", t]
    for d in reversed(dims):
        t = ["arr", t, d]
    return t


def unwrap(ty):
    """type tree -> (base, stars, dims)"""
    dims = []
    while ty[0] == "arr":
        dims.append(ty[2])
        ty = ty[1]
    stars = 0
    while ty[0] == "ptr":
        stars += 1
        ty = ty[1]
    return ty, stars, dims


def folded(fields):
    """[(data attribute name, type tree, bits)] of a field list: anonymous members contribute the fields of their body"""
    out = []
    for f in fields:
        if f["name"] is None:
            out.extend(folded(f["ty"][3]))
        else:
            out.append((f["name"], f["ty"], f.get("bits")))
    return out


def anon_depth(fields):
    """deepest chain of anonymous members directly inside one another"""
    d = 0
    for f in fields:
        if f["name"] is None:
            d = max(d, 1 + anon_depth(f["ty"][3]))
    return d


def all_aggs(fields):
    """every inline aggregate below a field list (anonymous and named)"""
    for f in fields:
        base, _, _ = unwrap(f["ty"])
        if base[0] == "agg":
            yield f, base
            yield from all_aggs(base[3])


def max_anon_depth(fields):
    d = anon_depth(fields)
    for f, base in all_aggs(fields):
        d = max(d, anon_depth(base[3]))
    return d


# --------------------------------------------------------------------------------------------- generator

class DefGen:
    def __init__(self, rnd, legacy=False, deep=False, multiword=()):
        self.r = rnd
        self.legacy = legacy
        self.deep = deep
        self.multiword = list(multiword)
        self.n = 0
        self.types: list[str] = []  # user type names usable as a field type
        self.arrayable: set[str] = set()  # ... of these, the ones that may be an array element / pointer target freely
        self.consts: list[str] = []  # integer constants usable as an array size
        self.items: list[dict] = []

    def fresh(self, prefix):
        self.n += 1
        return self.r.choice([f"{prefix}{self.n}", f"{prefix}_{self.n}", f"_{prefix}{self.n}", f"{prefix.upper()}{self.n}x"])

    def fname(self, taken):
        for _ in range(60):
            nm = self.r.choice(FIELD_NAMES)
            if nm not in taken:
                taken.add(nm)
                return nm
        nm = f"f{len(taken)}"
        taken.add(nm)
        return nm

    def type_name(self):
        r = self.r
        if self.types and r.random() < 0.42:
            return r.choice(self.types)
        if self.multiword and not self.legacy and r.random() < 0.08:
            return r.choice(self.multiword)
        return r.choice(SCALARS)

    # ---- fields

    def fields(self, n, depth, taken, kind, maxdepth):
        """n random fields of a `kind` body at nesting depth `depth`; `taken` is the folded namespace they live in"""
        r = self.r
        out = []
        run = None  # (canonical int type, bits left) of the bit-field run in progress
        for _ in range(n):
            x = r.random()
            nest_p = 0.0 if (self.legacy or depth >= maxdepth) else (0.30 if self.deep else 0.14)
            if x < nest_p:
                run = None
                k2 = r.choice(["struct", "union"])
                if x < nest_p * 0.45:
                    sub = self.fields(r.randint(1, 3), depth + 1, taken, k2, maxdepth)
                    out.append({"name": None, "ty": ["agg", k2, None, sub]})
                else:
                    sub = self.fields(r.randint(0 if r.random() < 0.1 else 1, 3), depth + 1, set(), k2, maxdepth)
                    tag = self.fresh("In") if r.random() < 0.3 else None
                    dims = r.choice([[], [], [], [2], [2, 3], [0], [1]])
                    out.append({"name": self.fname(taken), "ty": wrap(["agg", k2, tag, sub], 0, dims)})
                continue
            t = self.type_name()
            nm = self.fname(taken)
            leb = t in LEB
            y = r.random()
            if y < 0.45 or (leb and y < 0.80):
                out.append({"name": nm, "ty": ["sc", t]})
                run = None
            elif y < 0.58:
                dims = [r.choice([0, 1, 2, 3])] if self.legacy else [r.choice([0, 1, 2, 3]) for _ in range(r.randint(1, 3))]
                out.append({"name": nm, "ty": wrap(["sc", t], 0, dims)})
                run = None
            elif y < 0.64 and (t in SCALARS or t in self.arrayable):
                # null-terminated: only of built-in scalars and enums.  (Reading `T x[]` never ends on the unmodified tree when T has
                # size 0 and is truthy, e.g. `union T { uint8 p[2][0]; };` - not a stub matter, but instances are parsed here.)
                out.append({"name": nm, "ty": wrap(["sc", t], 0, [None])})
                run = None
            elif y < 0.70 and self.consts:
                out.append({"name": nm, "ty": wrap(["sc", t], 0, [r.choice(self.consts)])})
                run = None
            elif y < 0.82:
                stars = 1 if self.legacy else r.randint(1, 2)
                dims = [] if (self.legacy or r.random() < 0.7) else [2]
                out.append({"name": nm, "ty": wrap(["sc", t], stars, dims)})
                run = None
            elif t in BITS and kind == "struct":
                canon, width = BITS[t]
                if run is None or run[0] != canon or run[1] == 0:
                    run = (canon, width)
                bits = r.randint(1, min(run[1], 8))
                run = (canon, run[1] - bits)
                out.append({"name": nm, "ty": ["sc", t], "bits": bits, "sp": r.randint(0, 2)})
            else:
                out.append({"name": nm, "ty": ["sc", t]})
                run = None
        return out

    def deep_fields(self, kind):
        """a body with a spine of 2-3 anonymous members directly inside one another (struct in union in struct, ...), ordinary
        fields before and after the anonymous member at every level"""
        r = self.r
        levels = r.choice([2, 2, 2, 3, 3])
        taken: set[str] = set()
        maxdepth = levels + 1

        def level(d, k):
            fs = self.fields(r.randint(0, 2), d, taken, k, maxdepth)
            if d < levels:
                k2 = ({"struct": "union", "union": "struct"}[k]) if r.random() < 0.7 else r.choice(["struct", "union"])
                fs.append({"name": None, "ty": ["agg", k2, None, level(d + 1, k2)]})
                fs.extend(self.fields(r.randint(0, 2), d, taken, k, maxdepth))
            elif not fs or r.random() < 0.5:
                fs.extend(self.fields(r.randint(1, 2), d, taken, k, maxdepth))
            return fs

        return level(0, kind)

    # ---- items

    def add_const(self):
        r = self.r
        nm = self.fresh("K")
        text = r.choice(["1", "2", "3", "4", "0x10", '"text"', "b'raw'", "1.5", '"it\'s"', "0"])
        self.items.append({"k": "const", "name": nm, "text": text})
        if text in ("1", "2", "3", "4"):
            self.consts.append(nm)

    def add_enum(self):
        r = self.r
        nm = self.fresh("E")
        kind = r.choice(["enum", "flag"])
        base = r.choice([None, None, "uint8", "uint16", "int32", "uint64"])
        members = []
        for i in range(r.randint(1, 4)):
            m = f"{r.choice(['A', 'B', 'RED', 'm', 'X_', 'opt'])}{self.n}_{i}"
            members.append([m, None if r.random() < 0.6 else r.choice([0, 1, 2, 4, 8, 16, 100])])
        self.items.append({"k": "enum", "kind": kind, "name": nm, "base": base, "members": members})
        self.types.append(nm)
        self.arrayable.add(nm)

    def add_alias(self):
        r = self.r
        nm = self.fresh("T")
        cands = [t for t in (self.types + SCALARS) if t not in LEB]
        tgt = r.choice(cands)
        x = r.random()
        if self.legacy or x < 0.45:
            ty = ["sc", tgt]
            byname = r.random() < 0.5
        elif x < 0.65:
            ty, byname = wrap(["sc", tgt], r.randint(1, 2), []), False
        elif x < 0.88:
            ty, byname = wrap(["sc", tgt], 0, [r.choice([0, 1, 2, 4])]), False
        else:
            ty, byname = wrap(["sc", tgt], 0, [2, 3]), False
        self.items.append({"k": "alias", "name": nm, "ty": ty, "byname": byname})
        self.types.append(nm)

    def add_struct(self, deep=False, form=None):
        r = self.r
        kind = "struct" if self.legacy else r.choice(["struct", "struct", "union"])
        form = form or r.choice(["plain", "plain", "typedef-tag", "typedef-tag", "typedef-tag", "typedef-anon"])
        base = self.fresh(r.choice(["S", "Rec", "Hdr"]))
        if form == "plain":
            tag, names = base, []
        else:
            k = r.choice([1, 1, 2, 2, 3])
            names = [base] + [self.fresh(r.choice(["Al", "P", base[:3]])) for _ in range(k - 1)]
            tag = None if form == "typedef-anon" else r.choice(["_" + base, "tag" + base, "_" + base.upper() + "_t"])
        if deep:
            fields = self.deep_fields(kind)
        else:
            n = r.randint(1, 5) if (self.legacy or r.random() > 0.06) else 0
            fields = self.fields(n, 0, set(), kind, 2)
        selfref = False
        if form == "plain" and not self.legacy and r.random() < 0.15:
            # `struct S { ...; S *nxt; };` - only this form pre-registers its tag
            taken = {f[0] for f in folded(fields)}
            fields.append({"name": self.fname(taken), "ty": wrap(["sc", tag], 1, [])})
            selfref = True
        self.items.append({"k": "struct", "kind": kind, "form": form, "tag": tag, "names": names, "fields": fields, "selfref": selfref,
                           "addfield": r.choice(["commit", "update"])})
        for nm in ([tag] if tag else []) + names:
            self.types.append(nm)
        return self.items[-1]

    def definition_set(self, nstructs=None, deep_last=False):
        r = self.r
        for _ in range(r.randint(0, 5)):
            x = r.random()
            if x < 0.25:
                self.add_const()
            elif x < 0.50:
                self.add_enum()
            elif x < 0.72:
                self.add_alias()
            else:
                self.add_struct(deep=self.deep and r.random() < 0.3)
        for _ in range(nstructs if nstructs is not None else r.randint(1, 3)):
            self.add_struct(deep=self.deep and r.random() < 0.3)
            if r.random() < 0.3:
                self.add_alias()
        if deep_last:
            self.add_struct(deep=True)
        return self.items


# --------------------------------------------------------------------------------------------- rendering

def render_fields(fields, legacy):
    return " ".join(render_field(f, legacy) for f in fields)


def render_base(base, legacy):
    if base[0] == "sc":
        return base[1]
    _, kind, tag, sub = base
    body = render_fields(sub, legacy)
    return f"{kind} {tag + ' ' if tag else ''}{{ {body} }}" if body else f"{kind} {tag + ' ' if tag else ''}{{ }}"


def render_decl(ty, name, legacy):
    base, stars, dims = unwrap(ty)
    d = "".join("[]" if x is None else f"[{x}]" for x in dims)
    return f"{render_base(base, legacy)} {'*' * stars}{name}{d}"


def render_field(f, legacy):
    if f["name"] is None:
        return render_base(f["ty"], legacy) + ";"
    if f.get("bits"):
        colon = ":" if legacy else [":", " : ", ": "][f.get("sp", 0)]
        return f"{f['ty'][1]} {f['name']}{colon}{f['bits']};"
    return render_decl(f["ty"], f["name"], legacy) + ";"


def render_item(it, legacy=False):
    k = it["k"]
    if k == "const":
        return f"#define {it['name']} {it['text']}\n"
    if k == "enum":
        ms = ", ".join(m if v is None else f"{m} = {v}" for m, v in it["members"])
        return f"{it['kind']} {it['name']}{' : ' + it['base'] if it['base'] else ''} {{ {ms} }};\n"
    if k == "alias":
        return f"typedef {render_decl(it['ty'], it['name'], legacy)};\n"
    body = render_fields(it["fields"], legacy) or " "
    if it["form"] == "plain":
        return f"{it['kind']} {it['tag']} {{ {body} }};\n"
    return f"typedef {it['kind']} {it['tag'] + ' ' if it['tag'] else ''}{{ {body} }} {', '.join(it['names'])};\n"


def render(items, legacy=False):
    return "".join(render_item(it, legacy) for it in items)


def legacy_ok(items):
    """may this set go through the legacy parser? (the generator's legacy mode only writes such sets; corpus sets are checked)"""
    for it in items:
        if it["k"] == "alias" and it["ty"][0] != "sc":
            return False
        if it["k"] == "struct":
            if it["kind"] != "struct" or not it["fields"] or it.get("selfref"):
                return False
            for f in it["fields"]:
                base, stars, dims = unwrap(f["ty"]) if f["name"] is not None else (f["ty"], 0, [])
                if base[0] != "sc" or " " in base[1] or len(dims) > 1 or stars > 1 or (stars and dims):
                    return False
    return True


# --------------------------------------------------------------------------------------------- the routes

def expected_names(items):
    consts = [it["name"] for it in items if it["k"] == "const"]
    types = []
    for it in items:
        if it["k"] in ("enum", "alias"):
            types.append(it["name"])
        elif it["k"] == "struct":
            types.extend(([it["tag"]] if it["tag"] else []) + it["names"])
    return consts, types


def type_name_of(it):
    return it["tag"] or it["names"][0]


class ApiBuilder:
    """the items through the construction API"""

    def __init__(self, m, cs, align, addfield):
        self.m, self.cs, self.align, self.addfield = m, cs, align, addfield
        self.k = 0

    def anon_name(self):
        nxt = getattr(self.cs, "_next_anonymous", None)
        if nxt is not None:
            return nxt()
        self.k += 1
        return f"__anonymous_api{self.k}__"

    def count(self, d):
        return self.cs.consts[d] if isinstance(d, str) else d

    def make(self, ty):
        cs = self.cs
        if ty[0] == "sc":
            return cs.resolve(ty[1])
        if ty[0] == "ptr":
            return cs._make_pointer(self.make(ty[1]))
        if ty[0] == "arr":
            return cs._make_array(self.make(ty[1]), self.count(ty[2]))
        _, kind, tag, sub = ty
        factory = cs._make_union if kind == "union" else cs._make_struct
        fields = self.make_fields(sub)
        return factory(tag or self.anon_name(), fields, align=self.align, anonymous=tag is None)

    def make_fields(self, fields):
        return [self.m.Field(f["name"], self.make(f["ty"]), f.get("bits")) for f in fields]

    def item(self, it):
        cs = self.cs
        k = it["k"]
        if k == "const":
            try:
                v = ast.literal_eval(it["text"])
            except (ValueError, SyntaxError):
                v = it["text"]
            cs.consts[it["name"]] = v
        elif k == "enum":
            values, nxt = {}, (1 if it["kind"] == "flag" else 0)
            for mname, v in it["members"]:
                v = nxt if v is None else v
                nxt = (2 ** v.bit_length() if it["kind"] == "flag" else v + 1)
                values[mname] = v
            factory = cs._make_flag if it["kind"] == "flag" else cs._make_enum
            e = factory(it["name"], cs.resolve(it["base"] or "uint32"), values)
            cs.add_type(it["name"], e)
        elif k == "alias":
            if it["ty"][0] == "sc" and it.get("byname"):
                cs.add_type(it["name"], it["ty"][1])
            else:
                cs.add_type(it["name"], self.make(it["ty"]))
        else:
            factory = cs._make_union if it["kind"] == "union" else cs._make_struct
            name = type_name_of(it)
            allnames = ([it["tag"]] if it["tag"] else []) + it["names"]
            if self.addfield or it.get("selfref"):
                st = factory(name, [], align=self.align)
                if it["form"] == "plain":
                    cs.add_type(name, st)  # registered before it has fields, like the parser does for self references
                if it.get("addfield") == "update":
                    with st.start_update():
                        for f in it["fields"]:
                            st.add_field(f["name"], self.make(f["ty"]), f.get("bits"))
                else:
                    for f in it["fields"]:
                        st.add_field(f["name"], self.make(f["ty"]), f.get("bits"))
            else:
                st = factory(name, self.make_fields(it["fields"]), align=self.align)
            for nm in allnames:
                cs.add_type(nm, st)


def new_cs(m, opt):
    kw = {}
    if "endian" in opt:
        kw["endian"] = opt["endian"]
    if opt.get("pointer"):
        kw["pointer"] = opt["pointer"]
    return m.cstruct(**kw)


def build(m, data):
    """fresh cstruct holding the case's items, loaded through the case's route.  Raises what the library raises."""
    items, route, opt = data["items"], data["route"], data.get("options") or {}
    cs = new_cs(m, opt)
    lk = {k: opt[k] for k in ("compiled", "align") if k in opt}
    if route == "load":
        cs.load(render(items), **lk)
    elif route in ("loadfile", "legacy-file"):
        legacy = route == "legacy-file"
        d = tempfile.mkdtemp(prefix="c20v9-")
        try:
            p = os.path.join(d, "defs.h")
            with open(p, "w") as fh:
                fh.write(render(items, legacy))
            if legacy:
                cs.loadfile(p, deftype=m.cstruct.DEF_LEGACY, **{k: v for k, v in lk.items() if k == "compiled"})
            else:
                cs.loadfile(p, **lk)
        finally:
            shutil.rmtree(d, ignore_errors=True)
    elif route == "split":
        cuts = sorted(set(data.get("cuts") or [len(items) // 2]))
        prev = 0
        for c in cuts + [len(items)]:
            if c > prev:
                cs.load(render(items[prev:c]), **lk)
            prev = max(prev, c)
    elif route == "legacy":
        cs.load(render(items, True), deftype=m.cstruct.DEF_LEGACY, **{k: v for k, v in lk.items() if k == "compiled"})
    elif route in ("api", "api-addfield"):
        b = ApiBuilder(m, cs, bool(opt.get("align")), route == "api-addfield")
        for it in items:
            b.item(it)
    elif route == "mixed":
        c = (data.get("cuts") or [len(items) // 2])[0]
        if c:
            cs.load(render(items[:c]), **lk)
        b = ApiBuilder(m, cs, bool(opt.get("align")), bool(data.get("buf_seed", 0) & 1))
        for it in items[c:]:
            b.item(it)
    else:
        raise ValueError(f"unknown route {route}")
    return cs


def pick_options(rnd) -> dict:
    return {"endian": rnd.choice(["<", "<", ">", "!", "@", "="]), "pointer": rnd.choice([None, None, "uint32", "uint64", "uint16"]),
            "compiled": rnd.random() < 0.5, "align": rnd.random() < 0.3}


# --------------------------------------------------------------------------------------------- the tree oracle

class Env:
    def __init__(self, m, cs, items, Bad):
        self.m, self.cs, self.Bad = m, cs, Bad
        self.T = m.types
        self.structs, self.aliases = {}, {}
        for it in items:
            if it["k"] == "struct":
                for nm in ([it["tag"]] if it["tag"] else []) + it["names"]:
                    self.structs[nm] = it
            elif it["k"] == "alias":
                self.aliases[it["name"]] = it["ty"]

    def expand(self, ty):
        """typedef aliases of pointer / array declarators stand for what they declare"""
        for _ in range(40):
            if ty[0] == "sc" and ty[1] in self.aliases:
                ty = self.aliases[ty[1]]
            else:
                return ty
        return ty

    def resolve(self, name):
        try:
            return self.cs.resolve(name)
        except Exception:  # noqa: BLE001
            raise self.Bad(f"the cstruct object does not resolve the type name {name!r}") from None

    def is_a(self, name, base):
        return self.resolve(name) is self.resolve(base)


def hint_text(node):
    try:
        return ast.unparse(node)
    except Exception:  # noqa: BLE001
        return ast.dump(node)[:60]


def check_hint(env: Env, h, ty, inline, where):
    """the hint expression `h` has the shape the declared type tree `ty` prescribes"""
    Bad = env.Bad
    ty = env.expand(ty)
    k = ty[0]

    def is_cs_attr(x):
        return isinstance(x, ast.Attribute) and isinstance(x.value, ast.Name) and x.value.id == "cstruct"

    if k == "sc":
        name = ty[1]
        if name in env.structs and isinstance(h, ast.Name):
            it = env.structs[name]
            if h.id not in inline or h.id != type_name_of(it):
                raise Bad(f"{where}: hint {h.id} for a member of the structure type {name} ({type_name_of(it)}) is not an inline class of that name")
            check_class(env, inline[h.id], it["kind"], it["fields"], where + "." + h.id)
            return
        if not is_cs_attr(h):
            raise Bad(f"{where}: the member is declared as {name}, the hint is {hint_text(h)}")
        got, want = env.resolve(h.attr), env.resolve(name)
        if got is not want:
            raise Bad(f"{where}: the member is declared as {name} ({want.__name__}), the hint cstruct.{h.attr} names {got.__name__}")
        return
    if k == "arr":
        el = env.expand(ty[1])
        if el[0] == "sc" and el[1] not in env.structs:
            if env.is_a(el[1], "char"):
                if not (isinstance(h, ast.Name) and h.id == "CharArray"):
                    raise Bad(f"{where}: the member is an array of char, the hint is {hint_text(h)}")
                return
            if env.is_a(el[1], "wchar"):
                if not (isinstance(h, ast.Name) and h.id == "WcharArray"):
                    raise Bad(f"{where}: the member is an array of wchar, the hint is {hint_text(h)}")
                return
        if not (isinstance(h, ast.Subscript) and isinstance(h.value, ast.Name) and h.value.id == "Array"):
            raise Bad(f"{where}: the member is an array, the hint is {hint_text(h)}")
        check_hint(env, h.slice, ty[1], inline, where + "[]")
        return
    if k == "ptr":
        if not (isinstance(h, ast.Subscript) and isinstance(h.value, ast.Name) and h.value.id == "Pointer"):
            raise Bad(f"{where}: the member is a pointer, the hint is {hint_text(h)}")
        check_hint(env, h.slice, ty[1], inline, where + "*")
        return
    # an inline aggregate
    _, kind, tag, sub = ty
    if not isinstance(h, ast.Name) or h.id not in inline:
        raise Bad(f"{where}: the member is a nested {kind} defined in place, the hint {hint_text(h)} is not an inline class of the enclosing class")
    if tag and h.id != tag:
        raise Bad(f"{where}: the nested {kind} is tagged {tag}, the hint names {h.id}")
    check_class(env, inline[h.id], kind, sub, where + "." + h.id)


def class_layout(env, cdef, where):
    """(inline classes, [(name, hint, inline-so-far)], [__init__ overloads]) of a structure class of the stub"""
    inline, ann, inits = {}, [], []
    for st in cdef.body:
        if isinstance(st, ast.ClassDef):
            inline[st.name] = st
        elif isinstance(st, ast.AnnAssign) and isinstance(st.target, ast.Name) and st.value is None:
            ann.append((st.target.id, st.annotation, dict(inline)))
        elif isinstance(st, ast.FunctionDef) and st.name == "__init__":
            inits.append(st)
        else:
            raise env.Bad(f"{where}: unexpected statement in the class: {hint_text(st)[:60]}")
    return inline, ann, inits


def check_class(env: Env, cdef, kind, fields, where):
    """the class declares exactly the data attributes of the definition (anonymous members folded), in order, each with the hint
    its declaration prescribes, and repeats them as keyword parameters of __init__"""
    Bad = env.Bad
    base = cdef.bases[0].id if (len(cdef.bases) == 1 and isinstance(cdef.bases[0], ast.Name)) else None
    if base != ("Union" if kind == "union" else "Structure"):
        raise Bad(f"{where}: the class derives from {base}, the definition is a {kind}")
    inline, ann, inits = class_layout(env, cdef, where)
    want = folded(fields)
    got = [a[0] for a in ann]
    if got != [w[0] for w in want]:
        raise Bad(f"{where}: the class declares the fields {got}; the definition gives its instances the data attributes {[w[0] for w in want]} "
                  f"(missing {[w[0] for w in want if w[0] not in got]}, extra {[g for g in got if g not in {w[0] for w in want}]})")
    for (n, hint, inl), (_, ty, _) in zip(ann, want):
        check_hint(env, hint, ty, inl, f"{where}.{n}")
    if len(inits) != 2:
        raise Bad(f"{where}: {len(inits)} __init__ overloads")
    params = [a.arg for a in inits[0].args.args]
    if params != ["self"] + [w[0] for w in want]:
        raise Bad(f"{where}: __init__ takes {params[1:]}; the definition gives its instances the data attributes {[w[0] for w in want]}")
    for a, (n, ty, _) in zip(inits[0].args.args[1:], want):
        an = a.annotation
        if not (isinstance(an, ast.BinOp) and isinstance(an.op, ast.BitOr) and isinstance(an.right, ast.Constant) and an.right.value is None):
            raise Bad(f"{where}: __init__ parameter {n} is not `<hint> | None`")
        check_hint(env, an.left, ty, inline, f"{where}.__init__({n})")


def stub_body(tree, Bad, cls_name="cstruct"):
    if len(tree.body) != 1 or not isinstance(tree.body[0], ast.ClassDef) or tree.body[0].name != cls_name:
        raise Bad("the stub is not a single class " + cls_name)
    return tree.body[0].body


def declared(body):
    out = []
    for st in body:
        if isinstance(st, ast.ClassDef):
            out.append((st.name, st))
        elif isinstance(st, ast.AnnAssign) and isinstance(st.target, ast.Name):
            out.append((st.target.id, st))
    return out


def check_names(items, body, Bad, route):
    consts, types = expected_names(items)
    want = consts + types
    got = [n for n, _ in declared(body)]
    if sorted(got) != sorted(want):
        missing = sorted(set(want) - set(got))
        extra = sorted(set(got) - set(want))
        dup = sorted({g for g in got if got.count(g) > 1})
        raise Bad(f"route {route}: the definitions define {want}; the stub declares {got} (missing {missing}, extra {extra}, declared more than once {dup})")


# --------------------------------------------------------------------------------------------- instances

def make_buffer(seed, size):
    r = random.Random(seed)
    n = (size if size is not None else 96) + r.choice([0, 0, 3, 40])
    mode = r.random()
    if mode < 0.22:
        body = bytes(n)
    elif mode < 0.34:
        body = bytes(n - 1) + b"\x01" if n else b""
    else:
        body = bytes(r.randint(1, 0x7F) for _ in range(n))
    return body + bytes(1024)


CONVENTIONS = ["call-bytes", "call-bytearray", "call-memoryview", "call-bytesio", "read-bytes", "read-bytesio", "reads-bytes", "reads-memoryview",
               "cs.read-bytesio", "read-file", "call-file"]


def parse(cs, T, name, buf, conv):
    if conv == "call-bytes":
        return T(buf)
    if conv == "call-bytearray":
        return T(bytearray(buf))
    if conv == "call-memoryview":
        return T(memoryview(buf))
    if conv == "call-bytesio":
        return T(io.BytesIO(buf))
    if conv == "read-bytes":
        return T.read(buf)
    if conv == "read-bytesio":
        return T.read(io.BytesIO(buf))
    if conv == "reads-bytes":
        return T.reads(buf)
    if conv == "reads-memoryview":
        return T.reads(memoryview(buf))
    if conv == "cs.read-bytesio":
        return cs.read(name, io.BytesIO(buf))
    with tempfile.TemporaryFile() as fh:
        fh.write(buf)
        fh.seek(0)
        return T.read(fh) if conv == "read-file" else T(fh)


def target(v):
    """a structure inside a union is handed out through a proxy"""
    if type(v).__name__ == "UnionProxy":
        try:
            return object.__getattribute__(v, "__target__")
        except AttributeError:
            return v
    return v


def value_fits(env: Env, v, h, inline):
    """is the parsed value an instance of what the hint names? -> None or a reason"""
    T = env.T
    v = target(v)
    if isinstance(h, ast.Name):
        if h.id == "CharArray":
            return None if isinstance(v, T.CharArray) else f"a {type(v).__name__}, the hint is CharArray"
        if h.id == "WcharArray":
            return None if isinstance(v, T.WcharArray) else f"a {type(v).__name__}, the hint is WcharArray"
        if isinstance(v, T.Structure) and type(v).__name__ == h.id:
            return None
        return f"a {type(v).__name__}, the hint names the inline class {h.id}"
    if isinstance(h, ast.Attribute):
        t = env.resolve(h.attr)
        return None if isinstance(v, t) else f"a {type(v).__name__}, the hint names cstruct.{h.attr} ({t.__name__})"
    if isinstance(h, ast.Subscript) and isinstance(h.value, ast.Name):
        if h.value.id == "Array":
            if not isinstance(v, T.Array):
                return f"a {type(v).__name__}, the hint is Array[...]"
            for el in list(v)[:3]:
                why = value_fits(env, el, h.slice, inline)
                if why:
                    return "an array whose element is " + why
            return None
        if h.value.id == "Pointer":
            return None if isinstance(v, T.Pointer) else f"a {type(v).__name__}, the hint is Pointer[...]"
    return None


def check_instance(env: Env, it, T, cdef, buf_seed, conv, feat):
    """what instances of the structure do, against the stub class and the definition"""
    Bad = env.Bad
    name = type_name_of(it)
    where = f"{it['kind']} {name}"
    want = folded(it["fields"])
    inline, ann, inits = class_layout(env, cdef, where)
    size = getattr(T, "size", None)
    if isinstance(size, int) and size > (1 << 18):
        feat("v9:instance:skipped-large")
        return
    buf = make_buffer(buf_seed, size if isinstance(size, int) else None)
    try:
        inst = parse(env.cs, T, name, buf, conv)
        again = parse(env.cs, T, name, buf, "call-bytes")
    except Exception as e:  # noqa: BLE001 - what parses is not this property's business
        feat("v9:instance:parse-failed:" + type(e).__name__)
        return
    feat("v9:instance:parsed")
    feat("v9:conv:" + conv)
    values = {}
    for n in dict.fromkeys([a[0] for a in ann] + [w[0] for w in want]):
        src = "the stub class declares" if n in {a[0] for a in ann} else "the definition has"
        try:
            values[n] = getattr(inst, n)
        except Exception as e:  # noqa: BLE001
            raise Bad(f"{where}: {src} the field {n}, but a parsed instance does not provide it ({type(e).__name__}: {e})") from None
        try:
            inst[n]
        except Exception as e:  # noqa: BLE001
            raise Bad(f"{where}: {src} the field {n}, but item access on a parsed instance fails ({type(e).__name__}: {e})") from None
    bits = {w[0] for w in want if w[2]}
    for n, hint, inl in ann:
        if n in bits:
            continue  # (the value of a bit-field is a plain int on the unmodified tree)
        why = value_fits(env, values[n], hint, inl)
        if why:
            raise Bad(f"{where}: field {n} of a parsed instance is {why}")
    # repr / bool / eq / hash keep working
    try:
        rp = repr(inst)
    except Exception as e:  # noqa: BLE001
        raise Bad(f"{where}: repr() of a parsed instance raises {type(e).__name__}: {e}") from None
    pos = 0
    for n, _, _ in want:
        j = rp.find(f" {n}=", pos)
        if j < 0:
            raise Bad(f"{where}: repr() of a parsed instance does not list the data attribute {n} in order: {rp[:200]}")
        pos = j + 1
    try:
        b = bool(inst)
    except Exception as e:  # noqa: BLE001
        raise Bad(f"{where}: bool() of a parsed instance raises {type(e).__name__}: {e}") from None
    try:
        expect = any(bool(values[n]) for n, _, _ in want)
    except Exception:  # noqa: BLE001
        expect = None
    if expect is not None and b != expect:
        raise Bad(f"{where}: bool() of a parsed instance is {b}, any(data attribute) is {expect}: {rp[:200]}")
    feat(f"v9:instance:bool={b}")
    try:
        same = inst == again
    except NotImplementedError:
        # unions compare by their bytes and the library documents that a dynamically sized union cannot be written: no comparison
        feat("v9:instance:eq-not-implemented(dynamic union)")
        same = None
    except Exception as e:  # noqa: BLE001
        raise Bad(f"{where}: comparing two parses of the same bytes raises {type(e).__name__}: {e}") from None
    if same is not None and not same:
        raise Bad(f"{where}: two parses of the same bytes are not equal: {rp[:200]}")
    hashable = True
    for n, _, _ in want:
        try:
            hash(values[n])
        except Exception:  # noqa: BLE001
            hashable = False
            break
    if hashable:
        try:
            h1, h2 = hash(inst), hash(again)
        except Exception as e:  # noqa: BLE001
            raise Bad(f"{where}: every data attribute is hashable but hash() of a parsed instance raises {type(e).__name__}: {e}") from None
        if same and h1 != h2:
            raise Bad(f"{where}: two equal parses of the same bytes hash differently")
        feat("v9:instance:hash-ok")
    else:
        feat("v9:instance:unhashable-member")
    # every keyword the stub's __init__ declares is accepted by the class
    if len(inits) == 2:
        kws = [a.arg for a in inits[0].args.args[1:]]
        has_anon = any(f["name"] is None for f in it["fields"])
        dyn_union = it["kind"] == "union" and getattr(T, "dynamic", False)
        if dyn_union or not kws:
            feat("v9:kwinit:skipped")
        else:
            try:
                T(**{k: None for k in kws})
                ok = None
            except Exception as e:  # noqa: BLE001
                ok = e
            if has_anon:
                # documented exclusion (module docstring): the real __init__ takes the raw member name of an anonymous member
                feat("v9:kwinit:anonymous-member:" + ("accepted" if ok is None else type(ok).__name__))
            elif ok is not None:
                raise Bad(f"{where}: the stub declares __init__({', '.join(kws)}), calling the class with these keywords raises {type(ok).__name__}: {ok}")
            else:
                feat("v9:kwinit:accepted")


# --------------------------------------------------------------------------------------------- one case

def evaluate(m, sg, cs, data, hooks, feat, out):
    """raise hooks.Bad(reason) when the property fails for this (set, route); out['stub'] = the stub text"""
    Bad = hooks.Bad
    items, route = data["items"], data["route"]
    try:
        stub = sg.generate_cstruct_stub(cs)
    except Exception as e:  # noqa: BLE001
        raise Bad(f"generate_cstruct_stub raises {type(e).__name__}: {e}") from None
    out["stub"] = stub
    hooks.oracle(m, cs, stub)
    tree = ast.parse(stub)
    body = stub_body(tree, Bad)
    check_names(items, body, Bad, route)
    env = Env(m, cs, items, Bad)
    classes = {n: st for n, st in declared(body) if isinstance(st, ast.ClassDef)}
    r = random.Random(data.get("buf_seed", 0))
    for it in items:
        if it["k"] != "struct":
            continue
        name = type_name_of(it)
        if name not in classes:
            raise Bad(f"route {route}: no class {name} in the stub for `{render_item(it).strip()[:80]}`")
        check_class(env, classes[name], it["kind"], it["fields"], f"{it['kind']} {name}")
        T = env.resolve(name)
        # the same through the structure-level entry point
        try:
            direct = sg.generate_structure_stub(T, cs_prefix="cstruct.")
        except Exception as e:  # noqa: BLE001
            raise Bad(f"generate_structure_stub({name}) raises {type(e).__name__}: {e}") from None
        try:
            dtree = ast.parse(direct)
        except SyntaxError as e:
            raise Bad(f"generate_structure_stub({name}) is not valid Python: {e.msg}") from None
        if len(dtree.body) != 1 or not isinstance(dtree.body[0], ast.ClassDef) or dtree.body[0].name != name:
            raise Bad(f"generate_structure_stub({name}) is not a single class {name}")
        check_class(env, dtree.body[0], it["kind"], it["fields"], f"generate_structure_stub: {it['kind']} {name}")
        conv = r.choice(CONVENTIONS[:9]) if r.random() < 0.93 else r.choice(CONVENTIONS[9:])
        check_instance(env, it, T, classes[name], r.randrange(1 << 30), conv, feat)
        d = max_anon_depth(it["fields"])
        if d:
            feat(f"v9:anon-depth={d}")
    return stub


def evaluate_file_stub(m, sg, data, hooks, feat, out):
    """the set through a real Python module and stubgen.generate_file_stub: valid Python, the class `_<var>` declares exactly the
    names of the definitions, `<var>` is an alias of it"""
    Bad = hooks.Bad
    items, opt = data["items"], data.get("options") or {}
    var = data.get("var", "c_def")
    d = tempfile.mkdtemp(prefix="c20v9-")
    try:
        p = os.path.join(d, "pkg_defs.py")
        kw = ", ".join(f"{k}={opt[k]!r}" for k in ("endian", "pointer") if opt.get(k))
        lk = "".join(f", {k}={opt[k]!r}" for k in ("compiled", "align") if k in opt)
        with open(p, "w") as fh:
            fh.write(f"from dissect.cstruct import cstruct\n\nDEFS = {render(items)!r}\n{var} = cstruct({kw}).load(DEFS{lk})\n")
        from pathlib import Path

        try:
            text = sg.generate_file_stub(Path(p), Path(d))
        except Exception as e:  # noqa: BLE001
            raise Bad(f"generate_file_stub raises {type(e).__name__}: {e}") from None
    finally:
        shutil.rmtree(d, ignore_errors=True)
    out["stub"] = text
    if not text:
        raise Bad("generate_file_stub returns nothing for a module whose definitions load")
    try:
        tree = ast.parse(text)
    except SyntaxError as e:
        raise Bad(f"the file stub is not valid Python: {e.msg} (line {e.lineno})") from None
    cls = [st for st in tree.body if isinstance(st, ast.ClassDef)]
    if len(cls) != 1 or cls[0].name != "_" + var:
        raise Bad(f"the file stub does not hold exactly the class _{var}: {[c.name for c in cls]}")
    check_names(items, cls[0].body, Bad, "file-stub")
    al = [st for st in tree.body if isinstance(st, ast.AnnAssign) and isinstance(st.target, ast.Name) and st.target.id == var]
    if len(al) != 1 or not (isinstance(al[0].value, ast.Name) and al[0].value.id == "_" + var):
        raise Bad(f"the file stub does not declare {var} as an alias of _{var}")
    # field names of every structure class: the definition's data attributes
    classes = {st.name: st for st in cls[0].body if isinstance(st, ast.ClassDef)}
    for it in items:
        if it["k"] != "struct":
            continue
        name = type_name_of(it)
        if name not in classes:
            raise Bad(f"file stub: no class {name}")
        ann = [st.target.id for st in classes[name].body if isinstance(st, ast.AnnAssign) and isinstance(st.target, ast.Name)]
        want = [w[0] for w in folded(it["fields"])]
        if ann != want:
            raise Bad(f"file stub: class {name} declares the fields {ann}; the definition gives its instances the data attributes {want}")
    return text


def run_case(m, sg, data, hooks, res, lines, metas, key_extra=()):
    """build, evaluate, report, queue for the model.  Returns True when the case was evaluated."""
    feat = res.feat
    route = data["route"]
    out = {}
    if route == "file-stub":
        try:
            new_cs(m, data.get("options") or {}).load(render(data["items"]))
        except Exception as e:  # noqa: BLE001
            feat(f"v9:{data['family']}:rejected:{route}:{type(e).__name__}")
            return False
        res.count((data["definitions"], route, key_extra), True)
        feat(f"v9:{data['family']}:route:{route}")
        try:
            evaluate_file_stub(m, sg, data, hooks, feat, out)
        except hooks.Bad as e:
            hooks.viol(str(e), dict(data, stub=out.get("stub")), None)
        except Exception as e:  # noqa: BLE001
            hooks.viol(f"the file stub cannot be read by the oracle ({type(e).__name__}: {e})", dict(data, stub=out.get("stub")), None)
        return True
    try:
        cs = build(m, data)
    except Exception as e:  # noqa: BLE001 - what the parser / the API takes is not this property's business
        feat(f"v9:{data['family']}:rejected:{route}:{type(e).__name__}")
        return False
    res.count((data["definitions"], route, key_extra), True)
    feat(f"v9:{data['family']}:route:{route}")
    try:
        evaluate(m, sg, cs, data, hooks, feat, out)
    except hooks.Bad as e:
        hooks.viol(str(e), dict(data, stub=out.get("stub")), None)
    except Exception as e:  # noqa: BLE001 - the oracle met an object of a shape it cannot read: the library changed under it
        hooks.viol(f"the stub / the cstruct object cannot be read by the oracle ({type(e).__name__}: {e})", dict(data, stub=out.get("stub")), None)
    # (the stub of a set does not depend on how the text reached the parser: one text route, the legacy route and one API route go to
    # the model)
    if out.get("stub") is not None and (data["family"] != "v9-routes" or route in ("load", "legacy", "api")):
        try:
            lines.append(hooks.line(m, cs))
            metas.append((data, out["stub"], None))
        except Exception as e:  # noqa: BLE001
            hooks.viol(f"the cstruct object cannot be snapshotted for the model ({type(e).__name__}: {e})", dict(data, stub=out["stub"]), None)
    release(m, cs)
    return True


def release(m, cs):
    """Let the garbage collector have the case's cstruct object.  The generated __init__ of a structure class carries default VALUES
    (instances of the cstruct's types) in its code object's constants; code objects are invisible to the cycle collector, so every
    cstruct object that ever defined a structure stays alive for the rest of the process (~0.15 MB per case).  Dropping the generated
    methods of the structure classes of a cstruct object the run is done with breaks that cycle."""
    seen = set()

    def walk(t):
        if isinstance(t, str) or id(t) in seen or not isinstance(t, type):
            return
        seen.add(id(t))
        if issubclass(t, m.types.Structure):
            for f in list(getattr(t, "__fields__", None) or []):
                walk(getattr(f, "type", None))
            for k in ("__init__", "__eq__", "__hash__", "__bool__", "_read"):
                try:
                    setattr(t, k, None)
                except Exception:  # noqa: BLE001
                    pass
        walk(getattr(t, "type", None))

    try:
        for v in list(cs.typedefs.values()):
            walk(v)
    except Exception:  # noqa: BLE001 - housekeeping only
        pass


# --------------------------------------------------------------------------------------------- corpora (abstract items)

def _f(name, ty, bits=None):
    d = {"name": name, "ty": ty}
    if bits:
        d["bits"] = bits
    return d


def _sc(t):
    return ["sc", t]


def _anon(kind, *fields):
    return {"name": None, "ty": ["agg", kind, None, list(fields)]}


def _st(kind, form, tag, names, fields, **kw):
    return dict({"k": "struct", "kind": kind, "form": form, "tag": tag, "names": names, "fields": list(fields), "selfref": False, "addfield": "commit"}, **kw)


DEEP_CORPUS = [
    # struct in union in struct
    [_st("struct", "plain", "Rec", [], [_f("hdr", _sc("uint16")),
                                         _anon("union", _f("raw", _sc("uint32")), _anon("struct", _f("lo", _sc("uint16")), _f("hi", _sc("uint16")))),
                                         _f("z", _sc("uint8"))])],
    # union in struct in union
    [_st("union", "plain", "Var", [], [_f("whole", _sc("uint64")),
                                        _anon("struct", _f("kind", _sc("uint8")), _anon("union", _f("x", _sc("uint16")), _f("y", _sc("int16"))), _f("w", _sc("uint32")))])],
    # three levels, arrays and a named nested member that has its own anonymous chain
    [_st("struct", "typedef-tag", "_Deep", ["Deep", "DeepAlias"], [
        _anon("struct", _f("a", wrap(_sc("uint8"), 0, [2])), _anon("union", _f("b", _sc("uint32")), _anon("struct", _f("c", _sc("char")), _f("data", wrap(_sc("char"), 0, [3]))))),
        _f("obj", wrap(["agg", "struct", None, [_anon("union", _f("q", _sc("uint8")), _anon("struct", _f("r", _sc("uint8"))))]], 0, [2])),
        _f("v1", wrap(_sc("uint16"), 1, []))])],
    # one level only (contrast)
    [_st("struct", "typedef-anon", None, ["One"], [_anon("union", _f("x", _sc("uint8")), _f("y", _sc("int8"))), _f("z", _sc("uint16"))])],
]

ROUTE_CORPUS = [
    # tag + two typedef names, flat (legacy-compatible)
    [{"k": "const", "name": "K1", "text": "2"},
     {"k": "enum", "kind": "enum", "name": "Color", "base": "uint8", "members": [["RED", None], ["GREEN", 4]]},
     _st("struct", "typedef-tag", "_Pkt", ["Pkt", "PktAlias"], [_f("len", _sc("uint16")), _f("kind", _sc("Color")), _f("data", wrap(_sc("char"), 0, ["K1"])),
                                                                _f("next", wrap(_sc("uint8"), 1, [])), _f("lo", _sc("uint8"), 4), _f("hi", _sc("uint8"), 4)]),
     {"k": "alias", "name": "PktT", "ty": _sc("Pkt"), "byname": True},
     _st("struct", "plain", "Use", [], [_f("a", _sc("Pkt")), _f("b", wrap(_sc("PktAlias"), 0, [2])), _f("c", wrap(_sc("_Pkt"), 1, []))])],
    # tag + one typedef name; anonymous typedef with two names
    [_st("struct", "typedef-tag", "tagA", ["A"], [_f("x", _sc("uint32"))]),
     _st("struct", "typedef-anon", None, ["B", "B2"], [_f("y", _sc("A")), _f("z", wrap(_sc("tagA"), 0, [None]))])],
]


# --------------------------------------------------------------------------------------------- the two families

def _multiword(m):
    try:
        have = m.cstruct().typedefs
    except Exception:  # noqa: BLE001
        return []
    return [t for t in MULTIWORD if t in have]


def deep_family(env, res, m, sg, hooks, lines, metas, mkrng):
    """DEEP ANONYMOUS NESTING: every set ends in a structure / union with a chain of 2-3 anonymous members directly inside one
    another, loaded through one random route"""
    rnd = mkrng(env["seed"], "c20-v9-deep")
    n = 260 if env["tier"] == "quick" else 3500
    mw = _multiword(m)
    sampled = False
    for i in range(n + len(DEEP_CORPUS)):
        if i < len(DEEP_CORPUS):
            items = json.loads(json.dumps(DEEP_CORPUS[i]))
            routes = LOAD_ROUTES
        else:
            g = DefGen(rnd, legacy=False, deep=True, multiword=mw)
            for _ in range(rnd.choice([0, 0, 1, 2])):
                rnd.choice([g.add_const, g.add_enum, g.add_alias, g.add_struct])()
            g.add_struct(deep=True)
            if rnd.random() < 0.3:
                g.add_struct(deep=rnd.random() < 0.5)
            items = json.loads(json.dumps(g.items))
            routes = [rnd.choice(LOAD_ROUTES)]
        for route in routes:
            data = {"family": "v9-deep", "route": route, "items": items, "definitions": render(items),
                    "options": pick_options(rnd) if i >= len(DEEP_CORPUS) else {}, "buf_seed": rnd.randrange(1 << 30),
                    "cuts": sorted(rnd.sample(range(len(items) + 1), min(len(items) + 1, rnd.randint(1, 3))))}
            ok = run_case(m, sg, data, hooks, res, lines, metas)
            if ok and not sampled and i >= len(DEEP_CORPUS):
                sampled = True
                res.sample({"family": "v9-deep", "route": route, "definitions": data["definitions"], "options": data["options"]})


def routes_family(env, res, m, sg, hooks, lines, metas, mkrng):
    """DEFINITIONS LOADED THROUGH EVERY LOADING ROUTE: every set through every route it may take"""
    rnd = mkrng(env["seed"], "c20-v9-routes")
    n = 60 if env["tier"] == "quick" else 1200
    mw = _multiword(m)
    sampled = False
    for i in range(n + len(ROUTE_CORPUS)):
        if i < len(ROUTE_CORPUS):
            items = json.loads(json.dumps(ROUTE_CORPUS[i]))
        else:
            legacy = rnd.random() < 0.55
            g = DefGen(rnd, legacy=legacy, deep=(not legacy and rnd.random() < 0.3), multiword=mw)
            g.definition_set()
            if rnd.random() < 0.6:
                g.add_struct(form="typedef-tag")  # tag + typedef names: three kinds of name for one type
            if rnd.random() < 0.4:
                g.add_struct()  # ... used by a later structure
            items = json.loads(json.dumps(g.items))
        routes = list(LOAD_ROUTES)
        if legacy_ok(items):
            routes += LEGACY_ROUTES
            res.feat("v9:routes:legacy-compatible-set")
        if rnd.random() < (0.2 if env["tier"] == "quick" else 0.1):
            routes.append("file-stub")
        opts = pick_options(rnd) if i >= len(ROUTE_CORPUS) else {}
        cuts = sorted(rnd.sample(range(len(items) + 1), min(len(items) + 1, rnd.randint(1, 3))))
        seed = rnd.randrange(1 << 30)
        for route in routes:
            legacy_route = route in LEGACY_ROUTES
            data = {"family": "v9-routes", "route": route, "items": items, "definitions": render(items, legacy_route), "options": opts,
                    "buf_seed": seed, "cuts": cuts}
            ok = run_case(m, sg, data, hooks, res, lines, metas)
            if ok and legacy_route and any(it["k"] == "struct" and it["tag"] and it["names"] for it in items):
                res.feat("v9:routes:legacy:tag+typedef-names")
            if ok and not sampled and legacy_route:
                sampled = True
                res.sample({"family": "v9-routes", "route": route, "definitions": data["definitions"], "options": opts})


def run_families(env, res, m, sg, hooks, lines, metas, mkrng):
    deep_family(env, res, m, sg, hooks, lines, metas, mkrng)
    routes_family(env, res, m, sg, hooks, lines, metas, mkrng)


# --------------------------------------------------------------------------------------------- replay

def replay(m, sg, data, hooks) -> int:
    print(f"family {data['family']}, route {data['route']}, options {data.get('options')}, cuts {data.get('cuts')}")
    print(data["definitions"])
    out = {}

    def feat(k, n=1):
        pass

    if data["route"] == "file-stub":
        try:
            evaluate_file_stub(m, sg, data, hooks, feat, out)
        except hooks.Bad as e:
            print(out.get("stub") or "")
            print("property fails:", e)
            return 1
        print("property holds on this case")
        return 0
    try:
        cs = build(m, data)
    except Exception as e:  # noqa: BLE001
        print(f"the recorded definitions no longer load through route {data['route']} ({type(e).__name__}: {e})")
        return 0
    try:
        evaluate(m, sg, cs, data, hooks, feat, out)
    except hooks.Bad as e:
        print(out.get("stub") or "")
        print("property fails:", e)
        return 1
    except Exception as e:  # noqa: BLE001
        print(out.get("stub") or "")
        print(f"property fails: the stub / the cstruct object cannot be read by the oracle ({type(e).__name__}: {e})")
        return 1
    print(out.get("stub") or "")
    print("property holds on this case")
    return 0
